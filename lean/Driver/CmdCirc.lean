/-
  CmdCirc.lean — driver commands for circuit compilation by the stabilizer-backend model (C01; used by C02, C10).
  ops=  H:e0,P:p1,PD:e0,X:..,Y:..,Z:..,I:..,CX:e0:p1,CZ:e0:e1,CCX:e0:p1:c0,CCZ:e0:p1:c0,MCR:e0:p1:c0,MZ:p0:c1,W:Hadamard.Phase:p0
-/
import GraphiqModel.Model.Circuit
import GraphiqModel.Model.Check
import Driver.Proto
import Driver.CmdTab
namespace Graphiq.CmdCirc
open Graphiq Graphiq.Proto

def regOf (s : String) : Option QReg :=
  match s.toList with
  | 'e' :: rest => (String.ofList rest).toNat?.map fun k => ⟨.e, k⟩
  | 'p' :: rest => (String.ofList rest).toNat?.map fun k => ⟨.p, k⟩
  | _ => none

def cregOf (s : String) : Option Nat :=
  match s.toList with
  | 'c' :: rest => (String.ofList rest).toNat?
  | _ => none

def opOf (s : String) : Option COp :=
  let parts := splitChar ':' s
  let a (k : Nat) : String := parts.getD (k + 1) ""
  match parts.headD "" with
  | "I" => (regOf (a 0)).map (COp.gate1 .I) | "H" => (regOf (a 0)).map (COp.gate1 .H)
  | "P" => (regOf (a 0)).map (COp.gate1 .P) | "X" => (regOf (a 0)).map (COp.gate1 .X)
  | "Y" => (regOf (a 0)).map (COp.gate1 .Y) | "Z" => (regOf (a 0)).map (COp.gate1 .Z)
  | "PD" => (regOf (a 0)).map COp.pdag
  | "CX" => do let c ← regOf (a 0); let t ← regOf (a 1); pure (.cnot c t)
  | "CZ" => do let c ← regOf (a 0); let t ← regOf (a 1); pure (.cz c t)
  | "CCX" => do let c ← regOf (a 0); let t ← regOf (a 1); let r ← cregOf (a 2); pure (.ccx c t r)
  | "CCZ" => do let c ← regOf (a 0); let t ← regOf (a 1); let r ← cregOf (a 2); pure (.ccz c t r)
  | "MCR" => do let c ← regOf (a 0); let t ← regOf (a 1); let r ← cregOf (a 2); pure (.mcr c t r)
  | "MZ" => do let q ← regOf (a 0); let r ← cregOf (a 1); pure (.measz q r)
  | "W" => do
    let gs ← (splitChar '.' (a 0)).mapM Cliff.Gen.ofName
    let q ← regOf (a 1)
    pure (.wrap gs q)
  | _ => none

def opsOf (s : String) : Option (List COp) := (listOf s).mapM opOf

def detOf (s : String) : Det := if s = "0" then .zero else if s = "1" then .one else .prob

def bitsStr (l : List Bool) : String := if l.isEmpty then "-" else String.ofList (l.map fun b => if b then '1' else '0')

/-- circ.stab ne= np= nc= det=0|1|p script=<bits> ops=…  [init: n= x= z= r= i=] -/
def stab (a : Args) : String :=
  let ne := getNat a "ne"
  let np := getNat a "np"
  let nc := getNat a "nc"
  let script := (get a "script").toList.filter (fun c => c = '0' ∨ c = '1') |>.map (fun c => decide (c = '1'))
  match opsOf (get a "ops") with
  | none => "err value"
  | some ops =>
    let t0 := if has a "x" then CmdTab.tabOf a else Tab.ket0 (ne + np)
    if t0.n ≠ ne + np then "err assertion" else
    match stabRunFrom t0 np (detOf (get a "det")) script ops with
    | none => "err assertion"
    | some s =>
      s!"ok {CmdTab.showTab s.t} rec={bitsStr (finalRecord nc s.writes)} outs={bitsStr s.outs} rand={bitsStr s.rand} left={s.script.length} valid={b01 s.t.isSymplectic}"

/-- circ.check ne= np= a=<np×np adjacency bits> ops=…  [max=<cap on the number of scripts; default all 2^m>]
    runs the verified validator; `all=1` iff every script of the full enumeration was run -/
def check (a : Args) : String :=
  let ne := getNat a "ne"
  let np := getNat a "np"
  match opsOf (get a "ops") with
  | none => "err value"
  | some ops =>
    let rows := rowsOf np (get a "a")
    let adj : Nat → Nat → Bool := lookup2 rows
    let target := targetSTab np ne adj
    let m := countMeas ops
    let cap := if has a "max" then getNat a "max" else 0
    if cap = 0 ∨ 2 ^ m ≤ cap then
      s!"ok gen={b01 (checkGenerates ne np ops adj)} scripts={2 ^ m} all=1 m={m}"
    else
      -- sampled: all-zero, all-one and `cap` pseudo-random scripts (testing only; the soundness theorem does not apply)
      let lcg (x : Nat) : Nat := (x * 1103515245 + 12345) % 2147483648
      let scripts : List (List Bool) :=
        (List.replicate m false) :: (List.replicate m true) ::
          (List.range cap).map fun k =>
            ((List.range m).foldl (fun (acc : List Bool × Nat) _ => let x := lcg acc.2; (((x / 65536) % 2 == 1) :: acc.1, x)) ([], k + 17)).1
      s!"ok gen={b01 (scripts.all (checkScript ne np ops target))} scripts={scripts.length} all=0 m={m}"

def dispatch (cmd : String) (a : Args) : Option String :=
  match cmd with
  | "circ.stab" => some (stab a)
  | "circ.check" => some (check a)
  | _ => none

end Graphiq.CmdCirc
