/-
  CmdConv.lean — driver commands for the stabilizer → graph conversions (C08) and the alternate-target result list (C10).
-/
import GraphiqModel.Model.StateToGraph
import Driver.Proto
import Driver.CmdStab
namespace Graphiq.CmdConv
open Graphiq Graphiq.Proto Graphiq.S2G

/-- `state_to_graph(tableau)` → graph, gate list -/
def toGraph (a : Args) : String :=
  let t := CmdStab.stabOf a
  match graphFinder (XZ.ofSTab t) with
  | .error e => s!"err {e} stage=graph_finder"
  | .ok g =>
    match stateToGraph t with
    | .error e => s!"err {e} stage=phase_correction"
    | .ok (adj, gates) =>
      s!"ok a={adj.bits} gates={CmdStab.showCirc gates} h={showNats "," g.hpos} pd={showNats "," g.zdiag}"

/-- `stabilizer_to_graph(tableau, validate=True)` → graph -/
def stabToGraph (a : Args) : String :=
  match stabilizerToGraph (CmdStab.stabOf a) with
  | .error e => s!"err {e}"
  | .ok adj => s!"ok a={adj.bits}"

def dispatch (cmd : String) (a : Args) : Option String :=
  match cmd with
  | "stab.tograph" => some (toGraph a)
  | "stab.s2g" => some (stabToGraph a)
  | _ => none

end Graphiq.CmdConv
