/-
  CmdConv.lean — driver commands for the stabilizer → graph conversions (C08) and the alternate-target result list (C10).
-/
import GraphiqModel.Model.StateToGraph
import GraphiqModel.Model.AltTarget
import Driver.Proto
import Driver.CmdStab
namespace Graphiq.CmdConv
open Graphiq Graphiq.Proto Graphiq.S2G

/-- `state_to_graph(tableau)` → graph, gate list -/
def toGraph (a : Args) : String :=
  let t := CmdStab.stabOf a
  match graphFinder (XZ.ofSTab t) with
  | .error e => s!"err {e} stage=graph_finder"
  | .ok g =>
    match stateToGraph t with
    | .error e => s!"err {e} stage=phase_correction"
    | .ok (adj, gates) =>
      s!"ok a={adj.bits} gates={CmdStab.showCirc gates} h={showNats "," g.hpos} pd={showNats "," g.zdiag}"

/-- `stabilizer_to_graph(tableau, validate=True)` → graph -/
def stabToGraph (a : Args) : String :=
  match stabilizerToGraph (CmdStab.stabOf a) with
  | .error e => s!"err {e}"
  | .ok adj => s!"ok a={adj.bits}"

/-- stab.edges n= a=<bits>: the edge list `_graph_to_density_pure` applies its CZ gates along (`list(graph.edges)`) -/
def edges (a : Args) : String :=
  let n := getNat a "n"
  let A := (BMat.ofRows n n (rowsOf n (get a "a"))).f
  let es := edgesOf n A
  s!"ok edges={if es.isEmpty then "-" else String.intercalate "," (es.map fun e => s!"{e.1}.{e.2}")}"

/-! ### C10: result assembly of the alternate-target solver -/

/-- `h:p,h:p,…` — for the class whose first (smallest) member is `h`, the member `list(s)[0]` the Python set yields first -/
def pickOf (s : String) : List Nat → Nat :=
  let tbl : List (Nat × Nat) := (listOf s).map fun tok =>
    match splitChar ':' tok with
    | [h, p] => (h.toNat?.getD 0, p.toNat?.getD 0)
    | _ => (0, 0)
  fun cls => (tbl.lookup (cls.headD 0)).getD (cls.headD 0)

def showSets (sl : List (List Nat)) : String :=
  if sl.isEmpty then "-" else String.intercalate "|" (sl.map fun s => showNats "." s)

/-- alt.dedup keys=<k0,k1,…> pick=<h:p,…>: `set_list`, the sorted redundant indices and the indices that survive -/
def altDedup (a : Args) : String :=
  let keys := listOf (get a "keys")
  let pick := pickOf (get a "pick")
  let kept := Alt.dedup pick keys (List.range keys.length)
  s!"ok sets={showSets (Alt.setList keys)} red={showNats "," (Alt.redundantIndices pick keys)} kept={showNats "," kept}"

def bmatOf (n : Nat) (s : String) : BMat := BMat.ofRows n n (rowsOf n s)

/-- alt.relabel n= a=<bits> p=<labels> [q=<labels>]: the target renamed by `p` (then by `q`), and whether `p` is an isomorphism onto it -/
def altRelabel (a : Args) : String :=
  let n := getNat a "n"
  let A := (bmatOf n (get a "a")).f
  let p := natsOf ',' (get a "p")
  let B := (BMat.ofAdj n (Alt.relabelAdj n A p)).norm
  let iso := isIsoMap n A B.f p
  if has a "q" then
    let q := natsOf ',' (get a "q")
    let C := (BMat.ofAdj n (Alt.relabelAdj n B.f q)).norm
    let D := (BMat.ofAdj n (Alt.relabelAdj n A (Alt.compLabels n p q))).norm
    s!"ok a={B.bits} iso={b01 iso} then={C.bits} comp={D.bits} labels={showNats "," (Alt.compLabels n p q)}"
  else s!"ok a={B.bits} iso={b01 iso}"

/-- alt.solve n= isos=<bits;bits;…> lcs=<bits,bits;bits,…> maps=<l.l.l;…> pick=<h:p,…> [fail=<i.k>]:
    the outer loops with table-driven parts: the solver returns a circuit tagged by the pair (isomorph, LC graph), the conversion
    always succeeds unless the pair is listed in `fail`.  Reports the entries before and after the duplicate removal. -/
def altSolve (a : Args) : String :=
  let n := getNat a "n"
  let isoStrs := splitChar ';' (get a "isos")
  let isos := isoStrs.map (bmatOf n)
  let lcStrs : List (List String) := (splitChar ';' (get a "lcs")).map fun s => listOf s
  let mapStrs := splitChar ';' (get a "maps")
  let idxOf (b : BMat) : Nat := (isoStrs.findIdx? (· == b.bits)).getD 0
  let P : Alt.Parts :=
    { isoAdjs := isos
      lcGraphs := fun iso => ((lcStrs.getD (idxOf iso) []).map (bmatOf n))
      relabelMap := fun iso => natsOf '.' (mapStrs.getD (idxOf iso) "")
      solver := fun _ => some (1, [])
      conv := fun lc iso => if (get a "fail") == lc.bits ++ ">" ++ iso.bits then none else some [] }
  let showE (es : List Alt.Entry) : String :=
    if es.isEmpty then "-" else String.intercalate "," (es.map fun e => s!"{e.src.1}.{e.src.2}")
  match Alt.allEntries P with
  | .error e => s!"err {e}"
  | .ok es =>
    match Alt.solve P (pickOf (get a "pick")) with
    | .error e => s!"err {e}"
    | .ok out => s!"ok pre={showE es} out={showE out} maps={String.intercalate ";" (out.map fun e => showNats "." e.map)}"

def dispatch (cmd : String) (a : Args) : Option String :=
  match cmd with
  | "stab.tograph" => some (toGraph a)
  | "stab.s2g" => some (stabToGraph a)
  | "stab.edges" => some (edges a)
  | "alt.dedup" => some (altDedup a)
  | "alt.relabel" => some (altRelabel a)
  | "alt.solve" => some (altSolve a)
  | _ => none

end Graphiq.CmdConv
