/-
  CmdStab.lean — driver commands for the stabilizer-tableau model (C03, C05, C11; used by C02, C08).
-/
import GraphiqModel.Model.StabTableau
import GraphiqModel.Model.Convert
import GraphiqModel.Model.CanonCheck
import GraphiqModel.Model.Echelon
import GraphiqModel.Model.OverlapSpec
import Driver.Proto
import Driver.CmdTab
namespace Graphiq.CmdStab
open Graphiq Graphiq.Proto

def stabOf (a : Args) (pfx : String := "") : STab :=
  let n := getNat a (pfx ++ "n")
  let xs := rowsOf n (get a (pfx ++ "x"))
  let zs := rowsOf n (get a (pfx ++ "z"))
  let r := bitsArr (get a (pfx ++ "r"))
  STab.ofRows n (Array.ofFn (n := n) fun i =>
    PRow.ofArrays (xs.getD i.val #[]) (zs.getD i.val #[]) (r.getD i.val false) false)

def showStab (t : STab) : String :=
  s!"n={t.n} x={bits2ToString t.n t.n fun i j => (t.row i).x j} z={bits2ToString t.n t.n fun i j => (t.row i).z j} r={bitsToString t.n fun i => (t.row i).r}"

def showCirc (c : List Gate) : String :=
  if c.isEmpty then "-" else String.intercalate "," (c.map Gate.toString)

def parseGate (s : String) : Option Gate :=
  let parts := splitChar ':' s
  let arg (k : Nat) : Nat := ((parts.getD (k+1) "").toNat?).getD 0
  match parts.headD "" with
  | "H" => some (.H (arg 0)) | "P" => some (.P (arg 0)) | "P_dag" => some (.Pdag (arg 0))
  | "X" => some (.X (arg 0)) | "Y" => some (.Y (arg 0)) | "Z" => some (.Z (arg 0)) | "I" => some (.I (arg 0))
  | "CNOT" => some (.CNOT (arg 0) (arg 1)) | "CZ" => some (.CZ (arg 0) (arg 1))
  | _ => none

def circOf (s : String) : Option (List Gate) := (listOf s).mapM parseGate

def rref (a : Args) : String :=
  match (stabOf a).rref with
  | .error e => s!"err {e}"
  | .ok (t, brs) => s!"ok {showStab t} br={if brs.isEmpty then "-" else String.intercalate "," brs}"

def canon (a : Args) : String :=
  match (stabOf a).canonicalForm with
  | .error e => s!"err {e}"
  | .ok t => s!"ok {showStab t}"

/-- stab.iscanon n= x= z= r=: the verified shape checker (`isCanon_sound`) on a tableau, e.g. one the real
    `canonical_form` returned -/
def iscanon (a : Args) : String := s!"ok canon={b01 (stabOf a).isCanon}"

def inv (a : Args) : String :=
  match (stabOf a).inverseCircuit with
  | .error e => s!"err {e}"
  | .ok (t, c) => s!"ok {showStab t} circ={showCirc c} zero={b01 t.isZero} len={c.length}"

def height (a : Args) : String :=
  match (stabOf a).heightFuncList with
  | .error e => s!"err {e}"
  | .ok l => s!"ok h={showInts "," l} max={l.foldl max 0}"

def ip (a : Args) : String :=
  match STab.innerProduct (CmdTab.tabOf a "a") (CmdTab.tabOf a "b") with
  | .error e => s!"err {e}"
  | .ok none => "ok zero"
  | .ok (some k) => s!"ok k={k}"

def cliff (a : Args) : String :=
  match (stabOf a).cliffordFromStabilizer with
  | .error e => s!"err {e}"
  | .ok t => s!"ok {CmdTab.showTab t.norm} valid={b01 t.isSymplectic}"

/-- run a circuit list on a stabilizer tableau (forward), out-of-range gates are an assertion error -/
def run (a : Args) : String :=
  let t := stabOf a
  match circOf (get a "circ") with
  | none => "err value"
  | some c =>
    if c.all (Gate.inBounds t.n) then s!"ok {showStab (t.runCircuit c)}" else "err assertion"

/-- run a circuit list on a Clifford tableau, optionally reversed -/
def runTab (a : Args) : String :=
  let t := CmdTab.tabOf a
  match circOf (get a "circ") with
  | none => "err value"
  | some c =>
    if c.all (Gate.inBounds t.n) then
      let t' := t.runCircuit c (get a "rev" = "1")
      s!"ok {CmdTab.showTab t'} valid={b01 t'.isSymplectic}"
    else "err assertion"

def insert (a : Args) : String :=
  let t := stabOf a
  let p := getNat a "p"
  if p ≤ t.n then s!"ok {showStab (t.insertQubit p).norm}" else "err assertion"

/-- stab.conv n= x= z= r= gates=<circuit list> a=<n×n adjacency>: the verified validator for `state_to_graph` outputs;
    also reports whether two tableaux generate the same signed group (`stab.same an= … bn= …`) -/
def conv (a : Args) : String :=
  let t := stabOf a
  match circOf (get a "gates") with
  | none => "err value"
  | some c =>
    let rows := rowsOf t.n (get a "a")
    s!"ok conv={b01 (checkConversion t c (lookup2 rows))}"

def same (a : Args) : String :=
  s!"ok same={b01 ((stabOf a "a").sameGroup (stabOf a "b"))}"

/-- stab.echelon n= x= z= r=: the executable echelon-form predicate (post-condition proved of the model's `rref`, C03) -/
def echelon (a : Args) : String := s!"ok ech={b01 (stabOf a).echelonB}"
/-- stab.overlap an= ax= az= ar= bn= bx= bz= br=: the brute-force executable specification of the group-level overlap
    (`orthB ↔ Orth` and the membership test of `commonCount` are proved exact, Proofs/InnerProductExec.lean); n ≤ 4 only -/
def overlap (a : Args) : String :=
  let ta := (stabOf a "a").norm
  let tb := (stabOf a "b").norm
  if ta.n ≠ tb.n ∨ ta.n > 4 then "err value"
  else s!"ok orth={b01 (ta.orthB tb)} common={ta.commonCount tb}"

def dispatch (cmd : String) (a : Args) : Option String :=
  match cmd with
  | "stab.rref" => some (rref a)
  | "stab.echelon" => some (echelon a)
  | "stab.canon" => some (canon a)
  | "stab.iscanon" => some (iscanon a)
  | "stab.inv" => some (inv a)
  | "stab.height" => some (height a)
  | "stab.ip" => some (ip a)
  | "stab.cliff" => some (cliff a)
  | "stab.run" => some (run a)
  | "stab.runtab" => some (runTab a)
  | "stab.insert" => some (insert a)
  | "stab.conv" => some (conv a)
  | "stab.same" => some (same a)
  | "stab.overlap" => some (overlap a)
  | _ => none

end Graphiq.CmdStab
