/-
  CmdGraph.lean — driver commands for the graph / LC-equivalence model (C09, C16).

  graphs:  n=<n> a=<row-major 0/1 string>          vertex lists: `2,0,2`   lists of lists: `0.1.2;2.1.0`
-/
import GraphiqModel.Model.GraphOps
import GraphiqModel.Model.LC
import Driver.Proto
import Driver.CmdStab
namespace Graphiq.CmdGraph
open Graphiq Graphiq.Proto Graphiq.LC

def graphOf (a : Args) (key : String := "a") : BMat :=
  let n := getNat a "n"
  BMat.ofRows n n (rowsOf n (get a key))

/-- `0.1.2;2.1.0` → [[0,1,2],[2,1,0]]  ("-" = no list, "e" = an empty inner list) -/
def listsOf (s : String) : List (List Nat) :=
  if s = "" ∨ s = "-" then [] else (splitChar ';' s).map fun t => if t = "e" then [] else natsOf '.' t

def showLists (l : List (List Nat)) : String :=
  if l.isEmpty then "-" else String.intercalate ";" (l.map fun p => if p.isEmpty then "e" else showNats "." p)

def showGraphs (l : List BMat) : String :=
  if l.isEmpty then "-" else String.intercalate ";" (l.map BMat.bits)

def boolsOf (s : String) : List Bool := s.toList.map fun c => decide (c = '1')
def showBools (l : List Bool) : String := String.ofList (l.map fun b => if b then '1' else '0')

def errStr (e : Err) : String := s!"err {e}"

/-! ### local complementation -/

def cmdLc (a : Args) : String :=
  let g := graphOf a
  let v := getNat a "v"
  match get a "impl" with
  | "matrix" => match localCompGraph? g v with | .ok h => s!"ok a={h.bits}" | .error e => errStr e
  | "pairs" => match localCompPairs? g v with | .ok h => s!"ok a={h.bits}" | .error e => errStr e
  | _ => s!"ok a={(BMat.ofAdj g.r (localComp g.f v)).norm.bits}"

def cmdSeq (a : Args) : String :=
  let g := graphOf a
  let vs := natsOf ',' (get a "seq")
  if vs.any (fun v => decide (g.r ≤ v)) then "err index" else s!"ok a={(applySeqM g vs).bits}"

/-- edge-mask numbering of the graphs on `n` vertices: bit `k` ↔ the `k`-th pair `(i, j)`, `i < j`, in lexicographic order -/
def pairIndex (n i j : Nat) : Nat :=
  -- pairs before row i: sum_{t<i} (n-1-t); then j-i-1
  (List.range i).foldl (fun acc t => acc + (n - 1 - t)) 0 + (j - i - 1)

def maskOf (g : BMat) : Nat :=
  (List.range g.r).foldl (fun acc i => (List.range g.r).foldl (fun acc2 j =>
    if i < j ∧ g.f i j then acc2 + 2 ^ pairIndex g.r i j else acc2) acc) 0

def graphOfMask (n mask : Nat) : BMat :=
  (BMat.ofAdj n fun i j =>
    if i = j then false else
      let lo := min i j
      let hi := max i j
      (mask >>> pairIndex n lo hi) % 2 = 1).norm

/-- all masks reachable from `mask` by local complementations (BFS over the verified `localComp`) -/
partial def orbitOf (n : Nat) (mask : Nat) : List Nat :=
  let rec go (frontier : List Nat) (seen : List Nat) : List Nat :=
    match frontier with
    | [] => seen
    | _ =>
      let (nxt, seen') := frontier.foldl (fun (st : List Nat × List Nat) m =>
        let g := graphOfMask n m
        (List.range n).foldl (fun (st2 : List Nat × List Nat) v =>
          let h := maskOf (BMat.ofAdj n (localComp g.f v)).norm
          if st2.2.contains h then st2 else (h :: st2.1, h :: st2.2)) st) ([], seen)
      go nxt seen'
  go [mask] [mask]

def cmdOrbit (a : Args) : String :=
  let g := graphOf a
  let orb := orbitOf g.r (maskOf g)
  s!"ok size={orb.length} masks={showNats "," orb}"

/-- orbit representative (smallest mask) of every graph on `n` vertices, indexed by mask -/
partial def cmdOrbits (a : Args) : String :=
  let n := getNat a "n"
  let total := 2 ^ (n * (n - 1) / 2)
  let rec go (m : Nat) (rep : Array Nat) : Array Nat :=
    if m ≥ total then rep
    else if rep.getD m total ≠ total then go (m + 1) rep
    else
      let orb := orbitOf n m
      let r := orb.foldl min m
      go (m + 1) (orb.foldl (fun acc x => acc.setIfInBounds x r) rep)
  let rep := go 0 (Array.replicate total total)
  s!"ok n={n} reps={showNats "," rep.toList}"

/-! ### relabelling -/

def cmdRelabel (a : Args) : String :=
  let g := graphOf a
  match relabel? g (natsOf ',' (get a "p")) with
  | .ok m => s!"ok m={showInts "," m}"
  | .error e => errStr e

def cmdIso (a : Args) : String :=
  let g := graphOf a
  let h := graphOf a "b"
  match bruteIso g.r g.f h.f with
  | some m => s!"ok iso=1 map={showNats "," m}"
  | none => "ok iso=0"

def cmdIsoMap (a : Args) : String :=
  let g := graphOf a
  let h := graphOf a "b"
  s!"ok valid={b01 (isIsoMap g.r g.f h.f (natsOf ',' (get a "map")))}"

def cmdAutomorph (a : Args) : String :=
  let g := graphOf a
  match automorphCheck g (listsOf (get a "labels")) with
  | .ok l => s!"ok count={l.length} adjs={String.intercalate ";" (l.map fun m => showBools (m.map fun v => decide (v ≠ 0)))}"
  | .error e => errStr e

def floatOfRatio (s : String) : Float :=
  match splitChar '/' s with
  | [p, q] => (p.toNat?.getD 0).toFloat / (q.toNat?.getD 1).toFloat
  | _ => 0.0

def cmdIsoFinder (a : Args) : String :=
  let g := graphOf a
  let cfg : IsoCfg :=
    { nIso := getNat a "niso", relIncThresh := floatOfRatio (get a "rit"), allowExhaustive := get a "exh" = "1",
      sortEmit := get a "sort" = "1", labelMap := get a "map" = "1",
      thresh := if has a "thresh" ∧ get a "thresh" ≠ "-" then some (getNat a "thresh") else none }
  let draws : List (List (List Nat)) :=
    if get a "draws" = "" ∨ get a "draws" = "-" then [] else (splitChar '|' (get a "draws")).map listsOf
  match isoFinder cfg g draws with
  | .error e => errStr e
  | .ok r =>
    s!"ok nout={r.nOut} path={r.path} sorted={b01 r.sorted} withmap={b01 r.withMap} rounds={r.rounds} consumed={showNats "," r.consumed} full={String.intercalate ";" (r.full.map fun m => showBools (m.map fun v => decide (v ≠ 0)))}"

/-! ### orbit explorers -/

def isoOracle (g h : BMat) : Bool := (bruteIso g.r g.f h.f).isSome

def optNat (a : Args) (k : String) : Option Nat := if has a k ∧ get a k ≠ "-" ∧ get a k ≠ "" then some (getNat a k) else none

def cmdOrbLc (a : Args) : String :=
  let g := graphOf a
  let cfg : OrbCfg :=
    { compDepth := optNat a "depth", sizeThresh := optNat a "thresh", withIso := get a "iso" = "1",
      rand := get a "rand" = "1", repAllowed := get a "rep" = "1" }
  match lcOrbitFinder cfg isoOracle (getNat a "fuel") g (natsOf ',' (get a "draws")) (listsOf (get a "shuffles")) with
  | .ok l => s!"ok count={l.length} graphs={showGraphs l}"
  | .error e => errStr e

def cmdOrbRgs (a : Args) : String :=
  match rgsOrbitFinder (graphOf a) with
  | .ok l => s!"ok count={l.length} graphs={showGraphs l}"
  | .error e => errStr e

def cmdOrbLinear (a : Args) : String :=
  match linearPartialOrbit (graphOf a) with
  | .ok l => s!"ok count={l.length} graphs={showGraphs l}"
  | .error e => errStr e

def cmdPartialSeq (a : Args) : String :=
  s!"ok seq={showNats "," (partialOrbitSeq (getNat a "n"))}"

def cmdOrbDfs (a : Args) : String :=
  match depthFirstOrbit isoOracle (getNat a "fuel") (graphOf a) with
  | .ok (ps, l) => s!"ok count={l.length} paths={showLists ps} graphs={showGraphs l}"
  | .error e => errStr e

def metricOf (name : String) (g : BMat) : Float :=
  match name with
  | "edges" => (edgeCount g.r g.f).toFloat
  | "neg-edges" => 0.0 - (edgeCount g.r g.f).toFloat
  | _ => (maxDegree g.r g.f).toFloat

def cmdWalk (a : Args) : String :=
  let g := graphOf a
  let score := if get a "kind" = "nbedge" then neighborEdgeScore else degreeScore
  match lcWalk score (metricOf (get a "metric")) g (getNat a "limit") (getNat a "trials") with
  | .ok l => s!"ok count={l.length} graphs={showGraphs (l.map fun c => c.2)}"
  | .error e => errStr e

/-! ### LC equivalence -/

def modeOf (s : String) : Mode := if s = "det" then .det else if s = "rand" then .rand else .other

def drawsOf (s : String) : List Bool := if s = "" ∨ s = "-" then [] else boolsOf s

/-- `0101/11` → one list of draws per call of `_random_checker` (repaired `is_lc_equivalent`); an empty list is written `-` -/
def drawListsOf (s : String) : List (List Bool) :=
  if s = "" ∨ s = "-" then [] else (splitChar '/' s).map drawsOf

def showPart (o : EqOut) : String := s!"{o.rank}:{o.dim}:{o.path}:{o.trials}"

/-- `repaired=1`: the model of the repaired `is_lc_equivalent` (component by component); `dim` is then the largest
    dimension of a solution space among the examined components and `trials` / `draws` are summed over them -/
def cmdEquivR (a : Args) : String :=
  let g := graphOf a
  let h := graphOf a "b"
  match isLcEquivalentR g h (modeOf (get a "mode")) (drawListsOf (get a "draws")) with
  | .error e => errStr e
  | .ok o =>
    let dim := o.parts.foldl (fun acc p => max acc p.dim) 0
    let trials := o.parts.foldl (fun acc p => acc + p.trials) 0
    let used := o.parts.foldl (fun acc p => if p.path = "random" then acc + p.trials * p.dim else acc) 0
    let tail := s!"dim={dim} path={o.path} trials={trials} used={used} comps={showLists o.comps} parts={if o.parts.isEmpty then "-" else String.intercalate "|" (o.parts.map showPart)}"
    match o.sol with
    | some s => s!"ok yes q={showBools s} {tail}"
    | none => s!"ok no {tail}"

def cmdEquiv (a : Args) : String :=
  if get a "repaired" = "1" then cmdEquivR a else
  let g := graphOf a
  let h := graphOf a "b"
  match isLcEquivalent g h (modeOf (get a "mode")) (drawsOf (get a "draws")) with
  | .error e => errStr e
  | .ok o =>
    match o.sol with
    | some s => s!"ok yes q={showBools s} rank={o.rank} dim={o.dim} path={o.path} trials={o.trials}"
    | none => s!"ok no rank={o.rank} dim={o.dim} path={o.path} trials={o.trials}"

/-- `_connected_components(adj)` -/
def cmdComponents (a : Args) : String :=
  let g := graphOf a
  s!"ok comps={showLists (connectedComponents g.r g.f)}"

/-- intermediate quantities of `is_lc_equivalent` for the function-by-function correspondence -/
def cmdSystem (a : Args) : String :=
  let g := graphOf a
  let h := graphOf a "b"
  let n := g.r
  let coeff := (coeffMaker n g.f h.f).norm
  let (red, _, last) := rowReduction coeff { coeff with f := fun _ _ => false }
  let keep := nonzeroRows red
  let m := (selectRows red keep).norm
  let cols := colFinder m
  let basis := match solutionBasisFinder m cols with
    | .ok b => String.intercalate ";" (b.map showBools)
    | .error e => s!"err:{e}"
  s!"ok coeff={coeff.bits} red={red.bits} last={last} cols={showNats "," cols} basis={if basis = "" then "-" else basis}"

def cmdOps (a : Args) : String :=
  let v := boolsOf (get a "q")
  let names := localCliffordOps (v.length / 4) v
  s!"ok ops={if names.isEmpty then "-" else String.intercalate "," (names.map fun l => String.intercalate "." l)}"

def cmdValid (a : Args) : String :=
  let v := boolsOf (get a "q")
  s!"ok valid={b01 (isValidClifford (v.length / 4) v)}"

def cmdSolves (a : Args) : String :=
  let g := graphOf a
  let h := graphOf a "b"
  let v := boolsOf (get a "q")
  s!"ok solves={b01 (solves (coeffMaker g.r g.f h.f).norm v)} valid={b01 (isValidClifford g.r v)}"

def cmdLcSeq (a : Args) : String :=
  let g := graphOf a
  match lcGraphOperations (getNat a "fuel") g.r g.f (boolsOf (get a "q")) with
  | .ok l => s!"ok seq={showNats "," l}"
  | .error e => errStr e

def cmdFind (a : Args) : String :=
  let g := graphOf a
  let h := graphOf a "b"
  let r := if get a "repaired" = "1" then findLcOperationsR (getNat a "fuel") g h (modeOf (get a "mode")) (drawListsOf (get a "draws"))
    else findLcOperations (getNat a "fuel") g h (modeOf (get a "mode")) (drawsOf (get a "draws")) (get a "legacy" = "1")
  match r with
  | .ok l => s!"ok seq={showNats "," l}"
  | .error e => errStr e

def gatesOf (s : String) : List (String × Nat) :=
  (listOf s).map fun t =>
    match splitChar ':' t with
    | [nm, q] => (nm, q.toNat?.getD 0)
    | _ => (t, 0)

def showGates (l : List (String × Nat)) : String :=
  if l.isEmpty then "-" else String.intercalate "," (l.map fun g => s!"{g.1}:{g.2}")

def cmdCheck (a : Args) : String :=
  let g := graphOf a
  let h := graphOf a "b"
  match (if get a "repaired" = "1" then lcCheckR g h (get a "validate" ≠ "0") else lcCheck g h (get a "validate" ≠ "0")) with
  | .ok (yes, gates) => s!"ok yes={b01 yes} gates={showGates gates}"
  | .error e => errStr e

def cmdConverter (a : Args) : String :=
  let g := graphOf a
  let h := graphOf a "b"
  match (if get a "repaired" = "1" then converterGateListR g h else converterGateList g h) with
  | .ok (gates, ok) => s!"ok gates={showGates gates} phaseok={b01 ok}"
  | .error e => errStr e

/-- apply a gate list to the graph state of `a` with the verified tableau semantics and compare with the graph state of `b` -/
def cmdApply (a : Args) : String :=
  let g := graphOf a
  let h := graphOf a "b"
  match runGates (graphTab g.r g.f) (gatesOf (get a "gates")) with
  | .ok t => s!"ok same={b01 (isGraphState t h.f)} valid={b01 t.isSymplectic}"
  | .error e => errStr e

/-- `lc_check(state1, state2, validate)` on two stabilizer tableaux (`a…`, `b…`), repaired `is_lc_equivalent` -/
def cmdCheckStates (a : Args) : String :=
  match lcCheckStates (CmdStab.stabOf a "a") (CmdStab.stabOf a "b") (get a "validate" ≠ "0") with
  | .ok (yes, gates) => s!"ok yes={b01 yes} gates={CmdStab.showCirc gates}"
  | .error e => errStr e

/-- `lc_check(state1, graph2, validate)`: a stabilizer tableau (`a…`) and a graph (`n`, `b`) -/
def cmdCheckStateGraph (a : Args) : String :=
  match lcCheckStateGraph (CmdStab.stabOf a "a") (graphOf a "b") (get a "validate" ≠ "0") with
  | .ok (yes, gates) => s!"ok yes={b01 yes} gates={CmdStab.showCirc gates}"
  | .error e => errStr e

def dispatch (cmd : String) (a : Args) : Option String :=
  match cmd with
  | "graph.lc" => some (cmdLc a)
  | "graph.seq" => some (cmdSeq a)
  | "graph.orbit" => some (cmdOrbit a)
  | "graph.orbits" => some (cmdOrbits a)
  | "graph.relabel" => some (cmdRelabel a)
  | "graph.iso" => some (cmdIso a)
  | "graph.isomap" => some (cmdIsoMap a)
  | "graph.automorph" => some (cmdAutomorph a)
  | "graph.isofinder" => some (cmdIsoFinder a)
  | "orb.lc" => some (cmdOrbLc a)
  | "orb.rgs" => some (cmdOrbRgs a)
  | "orb.linear" => some (cmdOrbLinear a)
  | "orb.partialseq" => some (cmdPartialSeq a)
  | "orb.dfs" => some (cmdOrbDfs a)
  | "orb.walk" => some (cmdWalk a)
  | "lc.equiv" => some (cmdEquiv a)
  | "lc.components" => some (cmdComponents a)
  | "lc.system" => some (cmdSystem a)
  | "lc.ops" => some (cmdOps a)
  | "lc.valid" => some (cmdValid a)
  | "lc.solves" => some (cmdSolves a)
  | "lc.seq" => some (cmdLcSeq a)
  | "lc.find" => some (cmdFind a)
  | "lc.check" => some (cmdCheck a)
  | "lc.converter" => some (cmdConverter a)
  | "lc.checkstates" => some (cmdCheckStates a)
  | "lc.checkstategraph" => some (cmdCheckStateGraph a)
  | "lc.apply" => some (cmdApply a)
  | _ => none

end Graphiq.CmdGraph
