/-
  Proto.lean — line-protocol helpers for the model driver.
  request:  `<cmd> key=value key=value …`      reply: `ok key=value …`  |  `err <kind>`
-/
import GraphiqModel.Model.Bits
namespace Graphiq.Proto

abbrev Args := List (String × String)

def splitChar (c : Char) (s : String) : List String :=
  let rec go (cs : List Char) (cur : List Char) (acc : List String) : List String :=
    match cs with
    | [] => (String.ofList cur.reverse :: acc).reverse
    | d :: rest => if d = c then go rest [] (String.ofList cur.reverse :: acc) else go rest (d :: cur) acc
  go s.toList [] []

def stripNl (s : String) : String :=
  String.ofList (s.toList.filter fun c => c ≠ '\n' ∧ c ≠ '\r')

def parseLine (line : String) : String × Args :=
  match (splitChar ' ' (stripNl line)).filter (· ≠ "") with
  | [] => ("", [])
  | cmd :: rest =>
    (cmd, rest.map fun tok =>
      match splitChar '=' tok with
      | [k] => (k, "")
      | k :: vs => (k, String.intercalate "=" vs)
      | [] => ("", ""))

def get (a : Args) (k : String) : String := (a.lookup k).getD ""
def has (a : Args) (k : String) : Bool := (a.lookup k).isSome
def getNat (a : Args) (k : String) : Nat := ((a.lookup k).bind String.toNat?).getD 0
def getInt (a : Args) (k : String) : Int := ((a.lookup k).bind String.toInt?).getD 0

/-- a `0/1` string as an array of bits -/
def bitsArr (s : String) : Array Bool := (s.toList.map (fun c => decide (c = '1'))).toArray

/-- rows of a row-major `0/1` matrix string with `cols` columns -/
def rowsOf (cols : Nat) (s : String) : Array (Array Bool) :=
  let a := bitsArr s
  let rows := if cols = 0 then 0 else a.size / cols
  Array.ofFn (n := rows) fun i => Array.ofFn (n := cols) fun j => a.getD (i.val * cols + j.val) false

/-- `a,b,c` → list of strings ("-" or "" = empty list) -/
def listOf (s : String) : List String :=
  if s = "" ∨ s = "-" then [] else splitChar ',' s

def natsOf (sep : Char) (s : String) : List Nat :=
  if s = "" ∨ s = "-" then [] else (splitChar sep s).map fun t => t.toNat?.getD 0

def intsOf (sep : Char) (s : String) : List Int :=
  if s = "" ∨ s = "-" then [] else (splitChar sep s).map fun t => t.toInt?.getD 0

def showNats (sep : String) (l : List Nat) : String :=
  if l.isEmpty then "-" else String.intercalate sep (l.map toString)

def showInts (sep : String) (l : List Int) : String :=
  if l.isEmpty then "-" else String.intercalate sep (l.map toString)

def b01 (b : Bool) : String := if b then "1" else "0"

end Graphiq.Proto
