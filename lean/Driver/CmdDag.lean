/-
  CmdDag.lean — driver commands of the circuit-DAG / metrics group (C12, C18).

  dag.run ne=1 np=1 nc=1 edits=<edit>,<edit>,…  [qs=<q>,<q>,…]  [full=<k>]
      edits:  A/<op>             add(op)
              I/<op>/<edge>+<edge>   insert_at(op, [edges])        (`*` = empty edge list)
              R/<node>           remove_op(node)
              P/<node>/<op>      replace_op(node, op)
              U | D | G          unwrap_nodes() | remove_identity() | group_one_qubit_gates()
              E/<t>[/<size>]     add_emitter/photonic/classical_register(size)
              C                  continue on `circuit.copy()`
      op:     <ClassName>:<qregs .-separated>:<cregs>:<labels>:<wrapped classes>      (`*` = empty)
      node:   e0_in | p2_out | 17          edge:  <node>><node>><key>
      qs (aligned with edits, `*` = nothing):  +-joined from  d (depth) r (register_depth) v (validate)
              h (reg_gate_history of every register) x/<edge> (find_incompatible_edges) l/<label.label> (get_node_by_labels)
              m (all metrics)  n (all metrics except the effective depth, whose `_max_depth` recursion can be exponential)
   -> ok errs=<-|class>,… hs=<fnv64 of the canonical state after each edit>,… q=<answers> + the full canonical state
      after edit `full` (default: the last): nodes= edges= nd= ed= regs= nid=
  dag.metrics ne= np= nc= ops=<op>,<op>,… [lite=1]   circuit built by `add`; model metrics and op-list specifications
      (lite: skip the two results that use the un-memoised `_max_depth` recursion)
-/
import Driver.Proto
import GraphiqModel.Model.Metrics
namespace Graphiq.CmdDag
open Graphiq Graphiq.Proto Graphiq.Dag

/-! ### tokens -/

def emp (s : String) : String := if s = "" then "*" else s

def parseRegType (c : Char) : Option RegType :=
  if c = 'e' then some .e else if c = 'p' then some .p else if c = 'c' then some .c else none

def parseReg (s : String) : Option Reg :=
  match s.toList with
  | c :: rest => do
    let t ← parseRegType c
    let i ← (String.ofList rest).toNat?
    pure ⟨t, i⟩
  | [] => none

def stripSuffix (s suf : String) : Option String :=
  if s.endsWith suf then some (String.ofList (s.toList.take (s.length - suf.length))) else none

def parseNode (s : String) : Option NodeId :=
  match stripSuffix s "_in" with
  | some r => (parseReg r).map NodeId.inp
  | none =>
    match stripSuffix s "_out" with
    | some r => (parseReg r).map NodeId.out
    | none => s.toNat?.map NodeId.op

def parseEdge (s : String) : Option Edge :=
  match splitChar '>' s with
  | [u, v, k] => do
    let u ← parseNode u
    let v ← parseNode v
    let k ← parseReg k
    pure ⟨u, v, k⟩
  | _ => none

def starList (sep : Char) (s : String) : List String :=
  if s = "*" ∨ s = "" then [] else splitChar sep s

def parseOp (s : String) : Option Op :=
  match splitChar ':' s with
  | [k, q, c, l, w] => do
    let k ← Kind.ofName k
    let q ← (starList '.' q).mapM parseReg
    let c ← (starList '.' c).mapM String.toNat?
    let w ← (starList '.' w).mapM Kind.ofName
    pure ⟨k, q, c, starList '.' l, w⟩
  | _ => none

def showOp (op : Op) : String :=
  op.kind.name ++ ":" ++ emp (String.intercalate "." (op.qregs.map Reg.str)) ++ ":" ++
    emp (String.intercalate "." (op.cregs.map toString)) ++ ":" ++ emp (String.intercalate "." op.labels) ++ ":" ++
    emp (String.intercalate "." (op.inner.map Kind.name))

inductive Edit where
  | add (op : Op) | ins (op : Op) (es : List Edge) | rm (n : NodeId) | rep (n : NodeId) (op : Op)
  | unwrap | rmid | group | reg (t : RegType) (size : Nat) | copy

def parseEdit (s : String) : Option Edit :=
  match splitChar '/' s with
  | ["A", op] => (parseOp op).map Edit.add
  | ["I", op, es] => do
    let op ← parseOp op
    let es ← (starList '+' es).mapM parseEdge
    pure (Edit.ins op es)
  | ["R", n] => (parseNode n).map Edit.rm
  | ["P", n, op] => do
    let n ← parseNode n
    let op ← parseOp op
    pure (Edit.rep n op)
  | ["U"] => some .unwrap
  | ["D"] => some .rmid
  | ["G"] => some .group
  | ["C"] => some .copy
  | ["E", t] => (t.toList.head?.bind parseRegType).map fun t => Edit.reg t 1
  | ["E", t, sz] => do
    let t ← t.toList.head?.bind parseRegType
    let sz ← sz.toNat?
    pure (Edit.reg t sz)
  | _ => none

def applyEdit (c : Dag) : Edit → Dag.Res
  | .add op => c.add op
  | .ins op es => c.insertAt op es
  | .rm n => c.removeOp n
  | .rep n op => c.replaceOp n op
  | .unwrap => c.unwrapNodes
  | .rmid => c.removeIdentity
  | .group => c.groupOneQubitGates
  | .reg t sz => c.addRegister t sz
  | .copy => (c, none)   -- `circuit = circuit.copy()` (deep copy): the pure model is its own copy

/-! ### canonical state -/

def sortStrs (l : List String) : List String := l.mergeSort (fun a b => a ≤ b)

def canonNodes (c : Dag) : String :=
  emp (String.intercalate ";" (sortStrs (c.nodes.map fun p => p.1.str ++ "~" ++ showOp p.2)))

def canonEdges (c : Dag) : String := emp (String.intercalate "," (sortStrs (c.edges.map Edge.str)))

def canonNodeDict (c : Dag) : String :=
  emp (String.intercalate ";" (sortStrs (c.nodeDict.map fun kv =>
    kv.1 ++ "~" ++ emp (String.intercalate "," (sortStrs (kv.2.map NodeId.str))))))

def canonEdgeDict (c : Dag) : String :=
  emp (String.intercalate ";" (sortStrs (c.edgeDict.map fun kv =>
    kv.1.str ++ "~" ++ emp (String.intercalate "," (sortStrs (kv.2.map Edge.str))))))

def canonRegs (c : Dag) : String := s!"{c.nE},{c.nP},{c.nC}"

def canonState (c : Dag) : String :=
  canonNodes c ++ "|" ++ canonEdges c ++ "|" ++ canonNodeDict c ++ "|" ++ canonEdgeDict c ++ "|" ++ canonRegs c ++ "|" ++
    toString c.nodeId

/-- FNV-1a, 64 bit, over the UTF-8 bytes -/
def fnv64 (s : String) : UInt64 :=
  s.toUTF8.foldl (fun h b => (h ^^^ b.toUInt64) * 1099511628211) 14695981039346656037

def fullState (c : Dag) : String :=
  s!"nodes={canonNodes c} edges={canonEdges c} nd={canonNodeDict c} ed={canonEdgeDict c} regs={canonRegs c} nid={c.nodeId}"

/-! ### queries -/

def showErr (e : DErr) : String := "!" ++ e.str

def showIntsDot (l : List Int) : String := emp (String.intercalate "." (l.map toString))

def exceptStr {α} (f : α → String) : Except DErr α → String
  | .ok a => f a
  | .error e => showErr e

def allRegs (c : Dag) : List Reg :=
  (List.range c.nE).map (Reg.mk .e) ++ (List.range c.nP).map (Reg.mk .p) ++ (List.range c.nC).map (Reg.mk .c)

def metricsStr (c : Dag) (withEff : Bool := true) : String :=
  s!"depth.{Metrics.circuitDepth c}/emit.{Metrics.emitterCount c}/cnot.{Metrics.cnotCount c}" ++
  s!"/unit.{exceptStr toString (Metrics.unitaryCount c)}/meas.{Metrics.measureCount c}" ++
  s!"/med.{exceptStr toString (Metrics.maxEmitDepth c)}/reset.{exceptStr toString (Metrics.maxEmitResetDepth c)}" ++
  (if withEff then s!"/eff.{exceptStr toString (Metrics.maxEmitEffDepth c)}" else "")

def answer (c : Dag) (q : String) : String :=
  match splitChar '/' q with
  | ["d"] => "d:" ++ (if c.isAcyclicB then toString c.depth else "cyc")
  | ["r"] => "r:" ++ exceptStr (fun (t : List Int × List Int × List Int) =>
      showIntsDot t.1 ++ "/" ++ showIntsDot t.2.1 ++ "/" ++ showIntsDot t.2.2) c.registerDepth
  | ["v"] => "v:" ++ (match c.validate with | none => "ok" | some e => e)
  | ["h"] => "h:" ++ emp (String.intercalate "/" ((allRegs c).map fun r =>
      r.str ++ "~" ++ exceptStr (fun l => String.intercalate "." (l.map NodeId.str)) (c.regGateHistory r)))
  | ["x", e] =>
    match parseEdge e with
    | none => "x:?"
    | some e => "x:" ++ exceptStr (fun l => emp (String.intercalate "." (sortStrs (l.map Edge.str)))) (c.findIncompatibleEdges e)
  | ["l", ls] => "l:" ++ emp (String.intercalate "." (sortStrs ((c.getNodeByLabels (starList '.' ls)).map NodeId.str)))
  | ["e", ls] => "e:" ++ emp (String.intercalate "." (sortStrs ((c.getNodeExcludeLabels (starList '.' ls)).map NodeId.str)))
  | ["m"] => "m:" ++ metricsStr c
  | ["n"] => "n:" ++ metricsStr c false
  | _ => "?"

def answers (c : Dag) (qs : String) : String :=
  if qs = "*" ∨ qs = "" then "*" else String.intercalate "+" ((splitChar '+' qs).map (answer c))

/-! ### commands -/

def runEdits (c0 : Dag) (edits : List String) (qs : List String) (full : Nat) : String :=
  let rec go (c : Dag) (k : Nat) (es qs : List String) (errs hs ans : List String) (keep : Dag) : String :=
    match es with
    | [] =>
      s!"ok h0={fnv64 (canonState c0)} errs={emp (String.intercalate "," errs.reverse)} hs={emp (String.intercalate "," hs.reverse)} " ++
      s!"q={emp (String.intercalate "," ans.reverse)} {fullState keep}"
    | e :: rest =>
      match parseEdit e with
      | none => s!"err parse edit={k}"
      | some ed =>
        let (c1, err) := applyEdit c ed
        let q := qs.headD "*"
        go c1 (k + 1) rest qs.tail ((match err with | none => "-" | some x => x.str) :: errs)
          (toString (fnv64 (canonState c1)) :: hs) (answers c1 q :: ans) (if k ≤ full then c1 else keep)
  go c0 0 edits qs [] [] [] c0

def specStr (ne : Nat) (seq : List Op) (c : Dag) : String :=
  let regd := String.intercalate "/" ([RegType.e, .p, .c].map fun t =>
    showIntsDot ((List.range (c.regs t)).map fun i => ((Metrics.Spec.regDepth seq ⟨t, i⟩ : Nat) : Int)))
  s!"sdepth={Metrics.Spec.depth seq} sregd={regd} semit={Metrics.Spec.emitterCount ne seq} scnot={Metrics.Spec.cnotCount seq} " ++
  s!"sunit={Metrics.Spec.unitaryCount seq} smeas={Metrics.Spec.measureCount seq} " ++
  s!"smed={exceptStr toString (Metrics.Spec.maxEmitDepth c.nE seq)} sreset={exceptStr toString (Metrics.Spec.maxEmitResetDepth c.nE seq)} " ++
  s!"seff={exceptStr toString (Metrics.Spec.maxEmitEffDepth c.nE seq)}"

def dispatch (cmd : String) (a : Args) : Option String :=
  match cmd with
  | "dag.run" =>
    let c0 := Dag.init (getNat a "ne") (getNat a "np") (getNat a "nc")
    let edits := starList ',' (get a "edits")
    let qs := starList ',' (get a "qs")
    let full := if has a "full" then getNat a "full" else edits.length
    some (runEdits c0 edits qs full)
  | "dag.metrics" =>
    match (starList ',' (get a "ops")).mapM parseOp with
    | none => some "err parse"
    | some seq =>
      match Metrics.build (getNat a "ne") (getNat a "np") (getNat a "nc") seq with
      | (_, some e) => some s!"err {e.str}"
      | (c, none) =>
        let lite := has a "lite"
        let rd := if lite then "skipped" else exceptStr (fun (t : List Int × List Int × List Int) =>
          showIntsDot t.1 ++ "/" ++ showIntsDot t.2.1 ++ "/" ++ showIntsDot t.2.2) c.registerDepth
        some s!"ok m={metricsStr c (!lite)} regd={rd} {specStr (getNat a "ne") seq c} h={fnv64 (canonState c)}"
  | _ => none

end Graphiq.CmdDag
