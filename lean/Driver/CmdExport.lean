/-
  CmdExport.lean — driver commands of the export/import model (C14) and the comparison model (C15).

  Encodings (no spaces inside a value):
    register      e0 p12 c3
    operation     Hadamard:e0 | W(Hadamard.Phase.Identity):p1 | CNOT:e0:p1 | ClassicalCNOT:e0:p1:c0 | MeasurementZ:e0:c1
    op list       operations joined by ','      ("-" = empty)
    statement     g:<name>:<reg>:… | m:<q>:<c> | i:<c>:<gate>:<q> | r:<q> | b:<q>.<q>… | qr:<q>:<size> | cr:<c>:<size> | e | raw:<pct>
    text          percent-encoded (space, newline, '%', ',', ';', '|', '~', '+', ':')
-/
import GraphiqModel.Model.Export
import GraphiqModel.Model.Compare
import Driver.Proto
namespace Graphiq.CmdExport
open Graphiq Graphiq.Proto Graphiq.Export

/-! ### percent encoding -/

def hexDigit (n : Nat) : Char := if n < 10 then Char.ofNat (48 + n) else Char.ofNat (55 + n)

def needsEsc (c : Char) : Bool :=
  c = ' ' || c = '\n' || c = '%' || c = ',' || c = ';' || c = '|' || c = '~' || c = '+' || c = ':' || c = '\t' || c = '\r' ||
  c.toNat < 32 || c.toNat > 126

def pctEnc (s : Str) : String :=
  String.ofList (s.flatMap fun c =>
    if needsEsc c then ['%', hexDigit (c.toNat / 16 % 16), hexDigit (c.toNat % 16)] else [c])

def hexVal (c : Char) : Nat :=
  if '0' ≤ c ∧ c ≤ '9' then c.toNat - 48 else if 'A' ≤ c ∧ c ≤ 'F' then c.toNat - 55 else if 'a' ≤ c ∧ c ≤ 'f' then c.toNat - 87 else 0

def pctDecL : List Char → List Char
  | '%' :: a :: b :: rest => Char.ofNat (hexVal a * 16 + hexVal b) :: pctDecL rest
  | c :: rest => c :: pctDecL rest
  | [] => []

def pctDec (s : String) : Str := pctDecL s.toList

/-! ### parsing requests -/

def g1OfName (s : String) : Option G1 :=
  match Cls.ofPyName s.toList with
  | some (.g1 g) => some g
  | _ => none

def qregOf (s : String) : Option QReg :=
  match s.toList with
  | 'e' :: ds => (String.ofList ds).toNat?.map fun i => ⟨.e, i⟩
  | 'p' :: ds => (String.ofList ds).toNat?.map fun i => ⟨.p, i⟩
  | _ => none

def cregOf (s : String) : Option Nat :=
  match s.toList with
  | 'c' :: ds => (String.ofList ds).toNat?
  | _ => none

def opOf (s : String) : Option Op :=
  let parts := splitChar ':' s
  let head := parts.headD ""
  if head.startsWith "W(" then
    let inner := (head.drop 2).dropEnd 1 |>.toString
    let names := if inner = "" then [] else splitChar '.' inner
    match names.mapM g1OfName, (parts[1]?).bind qregOf with
    | some gs, some q => some (.wrap gs q)
    | _, _ => none
  else
    match Cls.ofPyName head.toList, parts.drop 1 with
    | some (.g1 g), [q] => (qregOf q).map (.one g)
    | some (.g2 g), [a, b] => do let a ← qregOf a; let b ← qregOf b; pure (.ctrl g a b)
    | some (.gc g), [a, b, c] => do let a ← qregOf a; let b ← qregOf b; let c ← cregOf c; pure (.cctrl g a b c)
    | some .measZ, [q, c] => do let q ← qregOf q; let c ← cregOf c; pure (.meas q c)
    | _, _ => none

def opsOf (s : String) : Option (List Op) := (listOf s).mapM opOf

def circOf (a : Args) : Option (Circuit × List Op) := do
  let adds ← opsOf (get a "adds")
  let c : Circuit := { ne := getNat a "ne", np := getNat a "np", nc := getNat a "nc", ops := adds }
  if has a "seq" then
    let idx := natsOf '.' (get a "seq")
    let seq ← idx.mapM (fun i => adds[i]?)
    pure (c, seq)
  else pure (c, adds)

def stmtOf (s : String) : Option Stmt :=
  match splitChar ':' s with
  | "g" :: name :: args => (args.mapM qregOf).map (.gate (pctDec name))
  | ["m", q, c] => do let q ← qregOf q; let c ← cregOf c; pure (.measure q c)
  | ["i", c, g, q] => do let c ← cregOf c; let q ← qregOf q; pure (.ifx c (pctDec g) q)
  | ["r", q] => (qregOf q).map .reset
  | ["b", qs] => ((if qs = "" then [] else splitChar '.' qs).mapM qregOf).map .barrier
  | ["b"] => some (.barrier [])
  | ["qr", q, n] => do let q ← qregOf q; let n ← n.toNat?; pure (.qreg q n)
  | ["cr", c, n] => do let c ← cregOf c; let n ← n.toNat?; pure (.creg c n)
  | ["e"] => some .empty
  | ["raw", t] => some (.raw (pctDec t))
  | _ => none

/-! ### printing replies -/

def showQ (q : QReg) : String := String.ofList q.render

def showOp : Op → String
  | .one g q => s!"{String.ofList (Cls.g1 g).pyName}:{showQ q}"
  | .wrap gs q => s!"W({String.intercalate "." (gs.map fun g => String.ofList (Cls.g1 g).pyName)}):{showQ q}"
  | .ctrl g c t => s!"{String.ofList (Cls.g2 g).pyName}:{showQ c}:{showQ t}"
  | .cctrl g c t cr => s!"{String.ofList (Cls.gc g).pyName}:{showQ c}:{showQ t}:c{cr}"
  | .meas q cr => s!"MeasurementZ:{showQ q}:c{cr}"

def showOps (l : List Op) : String := if l.isEmpty then "-" else String.intercalate "," (l.map showOp)

def showCirc (c : Circuit) : String := s!"regs={c.ne}.{c.np}.{c.nc} ops={showOps c.ops}"

def showExc {α : Type} (f : α → String) : Except Err α → String
  | .ok v => f v
  | .error e => s!"err:{e}"

def showJOp (j : JOp) : String :=
  let ty := match j.type with | none => "None" | some t => pctEnc t
  let ol := match j.opList with
    | none => "-"
    | some [] => "[]"
    | some l => String.intercalate "+" (l.map pctEnc)
  let qt := String.ofList (j.qTypes.map RegT.ch)
  s!"{ty}~{ol}~{if qt = "" then "-" else qt}~{showNats "." j.qRegs}~{showNats "." j.cRegs}"

def showJson (j : JCirc) : String :=
  s!"{j.np}|{j.ne}|{j.nc}|{if j.ops.isEmpty then "-" else String.intercalate ";" (j.ops.map showJOp)}"

def showStd : StdOp → String
  | .app n args => s!"a:{pctEnc n}:{String.intercalate ":" (args.map showQ)}"
  | .measure q c => s!"m:{showQ q}:c{c}"
  | .cond c n q => s!"i:c{c}:{pctEnc n}:{showQ q}"
  | .reset q => s!"r:{showQ q}"

def showStds (l : List StdOp) : String := if l.isEmpty then "-" else String.intercalate "," (l.map showStd)

/-! ### commands -/

/-- everything the exporters produce for one circuit, and what the importers read back -/
def cmdAll (a : Args) : String :=
  match circOf a with
  | none => "err parse"
  | some (c, seq) =>
    let prog := toOpenqasm c seq
    let text := showExc (fun p => pctEnc p.render) prog
    let qimp := showExc (fun c => showCirc c) (prog.bind fromOpenqasm)
    let timp := showExc (fun c => showCirc c) (prog.bind fun p => fromOpenqasmText p.render)
    let j := toJson c seq
    let jimp := showExc (fun c => showCirc c) (fromJson j)
    let std := showExc (fun p => showStds (qasmStd p)) prog
    let ref := showExc showStds (stdOfCircuit seq)
    let fl := showOps (flat seq)
    s!"ok text={text} qimp={qimp.replace " " "/"} timp={timp.replace " " "/"} json={showJson j} jimp={jimp.replace " " "/"} std={std} ref={ref} flat={fl}"

/-- parse a statement list the way `from_openqasm` does; also returns the text that was parsed -/
def cmdParse (a : Args) : String :=
  match (listOf (get a "stmts")).mapM stmtOf with
  | none => "err parse"
  | some stmts =>
    let header := if has a "header" then pctDec (get a "header") else "OPENQASM 2.0;".toList
    let prog : Program := { header := header, imports := [], defs := [], decls := [], body := stmts.map fun s => [s] }
    let text := header ++ "\n".toList ++ (stmts.flatMap fun s => s.render ++ "\n".toList)
    let r := showExc showCirc (fromOpenqasm prog)
    let rt := showExc showCirc (fromOpenqasmText text)
    s!"ok text={pctEnc text} res={r.replace " " "/"} tres={rt.replace " " "/"}"

/-- `from_openqasm` on arbitrary text (text-level model) -/
def cmdParseText (a : Args) : String :=
  let r := showExc showCirc (fromOpenqasmText (pctDec (get a "text")))
  s!"ok tres={r.replace " " "/"}"

def jopOf (s : String) : Option JOp :=
  match splitChar '~' s with
  | [ty, ol, qt, qr, cr] =>
    some { type := if ty = "None" then none else some (pctDec ty),
           opList := if ol = "-" then none else if ol = "[]" then some [] else some ((splitChar '+' ol).map pctDec),
           qTypes := (if qt = "-" then [] else qt.toList).filterMap (fun ch => if ch = 'e' then some RegT.e else if ch = 'p' then some RegT.p else none),
           qRegs := natsOf '.' qr, cRegs := natsOf '.' cr }
  | _ => none

/-- `from_json` on an arbitrary (possibly malformed) dictionary -/
def cmdJsonParse (a : Args) : String :=
  match splitChar '|' (get a "j") with
  | [np, ne, nc, ops] =>
    match (if ops = "-" then [] else splitChar ';' ops).mapM jopOf with
    | none => "err parse"
    | some jops =>
      let j : JCirc := { np := np.toNat?.getD 0, ne := ne.toNat?.getD 0, nc := nc.toNat?.getD 0, ops := jops }
      s!"ok res={(showExc showCirc (fromJson j)).replace " " "/"}"
  | _ => "err parse"

/-- `name_to_class_map` / tokenisation on an arbitrary string -/
def cmdName (a : Args) : String :=
  let s := pctDec (get a "s")
  let k := match nameToClass s with | none => "None" | some k => String.ofList k.pyName
  let toks := String.intercalate "," ((tokenise s).map pctEnc)
  s!"ok cls={k} toks={if toks = "" then "-" else toks}"

/-- `single_qubit_wrapper_info` for a list of classes -/
def cmdWrapInfo (a : Args) : String :=
  match (listOf (get a "gs")).mapM g1OfName with
  | none => "err parse"
  | some gs =>
    match singleQubitWrapperInfo gs with
    | .error e => s!"err {e}"
    | .ok i => s!"ok name={pctEnc i.gateName} defs={String.intercalate "|" (i.defs.map fun d => pctEnc d.text)} multi={b01 i.multi}"

/-! ### C15: comparison -/

open Graphiq.Compare in
def showWire (w : Wire) : String := s!"{w.t.ch}{w.i}"

open Graphiq.Compare in
def showNd : Nd → String
  | .inp w => s!"{showWire w}_in"
  | .out w => s!"{showWire w}_out"
  | .op id => toString id

open Graphiq.Compare in
def showNOp : NOp → String
  | .input w => s!"Input:{showWire w}"
  | .output w => s!"Output:{showWire w}"
  | .gate o => showOp o

open Graphiq.Compare in
def showMG (g : MG) : String :=
  let ns := String.intercalate ";" (g.nodes.map fun p => s!"{showNd p.1}={showNOp p.2}")
  let es := String.intercalate ";" (g.edges.map fun e =>
    s!"{showNd e.src}>{showNd e.dst}>{showWire e.key}>{match e.ct with | some c => String.singleton c | none => "-"}")
  s!"regs={g.ne}.{g.np}.{g.nc} nodes={if ns = "" then "-" else ns} edges={if es = "" then "-" else es}"

open Graphiq.Compare in
/-- the same with the attributes of the repaired `add_control_target_to_dag` (a pair of roles per edge) -/
def showMG2 (g : MG) : String :=
  let ns := String.intercalate ";" (g.nodes.map fun p => s!"{showNd p.1}={showNOp p.2}")
  let r := fun (o : Option Char) => match o with | some c => String.singleton c | none => "-"
  let es := String.intercalate ";" (g.edges.map fun e =>
    s!"{showNd e.src}>{showNd e.dst}>{showWire e.key}>{r e.ct2.1}{r e.ct2.2}")
  s!"regs={g.ne}.{g.np}.{g.nc} nodes={if ns = "" then "-" else ns} edges={if es = "" then "-" else es}"

/-- `ne.np.nc/op,op,…` -/
def circOfStr (s : String) : Option Circuit :=
  match splitChar '/' s with
  | [regs, ops] =>
    match natsOf '.' regs, opsOf ops with
    | [ne, np, nc], some l => some { ne := ne, np := np, nc := nc, ops := l }
    | _, _ => none
  | _ => none

def showEB : Except Err Bool → String
  | .ok b => b01 b
  | .error e => s!"err:{e}"

open Graphiq.Compare in
def cmdGraph (a : Args) : String :=
  match circOfStr (get a "c") with
  | none => "err parse"
  | some c =>
    match MG.build c with
    | .error e => s!"err {e}"
    | .ok g =>
      let g := if get a "norm" = "1" then g.normalise else g
      if get a "ct" = "2" then s!"ok {showMG2 g.addControlTarget2}" else
      let g := if get a "ct" = "1" then g.addControlTarget else g
      s!"ok {showMG g}"

open Graphiq.Compare in
def cmdCmp (a : Args) : String :=
  match circOfStr (get a "a"), circOfStr (get a "b") with
  | some c1, some c2 =>
    s!"ok direct={showEB (direct c1 c2)} directl={b01 (directL c1 c2)} iso={showEB (circuitIsIsomorphic c1 c2)} isonorm={showEB (isoNormalised c1 c2)} reneq={b01 (renEq c1 c2)} wireseq={b01 (wiresEq c1 c2)} iso2={showEB (circuitIsIsomorphic2 c1 c2)} isonorm2={showEB (isoNormalised2 c1 c2)}"
  | _, _ => "err parse"

open Graphiq.Compare in
def cmdFilter (a : Args) : String :=
  match (splitChar '|' (get a "cs")).mapM circOfStr with
  | none => "err parse"
  | some cs =>
    let idx := cs.zipIdx
    let isoEq := fun (x y : Circuit × Nat) => match isoNormalised x.1 y.1 with | .ok r => r | .error _ => false
    let dirEq := fun (x y : Circuit × Nat) => match checkRedundant x.1 y.1 with | .ok r => r | .error _ => false
    let kept := removeRedundantWith isoEq idx
    let st := storageAddAll dirEq false idx
    let st2 := storageAddAll isoEq false idx
    let isoEq2 := fun (x y : Circuit × Nat) => match isoNormalised2 x.1 y.1 with | .ok r => r | .error _ => false
    let kept2 := removeRedundantWith isoEq2 idx
    let st3 := storageAddAll isoEq2 false idx
    s!"ok kept={showNats "." (kept.map (·.2))} stdirect={String.ofList (st.2.map fun b => if b then '1' else '0')} stiso={String.ofList (st2.2.map fun b => if b then '1' else '0')} kept2={showNats "." (kept2.map (·.2))} stiso2={String.ofList (st3.2.map fun b => if b then '1' else '0')}"

def dispatch (cmd : String) (a : Args) : Option String :=
  match cmd with
  | "c14.all" => some (cmdAll a)
  | "c14.parse" => some (cmdParse a)
  | "c14.parsetext" => some (cmdParseText a)
  | "c14.jsonparse" => some (cmdJsonParse a)
  | "c14.name" => some (cmdName a)
  | "c14.wrapinfo" => some (cmdWrapInfo a)
  | "c15.graph" => some (cmdGraph a)
  | "c15.cmp" => some (cmdCmp a)
  | "c15.filter" => some (cmdFilter a)
  | _ => none

end Graphiq.CmdExport
