import GraphiqModel.Properties.C13
open Graphiq Graphiq.Wire Graphiq.C13

def exD : Circuit :=
  let ops : List Op := [⟨.base .H, [⟨.e, 0⟩], [], false⟩, ⟨.cnot, [⟨.e, 0⟩, ⟨.p, 0⟩], [], false⟩,
    ⟨.measZ, [⟨.p, 0⟩], [0], false⟩, ⟨.base .H, [⟨.e, 0⟩], [], false⟩]
  ops.foldl (fun c op => c.addCore op) (Circuit.empty 1 1 1)

example : exD.isLinearExtension [1, 2, 3, 4] = true ∧ exD.isLinearExtension [1, 2, 4, 3] = true ∧
    exD.sops [1, 2, 3, 4] ≠ exD.sops [1, 2, 4, 3] := by decide

set_option maxRecDepth 4000 in
example : (stabRun 1 1 .one [] ((exD.sops [1, 2, 3, 4]).map Commute.toCOp)).map (·.outs) = some [true] := by decide +kernel
set_option maxRecDepth 4000 in
example : (stabRun 1 1 .one [] ((exD.sops [1, 2, 4, 3]).map Commute.toCOp)).map (·.outs) = some [true] := by decide +kernel

example (sc : Commute.Script) : Commute.feed 1 1 (exD.sops [1, 2, 3, 4]) [true] sc = Commute.pushOut sc ⟨.p, 0⟩ true := rfl
example (sc : Commute.Script) : Commute.feed 1 1 (exD.sops [1, 2, 4, 3]) [true] sc = Commute.pushOut sc ⟨.p, 0⟩ true := rfl
