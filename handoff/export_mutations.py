#!/usr/bin/env python3
"""apply one named mutation to a fresh copy of /repo, run ./check, report"""
import subprocess, sys, shutil, os, json, re, time
MUTS = {
 # ---- C14
 "M1_body_order": ("C14", "graphiq/utils/openqasm_lib.py", 'def_usage = f"{oq_info.gate_name} a;\\n" + def_usage', 'def_usage = def_usage + f"{oq_info.gate_name} a;\\n"'),
 "M2_single_digit_reg": ("C14", "graphiq/circuit/circuit_dag.py", "reg = int(command_breakdown[1][1:-3])  # we must parse out [0] so -3", "reg = int(command_breakdown[1][1:2])"),
 "M3_if_target_digit": ("C14", "graphiq/circuit/circuit_dag.py", "reg = int(reg_str[1:-1])", "reg = int(reg_str[1:2])"),
 "M4_sdg_unreadable": ("C14", "graphiq/circuit/ops.py", '        "sdg": PhaseDagger,\n', ''),
 "M6_json_roles": ("C14", "graphiq/circuit/circuit_dag.py", """                    gate = gate_class(
                        control=q_regs[0],
                        control_type=q_types[0],
                        target=q_regs[1],
                        target_type=q_types[1],
                        c_register=c_regs[0],
                    )""", """                    gate = gate_class(
                        control=q_regs[1],
                        control_type=q_types[1],
                        target=q_regs[0],
                        target_type=q_types[0],
                        c_register=c_regs[0],
                    )"""),
 "M7_json_wrapper_reversed": ("C14", "graphiq/circuit/circuit_dag.py", "for g in op.operations:\n                    name = ops.class_to_name_mapping(g)", "for g in reversed(op.operations):\n                    name = ops.class_to_name_mapping(g)"),
 "M10_no_shortcut": ("C14", "graphiq/utils/openqasm_lib.py", "    if gate_name in gate_name_dict:  # i.e. gate is already somehow defined\n        return gate_name_dict[gate_name]\n", "    if gate_name == \"\":\n        return gate_name_dict[gate_name]\n"),
 "M11_ccz_letter": ("C14", "graphiq/utils/openqasm_lib.py", 'f"if (c{c_reg[0]}==1) z {q_reg_type[1]}{q_reg[1]}[0];"', 'f"if (c{c_reg[0]}==1) x {q_reg_type[1]}{q_reg[1]}[0];"'),
 "M12_json_c_register": ("C14", "graphiq/circuit/circuit_dag.py", "register=q_regs[0], reg_type=q_types[0], c_register=c_regs[0]\n", "register=q_regs[0], reg_type=q_types[0], c_register=0\n"),
 "M13_barrier_not_closed": ("C14", "graphiq/circuit/circuit_base.py", '            elif gate_application != "":\n                opened_barrier = False\n', ''),
 "M14_json_name_y": ("C14", "graphiq/circuit/ops.py", '        SigmaY: "y",', '        SigmaY: "z",'),
 "M15_if_creg_single_digit": ("C14", "graphiq/circuit/circuit_dag.py", 'c_str = re.search(r"c(\\d)+==1", command.replace(" ", "")).group(0)', 'c_str = re.search(r"c(\\d)==1", command.replace(" ", "")).group(0)'),
 "M20_wrapper_name_reversed": ("C14", "graphiq/utils/openqasm_lib.py", "        gate_name += oq_info.gate_name\n", "        gate_name = oq_info.gate_name + gate_name\n"),
 "M21_tokeniser_no_sdg": ("C14", "graphiq/circuit/circuit_dag.py", 'for letter in re.findall(r"sdg|.", name)', 'for letter in re.findall(r".", name)'),
 # ---- C15
 "N25_edge_match_first_key": ("C15", "graphiq/utils/circuit_comparison.py", """        roles1 = sorted(str(d["control_target"]) for d in e1.values())
        roles2 = sorted(str(d["control_target"]) for d in e2.values())
        return roles1 == roles2""", """        val1 = next(iter(e1))
        val2 = next(iter(e2))
        return e1[val1]["control_target"] == e2[val2]["control_target"]"""),
 "N24_direct_identity_one_side": ("C15", "graphiq/utils/circuit_comparison.py", "    circuit1.remove_identity()\n    circuit2.remove_identity()\n\n    n_reg_match", "    circuit1.remove_identity()\n\n    n_reg_match"),
 "N1_direct_ignores_registers": ("C15", "graphiq/utils/circuit_comparison.py", """                control_match = (
                    op1.q_registers_type == op2.q_registers_type
                    and op1.q_registers == op2.q_registers
                )""", """                control_match = (
                    op1.q_registers_type == op2.q_registers_type
                    and sorted(op1.q_registers) == sorted(op2.q_registers)
                )"""),
 "N4_iso_ignores_types": ("C15", "graphiq/utils/circuit_comparison.py", "if type(op1) != type(op2) or op1.q_registers_type != op2.q_registers_type:", "if type(op1) != type(op2):"),
 "N5_ct_attr_same": ("C15", "graphiq/utils/circuit_comparison.py", '            return "t"\n', '            return "c"\n'),
 "N6_filter_compares_self": ("C15", "graphiq/utils/circuit_comparison.py", "                to_add_circuit = new_circuit.copy()\n", "                to_add_circuit = circuit.copy()\n"),
 "N7_direct_weak_class": ("C15", "graphiq/utils/circuit_comparison.py", "if isinstance(op1, type(op2)) and control_match:", "if isinstance(op1, type(op2).__mro__[1]) and control_match:"),
 "N9_iso_wrapper_ops": ("C15", "graphiq/utils/circuit_comparison.py", "            if op1.operations != op2.operations:", "            if len(op1.operations) != len(op2.operations):"),
 "N10_storage_check_last": ("C15", "graphiq/utils/circuit_comparison.py", "            for circuit in self.circuit_list:\n                if f(circuit, new_circuit):\n                    return True", "            for circuit in self.circuit_list:\n                if f(circuit, circuit):\n                    return True"),
}
def main():
    name = sys.argv[1]
    pid, path, old, new = MUTS[name]
    dst = "/tmp/repo_export"
    if os.path.exists(dst): shutil.rmtree(dst)
    shutil.copytree("/repo", dst, ignore=shutil.ignore_patterns(".git", "__pycache__", "*.pyc"))
    src = open(os.path.join(dst, path)).read()
    assert src.count(old) >= 1, f"pattern not found for {name}"
    open(os.path.join(dst, path), "w").write(src.replace(old, new, 1))
    # still imports?
    rc = subprocess.run(["/venv/bin/python", "-c", "import sys; sys.path.insert(0,'/tmp/repo_export'); import graphiq.circuit.circuit_dag"], capture_output=True, text=True)
    assert rc.returncode == 0, rc.stderr[-500:]
    env = dict(os.environ, REPO=dst)
    t0 = time.time()
    p = subprocess.run(["./check", pid, "--tier", "quick"], cwd=os.path.dirname(os.path.dirname(os.path.abspath(__file__))), env=env, capture_output=True, text=True)
    out = p.stdout + p.stderr
    vio = [l for l in out.splitlines() if l.startswith("VIOLATION")]
    key = None
    if vio:
        m = re.search(r"replay=(\S+)", vio[0])
        if m:
            d = json.load(open(os.path.join(os.path.dirname(os.path.dirname(os.path.abspath(__file__))), m.group(1))))
            v = d.get("violation") or {}
            key = v.get("key") or d.get("kind")
            inp = v.get("input")
            print(f"{name}: exit={p.returncode} {vio[0]}\n   key={key}\n   input={str(inp)[:300]}\n   proof_broken={str(d.get('proof_broken'))[:300]}\n   breaks={[b.get('correspondence') for b in d.get('correspondence_breaks', [])][:4]}")
    else:
        print(f"{name}: exit={p.returncode} NO VIOLATION\n" + "\n".join(out.splitlines()[-6:]))
    print(f"   wall={time.time()-t0:.0f}s")
    shutil.rmtree(dst)
main()
