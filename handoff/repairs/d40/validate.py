#!/usr/bin/env python
"""
Validation of graphiq.backends.state_rep_conversion.state_to_graph (defect D40) on whatever graphiq tree is importable.

    cd <tree> && OMP_NUM_THREADS=1 PYTHONPATH=<tree> python REPAIR/validate.py [--random 20000] [--jobs 4] [--seed 7]

Exit status 0 iff no failure was counted. For every input stabilizer state (given by a signed generating set) it checks

  * state_to_graph returns (no exception), returns the input tableau unchanged and a gate list of one-qubit gates;
  * OWN tableau simulation (written here, shares no code with graphiq): gates applied to the input generators give a
    group whose reduced row echelon form is exactly [I | adjacency(graph)] with all signs +;
  * graphiq's own run_circuit + canonical_form give the canonical form of the graph's tableau;
  * for n <= 6 a DENSE simulation: U (prod_i (1+g_i)/2) U^dagger == |G><G| for the returned graph G;
  * if the input state is exactly a graph state (decided here, independently): the returned graph is that graph and
    the gate list is empty.

The signed Pauli arithmetic used here: a Pauli is i^k prod_j X_j^{x_j} Z_j^{z_j} (X to the left of Z on each qubit).
The arithmetic itself is cross-checked against dense matrices (section "selfcheck").
"""
import argparse
import collections
import itertools
import multiprocessing as mp
import sys
import time
import warnings

warnings.filterwarnings("ignore")

import networkx as nx
import numpy as np

from graphiq.backends.stabilizer.tableau import StabilizerTableau
from graphiq.backends.stabilizer.functions.rep_conversion import (
    get_stabilizer_tableau_from_graph,
    clifford_from_stabilizer,
)
from graphiq.backends.stabilizer.functions.stabilizer import canonical_form
from graphiq.backends.stabilizer.functions.transformation import run_circuit
import graphiq.backends.state_rep_conversion as rc

ONE_QUBIT = ("I", "H", "X", "Y", "Z", "P", "P_dag")

# ----------------------------------------------------------------------------------------------------------------------
# own signed Pauli / tableau arithmetic.  rows: x (m,n) int, z (m,n) int, k (m,) int  <->  i^k X^x Z^z
# ----------------------------------------------------------------------------------------------------------------------


def sign_to_k(x, z, r):
    """generator (-1)^r * (tensor product of I,X,Y,Z with Y where x=z=1)  ->  exponent k (Y = i X Z)"""
    return (2 * np.asarray(r) + (x & z).sum(axis=1)) % 4


def k_to_sign(x, z, k):
    d = (k - (x & z).sum(axis=1)) % 4
    assert np.all(d % 2 == 0), "non-Hermitian Pauli"
    return d // 2


def mul_into(x, z, k, src, dst):
    """row dst <- row src * row dst   ((i^a X^x1 Z^z1)(i^b X^x2 Z^z2) = i^(a+b) (-1)^(z1.x2) X^(x1+x2) Z^(z1+z2))"""
    k[dst] = (k[src] + k[dst] + 2 * int((z[src] & x[dst]).sum())) % 4
    x[dst] ^= x[src]
    z[dst] ^= z[src]


def apply_gate(x, z, k, gate):
    """conjugate all rows by the gate (P -> U P U^dagger), in place"""
    name = gate[0]
    if name == "I":
        return
    a = gate[1]
    if name == "H":  # X <-> Z ; X^x Z^z -> Z^x X^z = (-1)^(xz) X^z Z^x
        k += 2 * (x[:, a] & z[:, a])
        x[:, a], z[:, a] = z[:, a].copy(), x[:, a].copy()
    elif name == "P":  # S X S^dag = Y = iXZ
        k += x[:, a]
        z[:, a] ^= x[:, a]
    elif name == "P_dag":  # S^dag X S = -Y = -iXZ
        k += 3 * x[:, a]
        z[:, a] ^= x[:, a]
    elif name == "Z":
        k += 2 * x[:, a]
    elif name == "X":
        k += 2 * z[:, a]
    elif name == "Y":
        k += 2 * (x[:, a] ^ z[:, a])
    elif name == "CNOT":  # X_a -> X_a X_b, Z_b -> Z_a Z_b ; no phase in the X-left-of-Z normal form
        b = gate[2]
        x[:, b] ^= x[:, a]
        z[:, a] ^= z[:, b]
    elif name == "CZ":  # X_a -> X_a Z_b, X_b -> Z_a X_b ; Z_b^xa X_b^xb = (-1)^(xa xb) X_b^xb Z_b^xa
        b = gate[2]
        k += 2 * (x[:, a] & x[:, b])
        z[:, b] ^= x[:, a]
        z[:, a] ^= x[:, b]
    else:
        raise ValueError(name)
    k %= 4


def rref(x, z, k):
    """reduced row echelon form of the signed generating set (columns: X part then Z part); unique per group"""
    x, z, k = x.copy(), z.copy(), k.copy()
    m, n = x.shape
    row = 0
    for col in range(2 * n):
        mat = x if col < n else z
        c = col % n
        piv = [i for i in range(row, m) if mat[i, c]]
        if not piv:
            continue
        p = piv[0]
        if p != row:
            for arr in (x, z):
                arr[[row, p]] = arr[[p, row]]
            k[[row, p]] = k[[p, row]]
        for i in range(m):
            if i != row and mat[i, c]:
                mul_into(x, z, k, row, i)
        row += 1
    return x, z, k


def rank2(mat):
    mat = mat.copy() % 2
    r = 0
    for c in range(mat.shape[1]):
        piv = [i for i in range(r, mat.shape[0]) if mat[i, c]]
        if not piv:
            continue
        mat[[r, piv[0]]] = mat[[piv[0], r]]
        for i in range(mat.shape[0]):
            if i != r and mat[i, c]:
                mat[i] ^= mat[r]
        r += 1
    return r


def exact_graph_of(x, z, k):
    """adjacency matrix A if the state is exactly the graph state |G_A> (all signs +), else None"""
    n = x.shape[1]
    rx, rz, rk = rref(x, z, k)
    if not np.array_equal(rx, np.eye(n, dtype=int)):
        return None
    if np.any(rk) or np.any(np.diag(rz)) or not np.array_equal(rz, rz.T):
        return None
    return rz


def same_group(a, b):
    ra, rb = rref(*a), rref(*b)
    return all(np.array_equal(u, v) for u, v in zip(ra, rb))


# ----------------------------------------------------------------------------------------------------------------------
# dense linear algebra (qubit 0 = leftmost tensor factor)
# ----------------------------------------------------------------------------------------------------------------------
_I = np.eye(2, dtype=complex)
_X = np.array([[0, 1], [1, 0]], dtype=complex)
_Z = np.diag([1, -1]).astype(complex)
_Y = 1j * _X @ _Z
_H = np.array([[1, 1], [1, -1]], dtype=complex) / np.sqrt(2)
_S = np.diag([1, 1j])
DENSE_1Q = {"I": _I, "H": _H, "X": _X, "Y": _Y, "Z": _Z, "P": _S, "P_dag": _S.conj().T}


def kron_all(mats):
    out = np.eye(1, dtype=complex)
    for m in mats:
        out = np.kron(out, m)
    return out


def dense_pauli(xr, zr, k):
    return (1j**k) * kron_all(
        [np.linalg.matrix_power(_X, int(a)) @ np.linalg.matrix_power(_Z, int(b)) for a, b in zip(xr, zr)]
    )


def dense_projector(x, z, k):
    n = x.shape[1]
    rho = np.eye(2**n, dtype=complex)
    for i in range(n):
        rho = rho @ (np.eye(2**n) + dense_pauli(x[i], z[i], k[i])) / 2
    return rho


def dense_local_unitary(n, gates):
    per = [_I.copy() for _ in range(n)]
    for name, q in gates:
        per[q] = DENSE_1Q[name] @ per[q]
    return kron_all(per)


def dense_two_qubit(n, name, a, b):
    dim = 2**n
    u = np.zeros((dim, dim), dtype=complex)
    for s in range(dim):
        ba, bb = (s >> (n - 1 - a)) & 1, (s >> (n - 1 - b)) & 1
        if name == "CNOT":
            u[s ^ (ba << (n - 1 - b)), s] = 1
        else:
            u[s, s] = -1 if (ba and bb) else 1
    return u


def dense_graph_state(adj):
    n = adj.shape[0]
    vec = np.ones(2**n, dtype=complex) / np.sqrt(2**n)
    for s in range(2**n):
        bits = [(s >> (n - 1 - j)) & 1 for j in range(n)]
        par = sum(adj[i, j] * bits[i] * bits[j] for i in range(n) for j in range(i + 1, n))
        if int(par) % 2:
            vec[s] = -vec[s]
    return vec


# ----------------------------------------------------------------------------------------------------------------------
# generators of test inputs
# ----------------------------------------------------------------------------------------------------------------------


def regauge(x, z, k, rng, n_ops=None):
    n = x.shape[0]
    if n < 2:
        return
    for _ in range(int(rng.integers(0, 3 * n + 1)) if n_ops is None else n_ops):
        i, j = (int(v) for v in rng.choice(n, 2, replace=False))
        if rng.integers(3) == 0:
            for arr in (x, z):
                arr[[i, j]] = arr[[j, i]]
            k[[i, j]] = k[[j, i]]
        else:
            mul_into(x, z, k, i, j)


def random_circuit(rng, qubits, depth, p2):
    """random circuit on the listed qubits; p2 = fraction of two-qubit gates"""
    gates = []
    if len(qubits) == 0:
        return gates
    for _ in range(depth):
        if len(qubits) == 1 or rng.random() >= p2:
            name = ("H", "H", "H", "H", "P", "P", "P_dag", "X", "Z", "I")[int(rng.integers(10))]
            gates.append((name, int(rng.choice(qubits))))
        else:
            a, b = (int(v) for v in rng.choice(qubits, 2, replace=False))
            gates.append(("CNOT" if rng.integers(3) else "CZ", a, b))
    return gates


def random_state(n, rng, want_circuit=False, regime=None):
    """
    random Clifford circuit on |0..0>, then random re-gauging (row swaps / row products). Four regimes, equally likely:
    deep and dense in two-qubit gates (close to a uniformly random stabilizer state), medium, shallow (many product
    qubits), and a deep circuit on a random subset of the qubits with the other qubits left in one-qubit states.
    """
    x = np.zeros((n, n), dtype=int)
    z = np.eye(n, dtype=int)
    k = np.zeros(n, dtype=int)
    regime = int(rng.integers(4)) if regime is None else regime
    everyone = list(range(n))
    if regime == 0:
        circ = random_circuit(rng, everyone, int(rng.integers(20 * n, 40 * n + 1)), 0.5)
    elif regime == 1:
        circ = random_circuit(rng, everyone, int(rng.integers(0, 4 * n + 1)), 0.4)
    elif regime == 2:
        circ = random_circuit(rng, everyone, int(rng.integers(0, n + 2)), 0.3)
    else:
        active = [q for q in everyone if rng.integers(2)]
        circ = random_circuit(rng, active, int(rng.integers(20 * n, 40 * n + 1)), 0.5)
        for q in everyone:
            if q not in active:
                circ += [(("I", "X", "Z", "H", "P")[int(rng.integers(5))], q) for _ in range(int(rng.integers(3)))]
    for g in circ:
        apply_gate(x, z, k, g)
    regauge(x, z, k, rng)
    return (x, z, k, circ) if want_circuit else (x, z, k)


def random_graph_adj(n, rng):
    p = rng.random()
    upper = np.triu((rng.random((n, n)) < p).astype(int), 1)
    return upper + upper.T


def to_tableau(x, z, k):
    return StabilizerTableau([x.copy(), z.copy()], phase=k_to_sign(x, z, k))


# ----------------------------------------------------------------------------------------------------------------------
# the check of one state
# ----------------------------------------------------------------------------------------------------------------------


def check_state(x, z, k, dense):
    n = x.shape[1]
    tab = to_tableau(x, z, k)
    tab0 = tab.copy()
    try:
        graph, tab_out, gates = rc.state_to_graph(tab)
    except Exception as e:  # noqa
        return "RAISED %s: %s" % (type(e).__name__, e)
    if not (tab == tab0):
        return "WRONG the caller's tableau was modified"
    xo, zo = tab_out.x_matrix.astype(int), tab_out.z_matrix.astype(int)
    if not same_group((x, z, k), (xo, zo, sign_to_k(xo, zo, tab_out.phase.astype(int)))):
        return "WRONG returned tableau is not the input state"
    if sorted(graph.nodes) != list(range(n)):
        return "WRONG node set"
    if any(len(g) != 2 or g[0] not in ONE_QUBIT or not (0 <= g[1] < n) for g in gates):
        return "WRONG gate list is not a list of one-qubit gates"
    adj = nx.to_numpy_array(graph, nodelist=range(n)).astype(int)
    if np.any(np.diag(adj)) or not np.array_equal(adj, adj.T) or not set(np.unique(adj)) <= {0, 1}:
        return "WRONG not a simple graph"
    # own tableau simulation
    x2, z2, k2 = x.copy(), z.copy(), k.copy()
    for g in gates:
        apply_gate(x2, z2, k2, g)
    g_adj = exact_graph_of(x2, z2, k2)
    if g_adj is None or not np.array_equal(g_adj, adj):
        return "WRONG (own tableau simulation): gates do not map the state onto the returned graph state"
    # graphiq's simulation
    t1 = canonical_form(run_circuit(tab0.copy(), list(gates)))
    t2 = canonical_form(get_stabilizer_tableau_from_graph(graph))
    if not (t1 == t2):
        return "WRONG (graphiq run_circuit): gates do not map the state onto the returned graph state"
    # graph states are fixed points
    own = exact_graph_of(x, z, k)
    if own is not None and (gates != [] or not np.array_equal(own, adj)):
        return "WRONG graph state not returned as itself without gates"
    if dense and n <= 6:
        u = dense_local_unitary(n, gates)
        rho = u @ dense_projector(x, z, k) @ u.conj().T
        vec = dense_graph_state(adj)
        if not np.allclose(rho, np.outer(vec, vec.conj()), atol=1e-9):
            return "WRONG (dense simulation): gates do not map the state onto the returned graph state"
    return "ok"


# ----------------------------------------------------------------------------------------------------------------------
# sections
# ----------------------------------------------------------------------------------------------------------------------


def selfcheck(seed):
    """the arithmetic of this file against dense matrices"""
    rng = np.random.default_rng(seed)
    bad = 0
    for t in range(300):
        n = int(rng.integers(1, 6))
        x, z, k, circ = random_state(n, rng, want_circuit=True)
        psi = np.zeros(2**n, dtype=complex)
        psi[0] = 1
        for g in circ:
            u = dense_local_unitary(n, [g]) if len(g) == 2 else dense_two_qubit(n, *g)
            psi = u @ psi
        k_to_sign(x, z, k)
        for i in range(n):
            if not np.allclose(dense_pauli(x[i], z[i], k[i]) @ psi, psi, atol=1e-9):
                bad += 1
        if rank2(np.hstack([x, z])) != n:
            bad += 1
        # graph-state recogniser
        adj = random_graph_adj(n, rng)
        gx, gz, gk = np.eye(n, dtype=int), adj.copy(), np.zeros(n, dtype=int)
        regauge(gx, gz, gk, rng)
        rec = exact_graph_of(gx, gz, gk)
        vec = dense_graph_state(adj)
        if rec is None or not np.array_equal(rec, adj):
            bad += 1
        if not np.allclose(dense_projector(gx, gz, gk), np.outer(vec, vec.conj()), atol=1e-9):
            bad += 1
    return collections.Counter({"ok" if not bad else "SELFCHECK FAILED (bug in validate.py)": 1})


def enumerate_generating_sets(n):
    """all ordered n-tuples of independent, pairwise commuting n-qubit Paulis (as (xbits, zbits) integers)"""
    paulis = [(a, b) for a in range(2**n) for b in range(2**n) if (a, b) != (0, 0)]

    def commute(p, q):
        return (bin(p[0] & q[1]).count("1") + bin(p[1] & q[0]).count("1")) % 2 == 0

    out = []
    for tup in itertools.product(paulis, repeat=n):
        if not all(commute(tup[i], tup[j]) for i in range(n) for j in range(i)):
            continue
        indep = True
        for mask in range(1, 2**n):
            ax = az = 0
            for i in range(n):
                if mask >> i & 1:
                    ax ^= tup[i][0]
                    az ^= tup[i][1]
            if ax == 0 and az == 0:
                indep = False
                break
        if indep:
            out.append(tup)
    return out


def _bits(v, n):
    return [(v >> (n - 1 - j)) & 1 for j in range(n)]


def work_exhaustive(args):
    n, tuples = args
    res = collections.Counter()
    keys = set()
    examples = {}
    for tup in tuples:
        x = np.array([_bits(p[0], n) for p in tup], dtype=int)
        z = np.array([_bits(p[1], n) for p in tup], dtype=int)
        for signs in itertools.product((0, 1), repeat=n):
            k = sign_to_k(x, z, np.array(signs))
            out = check_state(x, z, k, dense=True)
            res[out] += 1
            if out != "ok":
                examples.setdefault(out, (to_tableau(x, z, k).to_labels(), signs))
            keys.add(tuple(np.concatenate([a.ravel() for a in rref(x, z, k)]).tolist()))
    return res, keys, examples


def work_random(args):
    seed, count, nmin, nmax = args
    rng = np.random.default_rng(seed)
    res = collections.Counter()
    per_n = collections.Counter()
    examples = {}
    for _ in range(count):
        n = int(rng.integers(nmin, nmax + 1))
        x, z, k = random_state(n, rng)
        out = check_state(x, z, k, dense=True)
        res[out] += 1
        per_n[(n, out == "ok")] += 1
        if out != "ok" and (out not in examples or n < len(examples[out][1])):
            examples[out] = (to_tableau(x, z, k).to_labels(), k_to_sign(x, z, k).tolist())
    return res, per_n, examples


def work_graph_states(args):
    seed, count = args
    rng = np.random.default_rng(seed)
    res = collections.Counter()
    for t in range(count):
        n = int(rng.integers(1, 13))
        adj = random_graph_adj(n, rng)
        x, z, k = np.eye(n, dtype=int), adj.copy(), np.zeros(n, dtype=int)
        if t % 2:
            regauge(x, z, k, rng)
        out = check_state(x, z, k, dense=True)  # contains the "returned as itself, no gates" check
        if out == "ok":
            graph, _, gates = rc.state_to_graph(to_tableau(x, z, k))
            if gates != [] or not np.array_equal(nx.to_numpy_array(graph, nodelist=range(n)).astype(int), adj):
                out = "WRONG graph state not returned as itself without gates"
            # the other accepted input types
            g_in = nx.from_numpy_array(adj)
            g1, _, gates1 = rc.state_to_graph(g_in)
            g2, _, gates2 = rc.state_to_graph(clifford_from_stabilizer(to_tableau(x, z, k)))
            if gates1 or gates2 or not nx.utils.graphs_equal(g1, g_in):
                out = "WRONG nx.Graph / CliffordTableau input"
            if not np.array_equal(nx.to_numpy_array(g2, nodelist=range(n)).astype(int), adj):
                out = "WRONG nx.Graph / CliffordTableau input"
        res[out] += 1
    return res


def work_lc(args):
    from graphiq.backends.stabilizer.functions.local_cliff_equi_check import lc_check

    seed, count = args
    rng = np.random.default_rng(seed)
    res = collections.Counter()
    for _ in range(count):
        n = int(rng.integers(1, 10))
        x, z, k = random_state(n, rng, regime=0 if rng.random() < 0.7 else None)  # mostly fully entangled states
        x2, z2, k2 = x.copy(), z.copy(), k.copy()
        for q in range(n):
            for _ in range(int(rng.integers(0, 4))):
                apply_gate(x2, z2, k2, (("H", "P", "P_dag", "X", "Z")[int(rng.integers(5))], q))
        regauge(x2, z2, k2, rng)
        t1, t2 = to_tableau(x, z, k), to_tableau(x2, z2, k2)
        try:
            ans, gates = lc_check(t1, t2, validate=True)
        except BaseException as e:  # lc_check raises Warning on an invalid sequence
            res["RAISED %s: %s" % (type(e).__name__, e)] += 1
            continue
        if ans:
            y = (x.copy(), z.copy(), k.copy())
            for g in gates:
                apply_gate(*y, g)
            ok = all(len(g) == 2 for g in gates) and same_group(y, (x2, z2, k2))
            res["ok" if ok else "WRONG lc_check gate list does not map state1 onto state2"] += 1
        else:
            graph = rc.state_to_graph(t1)[0]
            if n > 1 and not nx.is_connected(graph):
                # known separate defect of is_lc_equivalent (graphiq/backends/lc_equivalence_check.py): it answers
                # "not equivalent" even for (A, A) when the graph is disconnected. Not counted as D40 failure.
                res["info: lc_check answered False for an LC-equivalent pair, disconnected graph (is_lc_equivalent)"] += 1
            else:
                res["info: lc_check answered False for an LC-equivalent pair, connected graph (is_lc_equivalent)"] += 1
    return res


def work_quantum_state(args):
    from graphiq.state import QuantumState

    seed, count = args
    rng = np.random.default_rng(seed)
    res = collections.Counter()
    for t in range(count):
        # (a) graph states given by an arbitrary generating set: 's' -> 'g' and 'dm' -> 'g' must give the graph
        n = int(rng.integers(1, 9))
        adj = random_graph_adj(n, rng)
        x, z, k = np.eye(n, dtype=int), adj.copy(), np.zeros(n, dtype=int)
        regauge(x, z, k, rng, n_ops=3 * n)
        try:
            qs = QuantumState(clifford_from_stabilizer(to_tableau(x, z, k)), rep_type="s")
            qs.convert_representation("g")
            got = nx.to_numpy_array(qs.rep_data.data, nodelist=range(n)).astype(int)
            res["ok" if np.array_equal(got, adj) else "WRONG 's'->'g' graph"] += 1
        except Exception as e:  # noqa
            res["RAISED 's'->'g' on a graph state, %s: %s" % (type(e).__name__, e)] += 1
        if n <= 4 and t % 4 == 0:
            try:
                qs = QuantumState(dense_projector(x, z, k), rep_type="dm")
                qs.convert_representation("g")
                got = nx.to_numpy_array(qs.rep_data.data, nodelist=range(n)).astype(int)
                res["ok" if np.array_equal(got, adj) else "WRONG 'dm'->'g' graph"] += 1
            except Exception as e:  # noqa
                res["RAISED 'dm'->'g' on a graph state, %s: %s" % (type(e).__name__, e)] += 1
        # (b) arbitrary stabilizer states: stabilizer_to_graph(validate=False) gives the graph of state_to_graph;
        #     's' -> 'g' (validate=True inside) must refuse a non-graph state with ITS message, not with
        #     'generators are not independent'
        n = int(rng.integers(1, 9))
        x, z, k = random_state(n, rng)
        tab = to_tableau(x, z, k)
        try:
            glist = rc.stabilizer_to_graph(tab.copy(), validate=False)
            graph = rc.state_to_graph(tab.copy())[0]
            same = len(glist) == 1 and nx.utils.graphs_equal(glist[0][1], graph)
            res["ok" if same else "WRONG stabilizer_to_graph(validate=False) graph"] += 1
        except Exception as e:  # noqa
            res["RAISED stabilizer_to_graph(validate=False), %s: %s" % (type(e).__name__, e)] += 1
        own = exact_graph_of(x, z, k)
        try:
            qs = QuantumState(clifford_from_stabilizer(tab.copy()), rep_type="s")
            qs.convert_representation("g")
            got = nx.to_numpy_array(qs.rep_data.data, nodelist=range(n)).astype(int)
            res["ok" if own is not None and np.array_equal(got, own) else "WRONG 's'->'g' accepted a non-graph state"] += 1
        except AssertionError as e:
            if own is None and str(e) == "Input stabilizer is not a graph state.":
                res["ok"] += 1
            else:
                res["RAISED 's'->'g', AssertionError: %s" % e] += 1
        except Exception as e:  # noqa
            res["RAISED 's'->'g', %s: %s" % (type(e).__name__, e)] += 1
    return res


def _old_position_finder(x_matrix):
    """verbatim copy of graphiq's _position_finder before the repair (reference for the compatibility section)"""
    pivot = [0, 0]
    n = x_matrix.shape[0]
    pos_list = []
    while pivot[0] < n and pivot[1] < n:
        try:
            if x_matrix[pivot[0] + 1, pivot[1]] == 1:
                pivot = [pivot[0] + 1, pivot[1]]
            if x_matrix[pivot[0] + 1, pivot[1] + 1] == 1:
                pivot = [pivot[0] + 1, pivot[1] + 1]
            else:
                pivot = [pivot[0], pivot[1] + 1]
                pos_list.append(pivot[1])
        except:  # noqa
            break

    return pos_list


def work_compat(args):
    """
    wherever the pre-repair choice of Hadamard positions made the X part invertible, the tree under test must choose
    the same positions (hence return the same graph and gates); also records when the pre-repair choice fails
    """
    import graphiq.backends.stabilizer.functions.linalg as sla

    seed, count = args
    rng = np.random.default_rng(seed)
    res = collections.Counter()
    for _ in range(count):
        n = int(rng.integers(1, 13))
        x, z, k = random_state(n, rng)
        xr, zr, _ = sla.row_reduction(x.copy(), z.copy())
        old = _old_position_finder(xr)
        cur = rc._position_finder(xr.copy())
        xo, _ = sla.hadamard_transform(xr.copy(), zr.copy(), old)
        xc, _ = sla.hadamard_transform(xr.copy(), zr.copy(), cur)
        old_ok = rank2(xo.astype(int)) == n
        col0 = bool(x[:, 0].any())
        if old_ok != col0:
            res["WRONG claim 'the pre-repair choice works iff qubit 0 has an X component in some generator'"] += 1
        elif rank2(xc.astype(int)) != n:
            res["WRONG X part not invertible after the Hadamards of the tree under test"] += 1
        elif old_ok and list(old) != list(cur):
            res["WRONG Hadamard positions differ from the pre-repair ones on an input where those worked"] += 1
        else:
            res["ok"] += 1
            res["info: pre-repair choice %s" % ("works, same positions" if old_ok else "fails (X column of qubit 0 is zero)")] += 1
    return res


# ----------------------------------------------------------------------------------------------------------------------


def report(title, counter, t0):
    total = sum(v for key, v in counter.items() if not key.startswith("info:"))
    bad = sum(v for key, v in counter.items() if key != "ok" and not key.startswith("info:"))
    print("[%s] checks=%d failures=%d  (%.0f s)" % (title, total, bad, time.time() - t0), flush=True)
    for key, v in sorted(counter.items()):
        if key != "ok":
            print("      %7d  %s" % (v, key))
    return bad


def chunks(seq, size):
    return [seq[i : i + size] for i in range(0, len(seq), size)]


def main():
    ap = argparse.ArgumentParser()
    ap.add_argument("--random", type=int, default=20000, help="number of random stabilizer states, 4 <= n <= 12")
    ap.add_argument("--jobs", type=int, default=4)
    ap.add_argument("--seed", type=int, default=7)
    ap.add_argument("--sections", default="selfcheck,exhaustive,random,graph,lc,qs,compat")
    ap.add_argument("--skip-exhaustive-3", action="store_true", help="skip the 181440 signed generating sets on 3 qubits")
    args = ap.parse_args()
    sections = args.sections.split(",")
    print("graphiq tree under test:", rc.__file__)
    failures = 0
    pool = mp.Pool(args.jobs)

    if "selfcheck" in sections:
        t0 = time.time()
        failures += report("selfcheck of validate.py arithmetic vs dense matrices", selfcheck(args.seed), t0)

    # every ordered generating set with every sign pattern
    expected_states = {1: 6, 2: 60, 3: 1080}
    for n in (1, 2, 3):
        if "exhaustive" not in sections or (n == 3 and args.skip_exhaustive_3):
            continue
        t0 = time.time()
        tuples = enumerate_generating_sets(n)
        total, keys, examples = collections.Counter(), set(), {}
        for res, ks, ex in pool.imap_unordered(work_exhaustive, [(n, c) for c in chunks(tuples, 400)]):
            total.update(res)
            keys |= ks
            for key, v in ex.items():
                examples.setdefault(key, v)
        if len(keys) != expected_states[n]:
            total["ENUMERATION covers %d states instead of %d" % (len(keys), expected_states[n])] += 1
        failures += report(
            "exhaustive n=%d: %d ordered generating sets x %d sign patterns, %d distinct states"
            % (n, len(tuples), 2**n, len(keys)),
            total,
            t0,
        )
        for key, v in examples.items():
            print("      e.g. generators %s signs %s -> %s" % (v[0], v[1], key))

    if "random" in sections:
        t0 = time.time()
        per = max(1, args.random // (8 * args.jobs))
        n_jobs = (args.random + per - 1) // per
        jobs = [(args.seed * 100003 + i, min(per, args.random - i * per), 4, 12) for i in range(n_jobs)]
        total, per_n, examples = collections.Counter(), collections.Counter(), {}
        for res, pn, ex in pool.imap_unordered(work_random, jobs):
            total.update(res)
            per_n.update(pn)
            for key, v in ex.items():
                if key not in examples or len(v[1]) < len(examples[key][1]):
                    examples[key] = v
        failures += report("random stabilizer states, 4 <= n <= 12 (dense check for n <= 6)", total, t0)
        print(
            "      per n (ok/failed): "
            + "  ".join("%d:%d/%d" % (n, per_n[(n, True)], per_n[(n, False)]) for n in range(4, 13))
        )
        for key, v in examples.items():
            print("      smallest example: generators %s signs %s -> %s" % (v[0], v[1], key))

    simple = [
        ("graph", work_graph_states, 250, "graph states (graph gauge and re-gauged, 1 <= n <= 12) return themselves, no gates"),
        ("lc", work_lc, 150, "lc_check on LC-equivalent pairs, 1 <= n <= 9"),
        ("qs", work_quantum_state, 100, "QuantumState 's'->'g', 'dm'->'g', stabilizer_to_graph(validate=False)"),
        ("compat", work_compat, 2500, "Hadamard positions vs the pre-repair choice, 1 <= n <= 12"),
    ]
    for idx, (name, worker, count, title) in enumerate(simple):
        if name not in sections:
            continue
        t0 = time.time()
        total = collections.Counter()
        for res in pool.imap_unordered(worker, [(args.seed + (17 + 14 * idx) * i, count) for i in range(8)]):
            total.update(res)
        failures += report(title, total, t0)

    pool.close()
    print("TOTAL FAILURES: %d" % failures)
    sys.exit(0 if failures == 0 else 1)


if __name__ == "__main__":
    main()
