"""Is the pair-sum shortcut complete on connected graphs? exhaustive n<=6 (same-orbit ordered pairs with dim>=5)."""
import sys, time, itertools, warnings
warnings.filterwarnings("ignore")
import numpy as np
sys.path.insert(0, '/repo')
from graphiq.backends import lc_equivalence_check as lce
from multiprocessing import Pool

def pairs(n): return [(i,j) for i in range(n) for j in range(i+1,n)]
def adj_from_bits(n, bits):
    A = np.zeros((n, n), dtype=int)
    for k,(i,j) in enumerate(pairs(n)):
        if (bits >> k) & 1: A[i, j] = A[j, i] = 1
    return A
def nbr_masks(n, bits):
    m=[0]*n
    for k,(i,j) in enumerate(pairs(n)):
        if (bits>>k)&1: m[i]|=1<<j; m[j]|=1<<i
    return m
def connected(n,bits):
    m=nbr_masks(n,bits); seen=1; front=1
    while front:
        nf=0
        for v in range(n):
            if (front>>v)&1: nf|=m[v]
        front=nf&~seen; seen|=nf
    return seen==(1<<n)-1
def lc(n,bits,v, PIDX):
    m=nbr_masks(n,bits)
    nb=[u for u in range(n) if (m[v]>>u)&1]
    for a in range(len(nb)):
        for b in range(a+1,len(nb)):
            bits^=1<<PIDX[(nb[a],nb[b])]
    return bits
def orbits(n, only_connected=True):
    PIDX={p:k for k,p in enumerate(pairs(n))}
    seen={}; orbs=[]
    for g in range(1<<len(PIDX)):
        if g in seen: continue
        if only_connected and not connected(n,g): continue
        orb=[g]; seen[g]=len(orbs); q=[g]
        while q:
            x=q.pop()
            for v in range(n):
                y=lc(n,x,v,PIDX)
                if y not in seen: seen[y]=len(orbs); orb.append(y); q.append(y)
        orbs.append(sorted(orb))
    return orbs
def gf2rank(C):
    rows=[int("".join(map(str,r)),2) for r in C]; basis=[]
    for r in rows:
        for b in basis: r=min(r,r^b)
        if r: basis.append(r)
    return len(basis)
def work(arg):
    n, orb, sub = arg
    bad=[]; cnt=0; big=0
    mats={g:adj_from_bits(n,g) for g in orb}
    for a in sub:
        for b in orb:
            cnt+=1
            C=lce._coeff_maker(mats[a],mats[b])
            d=4*n-gf2rank(C)
            if d>=5:
                big+=1
                yes,_=lce.is_lc_equivalent(mats[a],mats[b])
                if not yes: bad.append((n,a,b,d))
    return cnt,big,bad
if __name__=="__main__":
    n=int(sys.argv[1]); t=time.time()
    orbs=orbits(n)
    print("n",n,"connected orbits",len(orbs),"pairs",sum(len(o)**2 for o in orbs),flush=True)
    tasks=[]
    for o in orbs:
        for k in range(0,len(o),16): tasks.append((n,o,o[k:k+16]))
    with Pool(int(sys.argv[2]) if len(sys.argv)>2 else 8) as p:
        tot=0;big=0;bad=[]
        for c,b,bd in p.imap_unordered(work,tasks):
            tot+=c;big+=b;bad+=bd
    print("pairs",tot,"dim>=5",big,"false-no",len(bad),bad[:10],"t",time.time()-t)
