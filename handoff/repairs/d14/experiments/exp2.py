"""random / structured connected graphs, n up to 12 (and more): A ~LC B by random local complementations, must answer yes."""
import sys, time, warnings, random
warnings.filterwarnings("ignore")
import numpy as np
sys.path.insert(0, '/repo')
from graphiq.backends import lc_equivalence_check as lce
from multiprocessing import Pool
sys.path.insert(0, __import__('os').path.dirname(__import__('os').path.abspath(__file__)))
from exp1 import gf2rank

def lcomp(A,v):
    nb=np.nonzero(A[v])[0]
    B=A.copy()
    for a in nb:
        for b in nb:
            if a!=b: B[a,b]^=1
    return B
def is_conn(A):
    n=len(A); seen={0}; st=[0]
    while st:
        x=st.pop()
        for y in np.nonzero(A[x])[0]:
            if y not in seen: seen.add(int(y)); st.append(int(y))
    return len(seen)==n
def rand_tree(n,rng):
    A=np.zeros((n,n),dtype=int)
    for i in range(1,n):
        j=rng.randrange(i); A[i,j]=A[j,i]=1
    return A
def rand_dh(n,rng):
    # distance hereditary: pendant / true twin / false twin additions
    A=np.zeros((n,n),dtype=int)
    A[0,1]=A[1,0]=1
    for i in range(2,n):
        j=rng.randrange(i); k=rng.randrange(3)
        if k==0: A[i,j]=A[j,i]=1
        else:
            A[i,:i]=A[j,:i]; A[:i,i]=A[:i,j]
            if k==1: A[i,j]=A[j,i]=1
    return A
def rand_gnp(n,p,rng):
    while True:
        A=np.zeros((n,n),dtype=int)
        for i in range(n):
            for j in range(i+1,n):
                if rng.random()<p: A[i,j]=A[j,i]=1
        if is_conn(A): return A
def multipartite(parts):
    n=sum(parts); A=np.ones((n,n),dtype=int); s=0
    for p in parts:
        A[s:s+p,s:s+p]=0; s+=p
    return A
def gen(rng):
    n=rng.randrange(4,13)
    k=rng.randrange(6)
    if k==0: A=rand_tree(n,rng)
    elif k==1: A=rand_dh(n,rng)
    elif k==2: A=rand_gnp(n,rng.choice([0.15,0.25,0.4,0.6,0.85]),rng)
    elif k==3:
        parts=[]; r=n
        while r>0:
            p=rng.randrange(1,r+1); parts.append(p); r-=p
        A=multipartite(parts) if len(parts)>1 else rand_tree(n,rng)
    elif k==4:
        # tree plus few edges
        A=rand_tree(n,rng)
        for _ in range(rng.randrange(1,3)):
            i,j=rng.sample(range(n),2); A[i,j]=A[j,i]=1
    else:
        # dh plus one random edge toggle (keep connected)
        A=rand_dh(n,rng)
        i,j=rng.sample(range(n),2); A[i,j]^=1; A[j,i]^=1
        if not is_conn(A): A[i,j]^=1; A[j,i]^=1
    perm=list(range(n)); rng.shuffle(perm)
    A=A[np.ix_(perm,perm)]
    return k,A
def work(seed):
    rng=random.Random(seed)
    out=[]; stats={}
    for _ in range(200):
        k,A=gen(rng)
        n=len(A)
        B=A.copy()
        for _ in range(rng.randrange(0,3*n)):
            B=lcomp(B,rng.randrange(n))
        d=4*n-gf2rank(lce._coeff_maker(A,B))
        key=(k,min(d,9))
        stats[key]=stats.get(key,0)+1
        try:
            yes,_=lce.is_lc_equivalent(A,B)
        except Exception as e:
            out.append(("EXC",repr(e),A.tolist(),B.tolist())); continue
        if not yes: out.append(("NO",d,A.tolist(),B.tolist()))
    return stats,out
if __name__=="__main__":
    s0=int(sys.argv[1]); cnt=int(sys.argv[2]); t=time.time()
    S={}; bad=[]
    with Pool(6) as p:
        for st,o in p.imap_unordered(work,range(s0,s0+cnt)):
            for k,v in st.items(): S[k]=S.get(k,0)+v
            bad+=o
    print("stats (family,dim):",sorted(S.items()))
    print("bad",len(bad)); 
    for b in bad[:5]: print(b)
    print("t",time.time()-t)
