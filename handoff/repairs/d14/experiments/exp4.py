"""type patterns of the canonical basis w.r.t. the (<=2) hyperplanes of singular solutions, connected graphs, dim>=5"""
import sys, warnings, random, itertools, collections
warnings.filterwarnings("ignore")
import numpy as np
sys.path.insert(0, '/repo'); sys.path.insert(0, __import__('os').path.dirname(__import__('os').path.abspath(__file__)))
from graphiq.backends import lc_equivalence_check as lce
from multiprocessing import Pool
from exp2 import gen, lcomp
from exp3 import basis_of
def valid(v): return lce._is_valid_clifford(v.reshape(-1,1))
def work(seed):
    rng=random.Random(seed); pats=collections.Counter(); odd=[]
    for _ in range(60):
        k,A=gen(rng); n=len(A); B=A.copy()
        for _ in range(rng.randrange(0,3*n)): B=lcomp(B,rng.randrange(n))
        bs=basis_of(A,B)
        if bs is None or not (5<=len(bs)<=10): continue
        d=len(bs); M=np.array([b[:,0] for b in bs]).T
        vals={}
        for c in range(1<<d):
            coef=np.array([(c>>i)&1 for i in range(d)]); vals[c]=valid((M@coef)%2)
        cnt=sum(vals.values())
        # validity as function of coef: find functionals: valid iff phi1(c)=1 (and phi2(c)=1)
        # lambda candidates: try all pairs of functionals (as bitmasks l1,l2) s.t. valid(c) == (parity(c&l1)==1 and parity(c&l2)==1)
        par=lambda x: bin(x).count("1")&1
        found=None
        if cnt*2==(1<<d):
            for l1 in range(1,1<<d):
                if all(vals[c]==(par(c&l1)==1) for c in range(1<<d)): found=(l1,); break
        elif cnt*4==(1<<d):
            for l1 in range(1,1<<d):
                if any(vals[c] and par(c&l1)==0 for c in range(1<<d)): continue
                for l2 in range(l1+1,1<<d):
                    if all(vals[c]==(par(c&l1)==1 and par(c&l2)==1) for c in range(1<<d)): found=(l1,l2); break
                if found: break
        if found is None: odd.append((k,n,d,cnt)); continue
        if len(found)==1: pat=("half",bin(found[0]).count("1"))
        else: pat=("quarter",tuple(sorted((bin(found[0]).count("1"),bin(found[1]).count("1")))),bin(found[0]&found[1]).count("1"))
        pats[pat]+=1
    return pats,odd
if __name__=="__main__":
    P=collections.Counter(); O=[]
    with Pool(6) as p:
        for pats,odd in p.imap_unordered(work,range(int(sys.argv[1]),int(sys.argv[1])+int(sys.argv[2]))):
            P+=pats; O+=odd
    print("patterns (kind, weights of the functionals in free coordinates, overlap):")
    for k,v in sorted(P.items(),key=lambda kv:-kv[1]): print(" ",k,v)
    print("odd",O[:10])
