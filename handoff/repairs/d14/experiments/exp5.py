"""more adversarial connected families, 8 <= n <= 16: equivalent by construction -> must be yes"""
import sys, time, warnings, random
warnings.filterwarnings("ignore")
import numpy as np
sys.path.insert(0, '/repo'); sys.path.insert(0, __import__('os').path.dirname(__import__('os').path.abspath(__file__)))
from graphiq.backends import lc_equivalence_check as lce
from multiprocessing import Pool
from exp1 import gf2rank
from exp2 import lcomp, is_conn, rand_tree, rand_dh, multipartite
def caterpillar(n,rng):
    spine=rng.randrange(1,max(2,n//3)+1); A=np.zeros((n,n),dtype=int)
    for i in range(1,spine): A[i-1,i]=A[i,i-1]=1
    for v in range(spine,n):
        u=rng.randrange(spine); A[u,v]=A[v,u]=1
    return A
def cograph(n,rng):
    # random cotree: recursively union / join
    def build(vs):
        if len(vs)==1: return
        k=rng.randrange(1,len(vs)); L,R=vs[:k],vs[k:]
        build(L); build(R)
        if rng.random()<0.6:
            for a in L:
                for b in R: A[a,b]=A[b,a]=1
    A=np.zeros((n,n),dtype=int); vs=list(range(n)); rng.shuffle(vs); build(vs)
    return A
def threshold(n,rng):
    A=np.zeros((n,n),dtype=int)
    for i in range(1,n):
        if rng.random()<0.5: A[i,:i]=1; A[:i,i]=1
    return A
def blobs(n,rng):
    k=n//2; A=np.zeros((n,n),dtype=int)
    A[:k,:k]=1; A[k:,k:]=1; np.fill_diagonal(A,0)
    A[k-1,k]=A[k,k-1]=1
    return A
def bipartite(n,rng):
    k=rng.randrange(1,n); A=np.zeros((n,n),dtype=int); A[:k,k:]=1; A[k:,:k]=1
    # remove a few edges
    for _ in range(rng.randrange(0,3)):
        i=rng.randrange(k); j=rng.randrange(k,n); A[i,j]=A[j,i]=0
    return A
def cyc_pend(n,rng):
    c=rng.randrange(3,n); A=np.zeros((n,n),dtype=int)
    for i in range(c): A[i,(i+1)%c]=A[(i+1)%c,i]=1
    for v in range(c,n):
        u=rng.randrange(v); A[u,v]=A[v,u]=1
    return A
FAMS=[caterpillar,cograph,threshold,blobs,bipartite,cyc_pend,rand_tree,rand_dh]
def work(seed):
    rng=random.Random(seed); bad=[]; st={}
    for _ in range(60):
        n=rng.randrange(8,17); k=rng.randrange(len(FAMS))
        A=FAMS[k](n,rng)
        if not is_conn(A): continue
        perm=list(range(n)); rng.shuffle(perm); A=A[np.ix_(perm,perm)]
        B=A.copy()
        for _ in range(rng.randrange(0,3*n)): B=lcomp(B,rng.randrange(n))
        d=4*n-gf2rank(lce._coeff_maker(A,B))
        st[(FAMS[k].__name__,min(d,12))]=st.get((FAMS[k].__name__,min(d,12)),0)+1
        try: yes,_=lce.is_lc_equivalent(A,B)
        except Exception as e: bad.append(("EXC",repr(e),A.tolist(),B.tolist())); continue
        if not yes: bad.append(("NO",d,A.tolist(),B.tolist()))
    return st,bad
if __name__=="__main__":
    S={}; bad=[]; t=time.time()
    with Pool(5) as p:
        for st,b in p.imap_unordered(work,range(int(sys.argv[1]),int(sys.argv[1])+int(sys.argv[2]))):
            for k,v in st.items(): S[k]=S.get(k,0)+v
            bad+=b
    tot=sum(S.values()); big=sum(v for k,v in S.items() if k[1]>=5)
    print("cases",tot,"dim>=5",big,"bad",len(bad),"t",time.time()-t)
    fam={}
    for (f,d),v in S.items(): fam.setdefault(f,{})[d]=v
    for f in fam: print(" ",f,sorted(fam[f].items()))
    for b in bad[:5]: print(b)
