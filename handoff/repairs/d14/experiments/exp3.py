"""how robust is the shortcut on connected graphs? count valid pair sums / valid single basis vectors / valid fraction of V"""
import sys, time, warnings, random, itertools
warnings.filterwarnings("ignore")
import numpy as np
sys.path.insert(0, '/repo'); sys.path.insert(0, __import__('os').path.dirname(__import__('os').path.abspath(__file__)))
from graphiq.backends import lc_equivalence_check as lce
import graphiq.backends.stabilizer.functions.linalg as sl
from multiprocessing import Pool
from exp2 import gen, lcomp

def basis_of(A,B):
    n=len(A); c=lce._coeff_maker(A,B); red,_,last=sl.row_reduction(c,c*0)
    if last+1>=4*n: return None
    m=np.array([r for r in red if r.any()]); cols=lce._col_finder(m)
    return lce._solution_basis_finder(m,cols)
def work(seed):
    rng=random.Random(seed); rows=[]
    for _ in range(100):
        k,A=gen(rng); n=len(A); B=A.copy()
        for _ in range(rng.randrange(0,3*n)): B=lcomp(B,rng.randrange(n))
        bs=basis_of(A,B)
        if bs is None or len(bs)<5: continue
        d=len(bs)
        singles=sum(1 for b in bs if lce._is_valid_clifford(b))
        pairs=sum(1 for x,y in itertools.combinations(bs,2) if lce._is_valid_clifford((x+y)%2))
        # fraction of valid in V (exhaustive if d<=12)
        frac=None
        if d<=11:
            M=np.array([b[:,0] for b in bs]).T  # 4n x d
            cnt=0
            for c in range(1<<d):
                coef=np.array([(c>>i)&1 for i in range(d)])
                v=(M@coef)%2
                if lce._is_valid_clifford(v.reshape(-1,1)): cnt+=1
            frac=cnt/(1<<d)
        rows.append((k,n,d,singles,pairs,frac))
    return rows
if __name__=="__main__":
    s0=int(sys.argv[1]); cnt=int(sys.argv[2])
    rows=[]
    with Pool(6) as p:
        for r in p.imap_unordered(work,range(s0,s0+cnt)): rows+=r
    print("cases",len(rows))
    import collections
    byd=collections.defaultdict(list)
    for k,n,d,s,p_,f in rows: byd[d].append((p_,s,f,k,n))
    for d in sorted(byd):
        L=byd[d]; print("d",d,"cases",len(L),"min pairs",min(x[0] for x in L),"max singles",max(x[1] for x in L),"fracs",sorted(set(x[2] for x in L if x[2] is not None))[:8])
    worst=sorted(rows,key=lambda r:r[4])[:10]; print("fewest valid pairs:",worst)
