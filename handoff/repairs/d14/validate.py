#!/usr/bin/env python3
"""
Validation of the repair of D14 (is_lc_equivalent: false "no" on LC-equivalent graphs when the solution space has dimension >= 5).

    REPO=<path to a graphiq checkout> /venv/bin/python validate.py [--procs N] [--quick] [--n6-all]

Exit status 0 iff no failure was observed.  On the unrepaired repository it exits 1 (2K2 vs 2K2 is the first failure printed).

Ground truth never uses graphiq:
  * n <= 6: the LC orbit of every labelled graph, by breadth-first search over local complementations (toggle the pairs of
    distinct neighbours, by definition);
  * larger n: B is made from A by random local complementations (so "yes" is the only right answer), or differs from A in the
    connected components / in the multiset of cut ranks (so "no" is the only right answer).
Every "yes" is checked constructively, independently of how it was found: Q has invertible 2x2 blocks, satisfies the matrix
identity of Van den Nest et al. and the sequence returned by lc_graph_operations(A, Q), applied by definition, maps A to B.

Parts
  A  all ordered pairs of labelled graphs on n <= 4 vertices, both modes (3 seeds in random mode); n = 5: all 2^20 ordered
     pairs in deterministic mode (--quick: all same-orbit pairs + 20 000 random cross-orbit pairs), same-orbit pairs in random mode (sampled)
  B  n = 6, connected graphs: every ordered pair inside an LC orbit whose solution space has dimension >= 5 (the shortcut path)
     plus a random sample of the others and of cross-orbit pairs (--n6-all: every same-orbit ordered pair, 4.3 M calls)
  C  random sparse graphs, 7 <= n <= 16, connected or not: equivalent by construction -> yes (both modes); components or
     cut-rank invariants differ -> no
  D  the shortcut on connected graphs with large solution spaces (trees, distance-hereditary graphs, complete multipartite
     graphs, n <= 12): equivalent by construction -> yes
"""
import argparse
import itertools
import os
import random
import sys
import time
import warnings

warnings.filterwarnings("ignore")
REPO = os.environ.get("REPO", "/repo")
sys.path.insert(0, REPO)
import numpy as np  # noqa: E402
from multiprocessing import Pool  # noqa: E402

from graphiq.backends import lc_equivalence_check as lce  # noqa: E402


# ------------------------------------------------------------------------------------------------ graphs as bit masks
def pair_list(n):
    return [(i, j) for i in range(n) for j in range(i + 1, n)]


def adj_from_bits(n, bits):
    A = np.zeros((n, n), dtype=int)
    for k, (i, j) in enumerate(pair_list(n)):
        if (bits >> k) & 1:
            A[i, j] = A[j, i] = 1
    return A


def nbr_masks(n, bits):
    m = [0] * n
    for k, (i, j) in enumerate(pair_list(n)):
        if (bits >> k) & 1:
            m[i] |= 1 << j
            m[j] |= 1 << i
    return m


def connected_bits(n, bits):
    m = nbr_masks(n, bits)
    seen = front = 1
    while front:
        nf = 0
        for v in range(n):
            if (front >> v) & 1:
                nf |= m[v]
        front = nf & ~seen
        seen |= nf
    return seen == (1 << n) - 1


def lc_bits(n, bits, v, pidx):
    m = nbr_masks(n, bits)
    nb = [u for u in range(n) if (m[v] >> u) & 1]
    for a in range(len(nb)):
        for b in range(a + 1, len(nb)):
            bits ^= 1 << pidx[(nb[a], nb[b])]
    return bits


def orbits(n, only_connected=False):
    """-> (list of orbits (sorted lists of bit masks), dict graph -> orbit index)"""
    pidx = {p: k for k, p in enumerate(pair_list(n))}
    seen, orbs = {}, []
    for g in range(1 << len(pidx)):
        if g in seen or (only_connected and not connected_bits(n, g)):
            continue
        orb, queue = [g], [g]
        seen[g] = len(orbs)
        while queue:
            x = queue.pop()
            for v in range(n):
                y = lc_bits(n, x, v, pidx)
                if y not in seen:
                    seen[y] = len(orbs)
                    orb.append(y)
                    queue.append(y)
        orbs.append(sorted(orb))
    return orbs, seen


# ------------------------------------------------------------------------------------------------ definitions (numpy)
def lcomp(A, v):
    nb = np.nonzero(A[v])[0]
    B = A.copy()
    for a in nb:
        for b in nb:
            if a != b:
                B[a, b] ^= 1
    return B


def components(A):
    n = len(A)
    lab = list(range(n))
    for _ in range(n):
        for i in range(n):
            for j in range(n):
                if A[i, j]:
                    lab[i] = lab[j] = min(lab[i], lab[j])
    return sorted(sorted(i for i in range(n) if lab[i] == c) for c in set(lab))


def gf2_rank(M):
    rows = [int("".join(str(int(x) & 1) for x in r), 2) if len(r) else 0 for r in M]
    basis = []
    for r in rows:
        for b in basis:
            r = min(r, r ^ b)
        if r:
            basis.append(r)
    return len(basis)


def solution_dim(A, B):
    return 4 * len(A) - gf2_rank(lce._coeff_maker(A, B))


def solution_dim_bits(n, ma, mb):
    """the same dimension from neighbour bit masks (fast path for the 4.3 M ordered pairs of part B; cross-checked against
    `solution_dim` on a sample).  Equation (j, k): c_m gets th[m,j] th'[m,k], a_k gets th[j,k], d_j gets th'[j,k], b_j gets delta_jk"""
    basis = []
    rank = 0
    for j in range(n):
        for k in range(n):
            common = ma[j] & mb[k]
            r = 0
            for m in range(n):
                if (common >> m) & 1:
                    r |= 1 << (4 * m + 2)
            if (ma[j] >> k) & 1:
                r |= 1 << (4 * k)
            if (mb[j] >> k) & 1:
                r |= 1 << (4 * j + 3)
            if j == k:
                r |= 1 << (4 * j + 1)
            for b in basis:
                r = min(r, r ^ b)
            if r:
                basis.append(r)
                rank += 1
    return 4 * n - rank


def cut_rank_profile(A):
    """multiset of cut ranks over all vertex subsets of size <= 3 with the subset — an LC invariant (labelled)"""
    n = len(A)
    prof = []
    for k in (1, 2, 3):
        for S in itertools.combinations(range(n), k):
            T = [v for v in range(n) if v not in S]
            prof.append((S, gf2_rank(A[np.ix_(S, T)]) if T else 0))
    return prof


def certificate_ok(A, B, Q):
    """Q is a valid local Clifford from A to B and the returned complementation sequence maps A to B"""
    n = len(A)
    Q = np.asarray(Q)
    if Q.shape != (n, 2, 2) or not np.isin(Q, (0, 1)).all():
        return "shape"
    a, b, c, d = (np.diag(Q[:, i, j]) for i, j in ((0, 0), (0, 1), (1, 0), (1, 1)))
    if not all((Q[i, 0, 0] * Q[i, 1, 1] + Q[i, 0, 1] * Q[i, 1, 0]) % 2 == 1 for i in range(n)):
        return "singular block"
    # theta c theta' + a theta' + theta d + b = 0   (Van den Nest, Dehaene, De Moor, eq. for graph states; graphiq's index
    # convention: equation (j, k) = sum_m th[m,j] th'[m,k] c_m + th[j,k] a_k + th'[j,k] d_j + delta_jk b_j)
    lhs = (A.T @ c @ B + A @ a + d @ B + b) % 2
    if lhs.any():
        return "system not satisfied"
    try:
        seq = lce.lc_graph_operations(A, Q)
    except Exception as e:  # noqa: BLE001
        return f"lc_graph_operations raised {type(e).__name__}"
    G = A.copy()
    for v in seq:
        G = lcomp(G, int(v))
    if not np.array_equal(G, B):
        return "sequence does not reach the target"
    return None


def call(A, B, mode="deterministic", seed=0):
    try:
        yes, Q = lce.is_lc_equivalent(A.copy(), B.copy(), mode=mode, seed=seed)
        return bool(yes), Q, None
    except Exception as e:  # noqa: BLE001
        return None, None, f"{type(e).__name__}: {e}"


def judge(A, B, expect, mode="deterministic", seed=0, tag=""):
    """-> None | failure record"""
    yes, Q, err = call(A, B, mode, seed)
    rec = dict(tag=tag, mode=mode, seed=seed, A=A.tolist(), B=B.tolist())
    if err is not None:
        return dict(rec, what="exception", detail=err)
    if yes:
        bad = certificate_ok(A, B, Q)
        if bad:
            return dict(rec, what="invalid yes", detail=bad)
    if expect is not None and yes != expect:
        return dict(rec, what="false yes" if yes else "false no", detail=f"solution dimension {solution_dim(A, B)}")
    return None


# ------------------------------------------------------------------------------------------------ workers
def work_pairs(arg):
    n, items, mode, seed, tag = arg
    out, cnt = [], 0
    mats = {}
    for a, b, expect in items:
        for g in (a, b):
            if g not in mats:
                mats[g] = adj_from_bits(n, g)
        cnt += 1
        f = judge(mats[a], mats[b], expect, mode, seed, tag)
        if f:
            out.append(f)
    return cnt, out


def work_n6(arg):
    n, orb, sub, sample_rate, seed = arg
    rng = random.Random(seed)
    out, cnt, big = [], 0, 0
    mats = {g: adj_from_bits(n, g) for g in orb}
    masks = {g: nbr_masks(n, g) for g in orb}
    for a in sub:
        for b in orb:
            d = solution_dim_bits(n, masks[a], masks[b])
            if rng.random() < 0.001 and d != solution_dim(mats[a], mats[b]):
                out.append(dict(tag="validate.py self-check", what="dimension mismatch", detail="", mode="", seed=0, A=mats[a].tolist(), B=mats[b].tolist()))
            if d >= 5:
                big += 1
            elif rng.random() >= sample_rate:
                continue
            cnt += 1
            f = judge(mats[a], mats[b], True, tag=f"n6-connected dim={d}")
            if f:
                out.append(f)
    return cnt, big, out


def rand_sparse(n, rng):
    """random sparse graph: a few components, each a random tree plus a few extra edges (some isolated vertices)"""
    A = np.zeros((n, n), dtype=int)
    k = rng.randrange(1, max(2, n // 2))
    comp = [rng.randrange(k) for _ in range(n)]
    for c in range(k):
        vs = [v for v in range(n) if comp[v] == c]
        for t in range(1, len(vs)):
            u = vs[rng.randrange(t)]
            A[vs[t], u] = A[u, vs[t]] = 1
        for _ in range(rng.randrange(0, 3)):
            if len(vs) >= 2:
                u, w = rng.sample(vs, 2)
                A[u, w] = A[w, u] = 1
    return A


def rand_tree(n, rng):
    A = np.zeros((n, n), dtype=int)
    for i in range(1, n):
        j = rng.randrange(i)
        A[i, j] = A[j, i] = 1
    return A


def rand_dh(n, rng):
    A = np.zeros((n, n), dtype=int)
    A[0, 1] = A[1, 0] = 1
    for i in range(2, n):
        j, k = rng.randrange(i), rng.randrange(3)
        if k == 0:
            A[i, j] = A[j, i] = 1
        else:
            A[i, :i] = A[j, :i]
            A[:i, i] = A[:i, j]
            if k == 1:
                A[i, j] = A[j, i] = 1
    return A


def multipartite(parts):
    n = sum(parts)
    A = np.ones((n, n), dtype=int)
    s = 0
    for p in parts:
        A[s:s + p, s:s + p] = 0
        s += p
    return A


def shuffle(A, rng):
    perm = list(range(len(A)))
    rng.shuffle(perm)
    return A[np.ix_(perm, perm)]


def walk(A, rng, steps):
    B = A.copy()
    for _ in range(steps):
        B = lcomp(B, rng.randrange(len(A)))
    return B


def work_random(arg):
    seed, count, lo, hi = arg
    rng = random.Random(seed)
    out, cnt, stats = [], 0, {}
    for _ in range(count):
        n = rng.randrange(lo, hi + 1)
        A = rand_sparse(n, rng)
        B = walk(A, rng, rng.randrange(0, 3 * n))
        ncomp = len(components(A))
        d = solution_dim(A, B)
        key = ("C-yes", "disconnected" if ncomp > 1 else "connected", "dim>=5" if d >= 5 else "dim<5")
        stats[key] = stats.get(key, 0) + 1
        for mode in ("deterministic", "random"):
            cnt += 1
            f = judge(A, B, True, mode, seed=rng.randrange(3), tag=f"C sparse n={n} components={ncomp} dim={d}")
            if f:
                out.append(f)
        # an inequivalent partner: toggle one edge of B; "no" is certain when components or cut ranks differ
        i, j = rng.sample(range(n), 2)
        Cm = B.copy()
        Cm[i, j] ^= 1
        Cm[j, i] ^= 1
        if components(A) != components(Cm) or cut_rank_profile(A) != cut_rank_profile(Cm):
            cnt += 1
            stats[("C-no",)] = stats.get(("C-no",), 0) + 1
            f = judge(A, Cm, False, tag=f"C sparse-no n={n}")
            if f:
                out.append(f)
    return cnt, stats, out


def work_connected(arg):
    seed, count = arg
    rng = random.Random(seed)
    out, cnt, stats = [], 0, {}
    for _ in range(count):
        n = rng.randrange(5, 13)
        k = rng.randrange(4)
        if k == 0:
            A = rand_tree(n, rng)
        elif k == 1:
            A = rand_dh(n, rng)
        elif k == 2:
            parts, r = [], n
            while r > 0:
                p = rng.randrange(1, r + 1)
                parts.append(p)
                r -= p
            A = multipartite(parts) if len(parts) > 1 else rand_tree(n, rng)
        else:
            A = rand_tree(n, rng)
            for _ in range(rng.randrange(1, 3)):
                i, j = rng.sample(range(n), 2)
                A[i, j] = A[j, i] = 1
        A = shuffle(A, rng)
        B = walk(A, rng, rng.randrange(0, 3 * n))
        d = solution_dim(A, B)
        key = ("D", ("tree", "distance-hereditary", "multipartite", "tree+edges")[k], "dim>=5" if d >= 5 else "dim<5")
        stats[key] = stats.get(key, 0) + 1
        cnt += 1
        f = judge(A, B, True, tag=f"D connected family={k} n={n} dim={d}")
        if f:
            out.append(f)
    return cnt, stats, out


# ------------------------------------------------------------------------------------------------ main
def chunks(lst, k):
    for i in range(0, len(lst), k):
        yield lst[i:i + k]


def main():
    ap = argparse.ArgumentParser()
    ap.add_argument("--procs", type=int, default=8)
    ap.add_argument("--quick", action="store_true")
    ap.add_argument("--n6-all", action="store_true")
    ap.add_argument("--seed", type=int, default=1)
    args = ap.parse_args()
    rng = random.Random(args.seed)
    t0 = time.time()
    failures, total = [], 0
    repaired = hasattr(lce, "_connected_components")
    print(f"REPO={REPO} ({'repaired' if repaired else 'unrepaired'} is_lc_equivalent)", flush=True)

    def report(part, cnt, fs, extra=""):
        nonlocal total
        total += cnt
        failures.extend(fs)
        print(f"[{part}] calls={cnt} failures={len(fs)} {extra} t={time.time() - t0:.0f}s", flush=True)
        for f in fs[:3]:
            print("    ", {k: v for k, v in f.items() if k not in ("A", "B")}, "A=", f["A"], "B=", f["B"], flush=True)

    with Pool(args.procs) as pool:
        # ---- A: n <= 4 all ordered pairs, both modes
        for n in (1, 2, 3, 4):
            orbs, idx = orbits(n)
            N = 1 << (n * (n - 1) // 2)
            items = [(a, b, idx[a] == idx[b]) for a in range(N) for b in range(N)]
            tasks = [(n, ch, "deterministic", 0, f"A n={n}") for ch in chunks(items, 256)]
            for s in (0, 1, 2):
                tasks += [(n, ch, "random", s, f"A n={n} random") for ch in chunks(items, 256)]
            cnt, fs = 0, []
            for c, o in pool.imap_unordered(work_pairs, tasks):
                cnt += c
                fs += o
            report(f"A n={n} all ordered pairs, deterministic + random(3 seeds)", cnt, fs, f"orbits={len(orbs)}")
        # ---- A: n = 5
        n = 5
        orbs, idx = orbits(n)
        N = 1 << 10
        same = [(a, b, True) for o in orbs for a in o for b in o]
        if args.quick:
            cross = []
            while len(cross) < 20000:
                a, b = rng.randrange(N), rng.randrange(N)
                if idx[a] != idx[b]:
                    cross.append((a, b, False))
        else:
            cross = [(a, b, False) for a in range(N) for b in range(N) if idx[a] != idx[b]]
        tasks = [(n, ch, "deterministic", 0, "A n=5") for ch in chunks(same + cross, 1024)]
        rs = rng.sample(same, min(len(same), 10000))
        tasks += [(n, ch, "random", 1, "A n=5 random") for ch in chunks(rs, 1024)]
        cnt, fs = 0, []
        for c, o in pool.imap_unordered(work_pairs, tasks):
            cnt += c
            fs += o
        report("A n=5 " + ("same-orbit pairs + sampled cross pairs" if args.quick else "all 2^20 ordered pairs") + " + random mode sample",
               cnt, fs, f"orbits={len(orbs)} same-orbit-pairs={len(same)}")
        # ---- B: n = 6 connected
        n = 6
        orbs, idx = orbits(n, only_connected=True)
        rate = 1.0 if args.n6_all else (0.002 if args.quick else 0.02)
        tasks = [(n, o, sub, rate, rng.randrange(1 << 30)) for o in orbs for sub in chunks(o, 8)]
        cnt, big, fs = 0, 0, []
        for c, b, o in pool.imap_unordered(work_n6, tasks):
            cnt += c
            big += b
            fs += o
        report("B n=6 connected, same-orbit ordered pairs: all with dim>=5 + sample of the rest", cnt, fs,
               f"orbits={len(orbs)} same-orbit-pairs={sum(len(o) ** 2 for o in orbs)} dim>=5:{big}")
        allg = [g for o in orbs for g in o]
        cross = []
        while len(cross) < (2000 if args.quick else 20000):
            a, b = rng.choice(allg), rng.choice(allg)
            if idx[a] != idx[b]:
                cross.append((a, b, False))
        cnt, fs = 0, []
        for c, o in pool.imap_unordered(work_pairs, [(n, ch, "deterministic", 0, "B n=6 cross") for ch in chunks(cross, 500)]):
            cnt += c
            fs += o
        report("B n=6 connected, cross-orbit sample", cnt, fs)
        # ---- C: random sparse n <= 16
        k = 8 if args.quick else 40
        cnt, fs, stats = 0, [], {}
        for c, st, o in pool.imap_unordered(work_random, [(rng.randrange(1 << 30), 25, 7, 16) for _ in range(k)]):
            cnt += c
            fs += o
            for kk, v in st.items():
                stats[kk] = stats.get(kk, 0) + v
        report("C random sparse 7<=n<=16", cnt, fs, str(sorted(stats.items())))
        # ---- D: connected, large solution spaces
        k = 8 if args.quick else 60
        cnt, fs, stats = 0, [], {}
        for c, st, o in pool.imap_unordered(work_connected, [(rng.randrange(1 << 30), 50) for _ in range(k)]):
            cnt += c
            fs += o
            for kk, v in st.items():
                stats[kk] = stats.get(kk, 0) + v
        report("D connected structured 5<=n<=12", cnt, fs, str(sorted(stats.items())))

    print(f"TOTAL calls={total} failures={len(failures)} wall={time.time() - t0:.0f}s")
    if failures:
        kinds = {}
        for f in failures:
            kinds[f["what"]] = kinds.get(f["what"], 0) + 1
        print("FAILURES by kind:", kinds)
        sys.exit(1)
    print("OK: no failure")
    sys.exit(0)


if __name__ == "__main__":
    main()
