#!/usr/bin/env python
"""
Validation of TimeReversedSolver on targets with and without isolated vertices (defect D3).

Run from the root of any graphiq tree (clean or patched):

    OMP_NUM_THREADS=1 PYTHONPATH=$PWD /venv/bin/python REPAIR/validate.py [--quick] [--jobs N]
                                                      [--dump FILE] [--baseline FILE]

For every target (all labelled graphs on <= 5 vertices: 1+2+8+64+1024, and 2000 seeded random graphs with 6 <= n <= 12, half sparse /
half dense), given as graph and as stabilizer QuantumState, with the solver's compiler being StabilizerCompiler (and DensityMatrixCompiler
when photons + emitters <= 6) and measurement_determinism 0, 1, "probabilistic", it checks that

  * the solver returns, the reported score is 0, the circuit validate()s, has one photon per vertex;
  * the circuit does not depend on the representation of the target / compiler / determinism setting;
  * every photon's first operation is an emission CNOT emitter -> photon, no photon is the target of any other two-qubit gate except
    the classically controlled X of a MeasurementCNOTandReset, and the number of emitters equals the value computed here independently:
    max( max_k h(k),  max over isolated vertices j of h(j) + 1 ),  h(k) = GF(2) rank of adj[:k, k:];
  * compiling the circuit with the StabilizerCompiler (and the DensityMatrixCompiler for <= 6 qubits) under forced-0, forced-1, seeded
    random outcomes, and under EVERY outcome combination when the circuit has <= 4 measurements, gives exactly |G> on the photons and
    |0> on every emitter: signed stabilizer groups are compared both with graphiq's canonical_form and with an independent signed
    GF(2) canonicaliser, density matrices with a dense numpy reference.

--diff CLEAN PATCHED only compares two --dump files.  --dump FILE writes a fingerprint (operation sequence + openQASM text) of every returned circuit; --baseline FILE compares, for every
target WITHOUT an isolated vertex, the fingerprint with the one in FILE (made with --dump on the clean tree): they must be identical.

Exit status 0 iff there is no failure.
"""
import argparse
import hashlib
import itertools
import json
import multiprocessing as mp
import sys
import warnings

import numpy as np

warnings.filterwarnings("ignore")

DM_MAX = 6  # photons + emitters for which the DensityMatrixCompiler is exercised
EXHAUSTIVE_MAX = 4  # number of measurements up to which every outcome combination is run


# ----------------------------------------------------------------------------------------------------------------------
# targets
# ----------------------------------------------------------------------------------------------------------------------
def all_adj(n):
    pairs = list(itertools.combinations(range(n), 2))
    for mask in range(1 << len(pairs)):
        a = np.zeros((n, n), dtype=int)
        for i, (u, v) in enumerate(pairs):
            if mask >> i & 1:
                a[u, v] = a[v, u] = 1
        yield a


def random_adj(rng, n, p):
    a = np.triu((rng.random((n, n)) < p).astype(int), 1)
    return a + a.T


def targets(quick):
    out = []
    for n in range(1, 5 if quick else 6):
        out += [("all", a) for a in all_adj(n)]
    rng = np.random.default_rng(20260930)
    n_rand = 100 if quick else 1000
    for _ in range(n_rand):  # sparse: isolated vertices are frequent
        n = int(rng.integers(6, 13))
        out.append(("sparse", random_adj(rng, n, rng.uniform(0.03, 0.3))))
    for _ in range(n_rand):  # dense
        n = int(rng.integers(6, 13))
        out.append(("dense", random_adj(rng, n, rng.uniform(0.3, 0.95))))
    return out


def has_isolated(key):
    n, e = key.split(":")
    n = int(n)
    deg = [0] * n
    for (i, j), b in zip(itertools.combinations(range(n), 2), e):
        deg[i] += int(b)
        deg[j] += int(b)
    return 0 in deg


def bits(a):
    n = a.shape[0]
    return f"{n}:" + "".join(str(int(a[i, j])) for i in range(n) for j in range(i + 1, n))


# ----------------------------------------------------------------------------------------------------------------------
# independent reference computations
# ----------------------------------------------------------------------------------------------------------------------
def gf2_rank(m):
    m = np.array(m, dtype=int) % 2
    r = 0
    rows, cols = m.shape
    for c in range(cols):
        piv = [i for i in range(r, rows) if m[i, c]]
        if not piv:
            continue
        m[[r, piv[0]]] = m[[piv[0], r]]
        for i in range(rows):
            if i != r and m[i, c]:
                m[i] ^= m[r]
        r += 1
        if r == rows:
            break
    return r


def expected_emitters(adj):
    n = adj.shape[0]
    h = [0] + [gf2_rank(adj[:k, k:]) if 0 < k < n else 0 for k in range(1, n + 1)]  # h[k]: cut after k photons
    need = max(h)
    for j in range(n):
        if adj[j].sum() == 0:
            need = max(need, h[j] + 1)
    return need, max(h)


_G = {  # exponent of i in W(a) W(b) = i^g W(a+b), W(x,z) in {I, X, Y, Z} (Aaronson-Gottesman)
    (0, 0): lambda x, z: 0,
    (1, 1): lambda x, z: z - x,
    (1, 0): lambda x, z: z * (2 * x - 1),
    (0, 1): lambda x, z: x * (1 - 2 * z),
}


def pauli_mul(p, q):
    """(x, z, sign bit) * (x, z, sign bit) for commuting Hermitian Paulis"""
    (x1, z1, r1), (x2, z2, r2) = p, q
    e = 2 * r1 + 2 * r2
    for a, b, c, d in zip(x1, z1, x2, z2):
        e += _G[(a, b)](c, d)
    e %= 4
    assert e in (0, 2), "non-commuting generators"
    return tuple(a ^ c for a, c in zip(x1, x2)), tuple(b ^ d for b, d in zip(z1, z2)), e // 2


def signed_canon(x, z, r):
    """reduced row echelon form (columns ordered x_0..x_{n-1}, z_0..z_{n-1}) of a signed stabilizer generator list; a
    canonical representative of the signed group"""
    rows = [(tuple(int(v) % 2 for v in x[i]), tuple(int(v) % 2 for v in z[i]), int(r[i]) % 2) for i in range(len(r))]
    n = len(rows[0][0])
    piv = 0
    for c in range(2 * n):
        get = (lambda row: row[0][c]) if c < n else (lambda row: row[1][c - n])
        cand = [i for i in range(piv, len(rows)) if get(rows[i])]
        if not cand:
            continue
        rows[piv], rows[cand[0]] = rows[cand[0]], rows[piv]
        for i in range(len(rows)):
            if i != piv and get(rows[i]):
                rows[i] = pauli_mul(rows[piv], rows[i])
        piv += 1
    assert piv == len(rows), "dependent generators"
    return tuple(rows)


def target_tableau_arrays(adj, ne):
    n = adj.shape[0]
    m = n + ne
    x = np.zeros((m, m), dtype=int)
    z = np.zeros((m, m), dtype=int)
    x[:n, :n] = np.eye(n, dtype=int)
    z[:n, :n] = adj
    z[n:, n:] = np.eye(ne, dtype=int)
    return x, z, np.zeros(m, dtype=int)


def dense_target(adj, ne):
    """|G><G| (x) |0..0><0..0|, qubit 0 most significant"""
    n = adj.shape[0]
    psi = np.zeros(2**n)
    for b in range(2**n):
        v = [(b >> (n - 1 - k)) & 1 for k in range(n)]
        s = sum(v[i] * v[j] for i in range(n) for j in range(i + 1, n) if adj[i, j])
        psi[b] = (-1) ** s
    psi /= np.sqrt(2**n)
    e0 = np.zeros(2**ne)
    e0[0] = 1
    full = np.kron(psi, e0)
    return np.outer(full, full)


# ----------------------------------------------------------------------------------------------------------------------
# scripted measurement outcomes
# ----------------------------------------------------------------------------------------------------------------------
class Script:
    def __init__(self, outcomes):
        self.outcomes = list(outcomes)
        self.used = 0

    def _next(self):
        v = self.outcomes[self.used] if self.used < len(self.outcomes) else 0
        self.used += 1
        return int(v)

    def randint(self, *a, **k):
        return self._next()

    def choice(self, a, p=None, **k):
        v = self._next()
        if p is not None and p[v] < 1e-12:
            v = 1 - v
        return a[v]


def compile_with(compiler_cls, circuit, det, script=None, seed=None):
    import numpy.random as npr

    comp = compiler_cls()
    comp.measurement_determinism = det
    saved = (npr.randint, npr.choice)
    try:
        if script is not None:
            npr.randint, npr.choice = script.randint, script.choice
        elif seed is not None:
            npr.seed(seed)
        return comp.compile(circuit)
    finally:
        npr.randint, npr.choice = saved


# ----------------------------------------------------------------------------------------------------------------------
# one target
# ----------------------------------------------------------------------------------------------------------------------
def make_target(adj, rep):
    import networkx as nx

    from graphiq.state import QuantumState

    n = adj.shape[0]
    g = nx.Graph()
    g.add_nodes_from(range(n))
    g.add_edges_from((i, j) for i in range(n) for j in range(i + 1, n) if adj[i, j])
    st = QuantumState(g, rep_type="g")
    if rep == "s":
        st.convert_representation("s")
    return st


def fingerprint(circuit):
    from graphiq.circuit import ops

    head = f"ne={circuit.n_emitters},np={circuit.n_photons},nc={circuit.n_classical}"
    wires = {}  # the topological order of independent operations is not canonical -> operation sequence per wire
    for op in circuit.sequence():
        if isinstance(op, (ops.Input, ops.Output)):
            continue
        inner = "+".join(o.__name__ for o in op.operations) if isinstance(op, ops.OneQubitGateWrapper) else ""
        tok = f"{type(op).__name__}[{inner}]{list(op.q_registers_type)}{list(op.q_registers)}{list(op.c_registers)}"
        for kd, rg in zip(op.q_registers_type, op.q_registers):
            wires.setdefault(f"{kd}{rg}", []).append(tok)
    return head + "|" + json.dumps(wires, sort_keys=True) + "|" + circuit.to_openqasm()


def structure_problems(circuit, adj):
    from graphiq.circuit import ops

    probs = []
    n = adj.shape[0]
    if circuit.n_photons != n:
        return [f"photon-count:{circuit.n_photons}!={n}"]
    need, hmax = expected_emitters(adj)
    if circuit.n_emitters != need:
        probs.append(f"emitter-count:{circuit.n_emitters}!=expected{need}(maxh={hmax})")
    for p in range(n):
        node = f"p{p}_in"
        first = True
        while True:
            out = [e for e in circuit.dag.out_edges(node, keys=True) if e[2] == f"p{p}"]
            if not out:
                break
            node = out[0][1]
            op = circuit.dag.nodes[node]["op"]
            if isinstance(op, ops.Output):
                if first:
                    probs.append(f"photon{p}:never-emitted")
                break
            if first:
                if not (type(op) is ops.CNOT and op.control_type == "e" and op.target_type == "p" and op.target == p):
                    probs.append(f"photon{p}:first-op-is-{type(op).__name__}")
                first = False
            elif isinstance(op, ops.OneQubitGateWrapper):
                pass
            elif type(op) is ops.MeasurementCNOTandReset and op.control_type == "e" and op.target == p:
                pass
            else:
                probs.append(f"photon{p}:unexpected-op-{type(op).__name__}")
    return probs


def check_compiled(circuit, adj, fails):
    from graphiq.backends.density_matrix.compiler import DensityMatrixCompiler
    from graphiq.backends.stabilizer.compiler import StabilizerCompiler
    from graphiq.backends.stabilizer.functions.stabilizer import canonical_form
    from graphiq.backends.stabilizer.tableau import StabilizerTableau
    from graphiq.circuit import ops

    ne, n = circuit.n_emitters, circuit.n_photons
    x, z, r = target_tableau_arrays(adj, ne)
    want_own = signed_canon(x, z, r)
    want_lib = canonical_form(StabilizerTableau([x.copy(), z.copy()], r.copy()))
    n_meas = sum(isinstance(op, ops.MeasurementCNOTandReset) for op in circuit.sequence())
    runs = [(0, None, None), (1, None, None)] + [("probabilistic", None, s) for s in (1, 2, 3)]
    if n_meas <= EXHAUSTIVE_MAX:
        runs += [("probabilistic", bits_, None) for bits_ in itertools.product((0, 1), repeat=n_meas)]
    n_compiles = 0
    for det, outcomes, seed in runs:
        tag = f"det={det}" + (f",outcomes={''.join(map(str, outcomes))}" if outcomes is not None else "")
        for name, cls in (("stab", StabilizerCompiler), ("dm", DensityMatrixCompiler)):
            if name == "dm" and n + ne > DM_MAX:
                continue
            try:
                st = compile_with(cls, circuit, det, Script(outcomes) if outcomes is not None else None, seed)
                n_compiles += 1
                if name == "stab":
                    tab = st.rep_data.data.to_stabilizer()
                    got_own = signed_canon(tab.x_matrix, tab.z_matrix, tab.phase)
                    got_lib = canonical_form(tab.copy())
                    ok = got_own == want_own and got_lib == want_lib
                else:
                    ok = np.allclose(np.asarray(st.rep_data.data), dense_target(adj, ne), atol=1e-9)
            except Exception as e:  # noqa: BLE001
                fails.append(f"compile-raises:{name}:{tag}:{type(e).__name__}")
                continue
            if not ok:
                fails.append(f"wrong-state:{name}:{tag}")
    return n_compiles


def check_target(job):
    family, adj = job
    from graphiq.backends.density_matrix.compiler import DensityMatrixCompiler
    from graphiq.backends.stabilizer.compiler import StabilizerCompiler
    from graphiq.metrics import Infidelity
    from graphiq.solvers.time_reversed_solver import TimeReversedSolver

    n = adj.shape[0]
    iso = bool((adj.sum(axis=0) == 0).any())
    fails, prints = [], set()
    n_solves = n_compiles = 0
    need, _ = expected_emitters(adj)
    circuit0 = None
    for rep in ("g", "s"):
        for cname, cls in (("stab", StabilizerCompiler), ("dm", DensityMatrixCompiler)):
            if cname == "dm" and n + need > DM_MAX:
                continue
            for det in (0, 1, "probabilistic"):
                tag = f"rep={rep},solver-compiler={cname},det={det}"
                try:
                    np.random.seed(7)
                    target = make_target(adj, rep)
                    comp = cls()
                    comp.measurement_determinism = det
                    solver = TimeReversedSolver(target=target, metric=Infidelity(target), compiler=comp)
                    solver.solve()
                    score, circuit = solver.result
                    n_solves += 1
                except Exception as e:  # noqa: BLE001
                    fails.append(f"solve-raises:{type(e).__name__}:{tag}")
                    continue
                if not abs(float(score)) < 1e-9:
                    fails.append(f"score-not-zero:{score}:{tag}")
                try:
                    circuit.validate()
                except Exception as e:  # noqa: BLE001
                    fails.append(f"circuit-invalid:{type(e).__name__}:{tag}")
                    continue
                prints.add(fingerprint(circuit))
                if circuit0 is None:
                    circuit0 = circuit
    fp = None
    if len(prints) > 1:
        fails.append("circuit-depends-on-representation-or-compiler")
    if circuit0 is not None:
        fp = hashlib.sha1(sorted(prints)[0].encode()).hexdigest()
        fails += structure_problems(circuit0, adj)
        if circuit0.n_photons == n:
            n_compiles = check_compiled(circuit0, adj, fails)
    return {
        "key": bits(adj),
        "family": family,
        "iso": iso,
        "fails": fails,
        "fp": fp,
        "n_solves": n_solves,
        "n_compiles": n_compiles,
        "ne": None if circuit0 is None else circuit0.n_emitters,
        "extra_emitter": None if circuit0 is None else circuit0.n_emitters - expected_emitters(adj)[1],
    }


def main():
    ap = argparse.ArgumentParser()
    ap.add_argument("--quick", action="store_true", help="graphs on <= 4 vertices and 200 random graphs")
    ap.add_argument("--jobs", type=int, default=8)
    ap.add_argument("--dump", help="write circuit fingerprints to this JSON file")
    ap.add_argument("--baseline", help="fingerprints of the clean tree (made with --dump) to compare with")
    ap.add_argument("--diff", nargs=2, metavar=("CLEAN", "PATCHED"), help="only compare two --dump files and exit")
    args = ap.parse_args()

    if args.diff:
        a, b = (json.load(open(f)) for f in args.diff)
        no_iso = [k for k in b if not has_isolated(k)]
        differing = [k for k in no_iso if a.get(k) is None or a[k] != b[k]]
        print(f"targets without isolated vertex: {len(no_iso)}; circuits differing between the two trees (or missing): {len(differing)}")
        iso = [k for k in b if has_isolated(k)]
        print(f"targets with isolated vertex: {len(iso)}; with a circuit in CLEAN: {sum(a.get(k) is not None for k in iso)}, in PATCHED: {sum(b[k] is not None for k in iso)}")
        sys.exit(1 if differing else 0)

    jobs = targets(args.quick)
    with mp.Pool(args.jobs) as pool:
        results = pool.map(check_target, jobs, chunksize=8)

    base = json.load(open(args.baseline)) if args.baseline else None
    stats = {}
    n_fail_targets = {True: 0, False: 0}
    classes = {}
    compared = differing = missing = 0
    examples = []
    for res in results:
        s = stats.setdefault((res["family"], res["iso"]), {"targets": 0, "failed": 0, "solves": 0, "compiles": 0, "extra": 0})
        s["targets"] += 1
        s["solves"] += res["n_solves"]
        s["compiles"] += res["n_compiles"]
        s["extra"] += 1 if res["extra_emitter"] else 0
        if base is not None and not res["iso"]:
            if res["key"] not in base or base[res["key"]] is None:
                missing += 1
                res["fails"].append("baseline-has-no-circuit")
            else:
                compared += 1
                if base[res["key"]] != res["fp"]:
                    differing += 1
                    res["fails"].append("circuit-differs-from-baseline")
        if res["fails"]:
            s["failed"] += 1
            n_fail_targets[res["iso"]] += 1
            for f in {f.split(":")[0] + (":" + f.split(":")[1] if f.startswith(("solve-raises", "compile-raises")) else "") for f in res["fails"]}:
                classes[f] = classes.get(f, 0) + 1
            if len(examples) < 10:
                examples.append((res["key"], res["fails"][:3]))
    if args.dump:
        json.dump({res["key"]: res["fp"] for res in results}, open(args.dump, "w"))

    print(f"{'family':8} {'isolated-vertex':15} {'targets':>8} {'failed':>7} {'solves':>8} {'compiles':>9} {'emitters>max-h':>17}")
    for (family, iso), s in sorted(stats.items()):
        print(f"{family:8} {str(iso):15} {s['targets']:8d} {s['failed']:7d} {s['solves']:8d} {s['compiles']:9d} {s['extra']:17d}")
    print(f"targets: {len(results)}; failing targets with an isolated vertex: {n_fail_targets[True]}; without: {n_fail_targets[False]}")
    if classes:
        print("failure classes (number of targets):", json.dumps(classes, sort_keys=True))
        for key, fl in examples:
            print("  e.g.", key, fl)
    if base is not None:
        print(f"circuits compared with the baseline (targets without isolated vertex): {compared}, differing: {differing}, missing in baseline: {missing}")
    total = n_fail_targets[True] + n_fail_targets[False]
    print("RESULT:", "PASS" if total == 0 else f"FAIL ({total} targets)")
    sys.exit(0 if total == 0 else 1)


if __name__ == "__main__":
    main()
