#!/usr/bin/env python
"""
Validation of graphiq.utils.circuit_comparison.circuit_is_isomorphic / remove_redundant_circuits (defect D22').

Run on any graphiq tree:

    cd <tree> && PYTHONPATH=<tree> python <path>/validate.py [--random N] [--seed S]

Exit status 0 iff no failure was found.

The comparison code is the system under test.  Two oracles, both independent of it:

  SYN  two circuits are *the same up to a renaming of registers within each type* (emitters among emitters, photons among
       photons, classical among classical) iff some such renaming makes, register by register, the sequences of executed
       operations (kind, and role of the register: control / target / measured-into) identical.  Brute force over all renamings.
  SEM  two circuits *compile to the same state* up to a renaming of the quantum registers iff the distributions over final
       stabilizer states (graphiq's StabilizerCompiler, every outcome of every random measurement enumerated, states
       canonicalised by an own GF(2) elimination with signs) agree under some type-preserving qubit permutation.

Checks, for every pair (a, b) (compared as remove_redundant_circuits compares: copies, unwrap_nodes, remove_identity):
  A  no false-equal     : isomorphic(a, b)  =>  SYN(a, b)   and   SEM(a, b)
  B  no false-distinct  : SYN(a, b)  =>  isomorphic(a, b)            (renamed copies stay equal)
  C  symmetry, reflexivity on copies
  D  remove_redundant_circuits keeps, for every dropped circuit, a kept circuit that is SYN-equal to it, and keeps no two
     SYN-equal circuits
Pairs: ALL ordered pairs of circuits with <= 2 operations over a 10-letter alphabet on 2 emitters + 1 classical register
(12 321 pairs), the D22 witnesses, and N random structured pairs (renamed copies, swapped control/target, different
continuation after a two-register operation, one operation changed, unrelated) on up to 6 quantum registers.
"""
import argparse
import itertools
import random
import sys
import warnings

import numpy as np

warnings.filterwarnings("ignore")

import graphiq.circuit.ops as ops  # noqa: E402
from graphiq.circuit.circuit_dag import CircuitDAG  # noqa: E402
from graphiq.utils.circuit_comparison import circuit_is_isomorphic, remove_redundant_circuits  # noqa: E402

G1 = ["Hadamard", "SigmaX", "SigmaY", "SigmaZ", "Phase", "PhaseDagger", "Identity"]
G2 = ["CNOT", "CZ"]
GC = ["ClassicalCNOT", "ClassicalCZ", "MeasurementCNOTandReset"]
E0, E1 = ("e", 0), ("e", 1)


# ------------------------------------------------------------------------------------------------ circuits as tuples
def mk_op(t):
    k = t[0]
    if k == "one":
        return getattr(ops, t[1])(register=t[2][1], reg_type=t[2][0])
    if k == "wrap":
        return ops.OneQubitGateWrapper([getattr(ops, n) for n in t[1]], register=t[2][1], reg_type=t[2][0])
    if k == "ctrl":
        return getattr(ops, t[1])(control=t[2][1], control_type=t[2][0], target=t[3][1], target_type=t[3][0])
    if k == "cctrl":
        return getattr(ops, t[1])(control=t[2][1], control_type=t[2][0], target=t[3][1], target_type=t[3][0], c_register=t[4])
    if k == "meas":
        return ops.MeasurementZ(register=t[1][1], reg_type=t[1][0], c_register=t[2])
    raise ValueError(t)


def build(c):
    ne, np_, nc, ts = c
    circ = CircuitDAG(n_emitter=ne, n_photon=np_, n_classical=nc)
    for t in ts:
        circ.add(mk_op(t))
    return circ


def show(c):
    def q(x):
        return f"{x[0]}{x[1]}"

    out = []
    for t in c[3]:
        if t[0] == "one":
            out.append(f"{t[1]}({q(t[2])})")
        elif t[0] == "wrap":
            out.append(f"Wrap[{'.'.join(t[1])}]({q(t[2])})")
        elif t[0] == "ctrl":
            out.append(f"{t[1]}({q(t[2])}>{q(t[3])})")
        elif t[0] == "cctrl":
            out.append(f"{t[1]}({q(t[2])}>{q(t[3])};c{t[4]})")
        else:
            out.append(f"MeasurementZ({q(t[1])};c{t[2]})")
    return f"[e={c[0]} p={c[1]} c={c[2]}] " + "; ".join(out)


def flat(ts):
    """what the compilers execute: wrappers unwrapped (last listed acts first), identities dropped"""
    out = []
    for t in ts:
        if t[0] == "wrap":
            out += [("one", g, t[2]) for g in reversed(t[1]) if g != "Identity"]
        elif not (t[0] == "one" and t[1] == "Identity"):
            out.append(t)
    return out


def op_regs(t):
    k = t[0]
    if k in ("one", "wrap"):
        return [t[2]]
    if k == "ctrl":
        return [t[2], t[3]]
    if k == "cctrl":
        return [t[2], t[3], ("c", t[4])]
    return [t[1], ("c", t[2])]


def wires(ts):
    w = {}
    for t in flat(ts):
        for r in op_regs(t):
            w.setdefault(r, []).append(t)
    return w


def rename_ops(ts, pe, pp, pc):
    def q(x):
        return (x[0], pe[x[1]] if x[0] == "e" else pp[x[1]])

    out = []
    for t in ts:
        if t[0] in ("one", "wrap"):
            out.append((t[0], t[1], q(t[2])))
        elif t[0] == "ctrl":
            out.append((t[0], t[1], q(t[2]), q(t[3])))
        elif t[0] == "cctrl":
            out.append((t[0], t[1], q(t[2]), q(t[3]), pc[t[4]]))
        else:
            out.append((t[0], q(t[1]), pc[t[2]]))
    return out


# ------------------------------------------------------------------------------------------------ oracle SYN
def syn_equal(c1, c2):
    if c1[:3] != c2[:3]:
        return False
    ne, np_, nc = c1[:3]
    w2 = wires(c2[3])
    for pe in itertools.permutations(range(ne)):
        for pp in itertools.permutations(range(np_)):
            for pc in itertools.permutations(range(nc)):
                if wires(rename_ops(c1[3], pe, pp, pc)) == w2:
                    return True
    return False


# ------------------------------------------------------------------------------------------------ oracle SEM
def _g(x1, z1, x2, z2):
    if x1 == 0 and z1 == 0:
        return 0
    if x1 == 1 and z1 == 1:
        return z2 - x2
    if x1 == 1 and z1 == 0:
        return z2 * (2 * x2 - 1)
    return x2 * (1 - 2 * z2)


def _mul(a, b):
    xa, za, pa = a
    xb, zb, pb = b
    g = sum(_g(int(p), int(q), int(r), int(s)) for p, q, r, s in zip(xa, za, xb, zb))
    return (xa ^ xb, za ^ zb, (pa + pb + g) % 4)


def span_canon(x, z, r):
    x = np.asarray(x).astype(int) % 2
    z = np.asarray(z).astype(int) % 2
    m, n = x.shape
    rows = [(x[i].copy(), z[i].copy(), 2 * int(r[i]) % 4) for i in range(m)]
    piv = 0
    for j in range(n):
        for w in (0, 1):
            sel = None
            for i in range(piv, m):
                if (rows[i][0][j] if w == 0 else rows[i][1][j]) == 1:
                    sel = i
                    break
            if sel is None:
                continue
            rows[piv], rows[sel] = rows[sel], rows[piv]
            for i in range(m):
                if i != piv and (rows[i][0][j] if w == 0 else rows[i][1][j]) == 1:
                    rows[i] = _mul(rows[piv], rows[i])
            piv += 1
    return tuple((tuple(a.tolist()), tuple(b.tolist()), p // 2) for a, b, p in rows)


class _Scripted:
    def __init__(self, bits):
        self.bits, self.used = list(bits), 0

    def __call__(self, *a, **k):
        b = self.bits[self.used] if self.used < len(self.bits) else 0
        self.used += 1
        return b


def _compile_once(circ, bits):
    from graphiq.backends.stabilizer.compiler import StabilizerCompiler

    comp = StabilizerCompiler()
    comp.measurement_determinism = "probabilistic"
    sc = _Scripted(bits)
    saved = np.random.randint
    np.random.randint = sc
    try:
        st = comp.compile(circ)
    finally:
        np.random.randint = saved
    return st.rep_data.data, sc.used


def state_distribution(circ, max_branches=256):
    dist, stack, n_br = {}, [()], 0
    while stack:
        bits = stack.pop()
        tab, used = _compile_once(circ, bits)
        if used > len(bits):
            stack += [bits + (0,), bits + (1,)]
            continue
        n_br += 1
        if n_br > max_branches:
            return None
        n = tab.n_qubits
        t = np.asarray(tab.table).astype(int)
        key = (n, span_canon(t[n:, :n], t[n:, n:], np.asarray(tab.phase)[n:]))
        dist[key] = dist.get(key, 0.0) + 2.0 ** (-len(bits))
    return dist


def _perm_key(key, perm):
    n, rows = key
    x = np.zeros((len(rows), n), dtype=int)
    z = np.zeros((len(rows), n), dtype=int)
    r = np.zeros(len(rows), dtype=int)
    for i, (xr, zr, s) in enumerate(rows):
        for k in range(n):
            x[i, perm[k]], z[i, perm[k]] = xr[k], zr[k]
        r[i] = s
    return (n, span_canon(x, z, r))


def sem_equal(c1, c2):
    """True / False / None (undecided: too many measurement branches)"""
    if c1[:2] != c2[:2]:
        return False
    d1, d2 = state_distribution(build(c1)), state_distribution(build(c2))
    if d1 is None or d2 is None:
        return None
    ne, np_ = c1[:2]
    for pp in itertools.permutations(range(np_)):
        for pe in itertools.permutations(range(ne)):
            perm = list(pp) + [np_ + k for k in pe]  # compiled qubit order: photons first, then emitters
            d1p = {}
            for k, p in d1.items():
                kk = _perm_key(k, perm)
                d1p[kk] = d1p.get(kk, 0.0) + p
            if set(d1p) == set(d2) and all(abs(d1p[k] - d2[k]) < 1e-9 for k in d2):
                return True
    return False


# ------------------------------------------------------------------------------------------------ system under test
def iso(c1, c2):
    x, y = build(c1), build(c2)
    for c in (x, y):
        c.unwrap_nodes()
        c.remove_identity()
    return bool(circuit_is_isomorphic(x, y))


# ------------------------------------------------------------------------------------------------ generators
def random_q(rng, ne, np_):
    k = rng.randrange(ne + np_)
    return ("e", k) if k < ne else ("p", k - ne)


def random_op(rng, ne, np_, nc):
    k = rng.choices(["one", "wrap", "ctrl", "cctrl", "meas"], [0.30, 0.12, 0.33, 0.13, 0.12])[0]
    if k in ("ctrl", "cctrl") and ne + np_ < 2:
        k = "one"
    if k == "one":
        return ("one", rng.choice(G1), random_q(rng, ne, np_))
    if k == "wrap":
        return ("wrap", tuple(rng.choice(G1) for _ in range(rng.choice([1, 2, 3]))), random_q(rng, ne, np_))
    a = random_q(rng, ne, np_)
    if k == "meas":
        return ("meas", a, rng.randrange(nc))
    b = random_q(rng, ne, np_)
    while b == a:
        b = random_q(rng, ne, np_)
    return ("ctrl", rng.choice(G2), a, b) if k == "ctrl" else ("cctrl", rng.choice(GC), a, b, rng.randrange(nc))


def random_circuit(rng, max_q=4, max_ops=10):
    ne = rng.randrange(1, max_q)
    np_ = rng.randrange(0, max_q + 1 - ne)
    nc = rng.randrange(1, 3)
    ts = []
    for _ in range(rng.randrange(0, max_ops + 1)):
        t = random_op(rng, ne, np_, nc)
        if t[0] in ("meas", "cctrl") and sum(1 for x in ts if x[0] in ("meas", "cctrl")) >= 4:
            t = ("one", rng.choice(G1), random_q(rng, ne, np_))
        ts.append(t)
    return (ne, np_, nc, ts)


def renamed(rng, c):
    pe, pp, pc = list(range(c[0])), list(range(c[1])), list(range(c[2]))
    rng.shuffle(pe), rng.shuffle(pp), rng.shuffle(pc)
    return (c[0], c[1], c[2], rename_ops(c[3], pe, pp, pc))


def swapped_roles(rng, c):
    idx = [i for i, t in enumerate(c[3]) if t[0] in ("ctrl", "cctrl")]
    if not idx:
        return None
    i = rng.choice(idx)
    t = c[3][i]
    ts = list(c[3])
    ts[i] = (t[0], t[1], t[3], t[2]) + tuple(t[4:])
    return (c[0], c[1], c[2], ts)


def tail_variation(rng, c):
    """same circuit, different continuation of the two wires after a two-register operation (where D22 is blind)"""
    idx = [i for i, t in enumerate(c[3]) if t[0] in ("ctrl", "cctrl")]
    if not idx:
        return None
    i = rng.choice(idx)
    a, b = c[3][i][2], c[3][i][3]
    g1, g2 = rng.choice(G1[:-1]), rng.choice(G1[:-1])
    ts = list(c[3])
    return ((c[0], c[1], c[2], ts[:i + 1] + [("one", g1, a), ("one", g2, b)] + ts[i + 1:]),
            (c[0], c[1], c[2], ts[:i + 1] + [("one", g2, a), ("one", g1, b)] + ts[i + 1:]))


def one_changed(rng, c):
    ts = list(c[3])
    if ts and rng.random() < 0.8:
        ts[rng.randrange(len(ts))] = random_op(rng, c[0], c[1], c[2])
    else:
        ts.insert(rng.randrange(len(ts) + 1), random_op(rng, c[0], c[1], c[2]))
    return (c[0], c[1], c[2], ts)


def exhaustive_pairs():
    al = [("one", "Hadamard", E0), ("one", "Hadamard", E1), ("one", "Identity", E0), ("wrap", ("Hadamard",), E0),
          ("ctrl", "CNOT", E0, E1), ("ctrl", "CNOT", E1, E0), ("ctrl", "CZ", E0, E1),
          ("cctrl", "ClassicalCNOT", E0, E1, 0), ("cctrl", "ClassicalCNOT", E1, E0, 0), ("meas", E0, 0)]
    circs = [(2, 0, 1, list(w)) for n in (0, 1, 2) for w in itertools.product(al, repeat=n)]
    return [("exhaustive", a, b) for a in circs for b in circs]


WITNESSES = [
    ("D22 wire continuity",
     (2, 0, 0, [("ctrl", "CNOT", E1, E0), ("one", "Hadamard", E0), ("ctrl", "CNOT", E1, E0), ("ctrl", "CNOT", E1, E0)]),
     (2, 0, 0, [("ctrl", "CNOT", E1, E0), ("one", "Hadamard", E0), ("ctrl", "CNOT", E1, E0), ("ctrl", "CNOT", E0, E1)])),
    ("D22' classical control roles",
     (2, 0, 1, [("one", "Hadamard", E0), ("cctrl", "ClassicalCNOT", E1, E0, 0)]),
     (2, 0, 1, [("one", "Hadamard", E0), ("cctrl", "ClassicalCNOT", E0, E1, 0)])),
]


# ------------------------------------------------------------------------------------------------ checks
def main():
    ap = argparse.ArgumentParser()
    ap.add_argument("--random", type=int, default=3000)
    ap.add_argument("--lists", type=int, default=150)
    ap.add_argument("--seed", type=int, default=1)
    ap.add_argument("--no-exhaustive", action="store_true")
    a = ap.parse_args()
    rng = random.Random(a.seed)
    fails = {"false-equal(SYN)": 0, "false-equal(SEM)": 0, "false-distinct": 0, "asymmetric": 0, "not-reflexive": 0,
             "filter": 0, "witness": 0}
    shown = {k: 0 for k in fails}

    def fail(k, msg):
        fails[k] += 1
        if shown[k] < 3:
            shown[k] += 1
            print(f"FAIL {k}: {msg}")

    for name, c1, c2 in WITNESSES:
        r, s, m = iso(c1, c2), syn_equal(c1, c2), sem_equal(c1, c2)
        print(f"witness {name}: isomorphic={r} SYN={s} SEM={m}")
        if r and not (s and m):
            fail("witness", f"{name}: {show(c1)}  vs  {show(c2)}")

    pairs = [] if a.no_exhaustive else exhaustive_pairs()
    while len(pairs) < (0 if a.no_exhaustive else 12321) + a.random:
        c = random_circuit(rng) if rng.random() < 0.8 else random_circuit(rng, max_q=6, max_ops=20)
        w = rng.random()
        if w < 0.10:
            pairs.append(("copy", c, c))
        elif w < 0.35:
            pairs.append(("renamed", c, renamed(rng, c)))
        elif w < 0.50:
            d = swapped_roles(rng, c)
            if d:
                pairs.append(("roles-swapped", c, d))
        elif w < 0.75:
            p = tail_variation(rng, c)
            if p:
                pairs.append(("tail-variation", p[0], p[1]))
        elif w < 0.90:
            pairs.append(("one-op-changed", c, one_changed(rng, c)))
        else:
            d = random_circuit(rng)
            pairs.append(("random", c, (c[0], c[1], c[2], d[3]) if d[:3] <= c[:3] and d[0] <= c[0] and d[1] <= c[1] and d[2] <= c[2] else d))
    n_eq = n_sem = 0
    for kind, c1, c2 in pairs:
        r = iso(c1, c2)
        small = c1[0] + c1[1] <= 5 and c1[2] <= 3
        s = syn_equal(c1, c2) if small else None
        if iso(c2, c1) != r:
            fail("asymmetric", f"{kind}: {show(c1)}  vs  {show(c2)}")
        if kind in ("copy", "renamed") and not r:
            fail("false-distinct" if kind == "renamed" else "not-reflexive", f"{kind}: {show(c1)}  vs  {show(c2)}")
        if s is not None:
            if r and not s:
                fail("false-equal(SYN)", f"{kind}: {show(c1)}  vs  {show(c2)}")
            if s and not r:
                fail("false-distinct", f"{kind}: {show(c1)}  vs  {show(c2)}")
        if r:
            n_eq += 1
            if kind != "exhaustive" or s is False:
                m = sem_equal(c1, c2)
                n_sem += 1
                if m is False:
                    fail("false-equal(SEM)", f"{kind}: {show(c1)}  vs  {show(c2)}")
    print(f"pairs={len(pairs)} reported-equal={n_eq} state-oracle-evaluated={n_sem}")

    for _ in range(a.lists):
        base = [random_circuit(rng, max_q=3, max_ops=6) for _ in range(rng.randrange(1, 4))]
        lst = []
        for _ in range(rng.randrange(2, 8)):
            c = rng.choice(base)
            w = rng.random()
            lst.append(c if w < 0.3 else renamed(rng, c) if w < 0.6 else (swapped_roles(rng, c) or c) if w < 0.8 else one_changed(rng, c))
        objs = [build(c) for c in lst]
        kept = remove_redundant_circuits(objs)
        kept_idx = [i for i, o in enumerate(objs) if any(o is k for k in kept)]
        for i, c in enumerate(lst):
            if i not in kept_idx and not any(syn_equal(lst[k], c) for k in kept_idx):
                fail("filter", "dropped a circuit that is not a renaming of any kept one: " + show(c))
        for i, j in itertools.combinations(kept_idx, 2):
            if syn_equal(lst[i], lst[j]):
                fail("filter", "kept two circuits that are renamings of each other: " + show(lst[i]) + "  |  " + show(lst[j]))
    print("failures:", {k: v for k, v in fails.items()})
    sys.exit(1 if any(fails.values()) else 0)


if __name__ == "__main__":
    main()
