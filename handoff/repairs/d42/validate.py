#!/usr/bin/env python
"""
Validation of graphiq.backends.stabilizer.functions.stabilizer.inverse_circuit (defect D42).

Run on any graphiq tree:

    cd <tree> && OMP_NUM_THREADS=1 PYTHONPATH=<tree> python REPAIR/validate.py [options]

Exit status 0 iff no failure was found.  Prints failure counts per check and per qubit number.

Everything that is used as an oracle here is implemented independently of graphiq
(own Pauli algebra derived from 2x2 matrices, own Aaronson-Gottesman simulator, own dense simulator);
graphiq is only used as the system under test (inverse_circuit, run_circuit, clifford_from_stabilizer,
fidelity).

Checks, for every stabilizer tableau T (n generators, arbitrary gauge and signs):
  A  inverse_circuit(T) returns exactly the |0...0> tableau (x = 0, z = I, phase = 0) and does not raise
  B  graphiq's run_circuit applied to T (as StabilizerTableau) with the returned gate list gives |0...0>
  C  the independent tableau simulator applied to T with the returned gate list gives |0...0>
  D  (n <= 6) the independent dense simulator applied to |T> with the returned gate list gives |0...0>
  E  clifford_from_stabilizer(T) is a valid Clifford tableau whose stabilizer group is the one of T, and
     run_circuit on that CliffordTableau with the gate list gives |0...0>
  F  fidelity(T, T) == 1
  G  (pairs, n <= 5) fidelity(a, b) == fidelity(b, a) == dense |<a|b>|^2
"""
import argparse
import itertools
import sys
import time
import warnings
from collections import Counter
from multiprocessing import Pool

import numpy as np

warnings.filterwarnings("ignore")

import graphiq.backends.stabilizer.functions.stabilizer as sfs  # noqa: E402
import graphiq.backends.stabilizer.functions.transformation as transform  # noqa: E402
import graphiq.backends.stabilizer.functions.metric as sfm  # noqa: E402
import graphiq.backends.stabilizer.functions.rep_conversion as conversion  # noqa: E402
from graphiq.backends.stabilizer.tableau import StabilizerTableau  # noqa: E402
from graphiq.backends.stabilizer.clifford_tableau import CliffordTableau  # noqa: E402

# --------------------------------------------------------------------------------------
# independent Pauli algebra
# --------------------------------------------------------------------------------------
_I2 = np.eye(2, dtype=complex)
_X = np.array([[0, 1], [1, 0]], dtype=complex)
_Y = np.array([[0, -1j], [1j, 0]], dtype=complex)
_Z = np.array([[1, 0], [0, -1]], dtype=complex)
_P1 = {(0, 0): _I2, (1, 0): _X, (1, 1): _Y, (0, 1): _Z}

# phase table: P(a) P(b) = i^k P(a xor b), derived numerically from the 2x2 matrices
_PH = np.zeros((2, 2, 2, 2), dtype=int)
for (_xa, _za), _A in _P1.items():
    for (_xb, _zb), _B in _P1.items():
        _C = _P1[(_xa ^ _xb, _za ^ _zb)]
        _prod = _A @ _B
        for _k in range(4):
            if np.allclose(_prod, (1j**_k) * _C):
                _PH[_xa, _za, _xb, _zb] = _k
                break
        else:
            raise AssertionError


class Stab:
    """n Hermitian Pauli generators (-1)^r * P_1 x ... x P_n, rows of (x | z)."""

    def __init__(self, x, z, r):
        self.x = np.array(x, dtype=int) % 2
        self.z = np.array(z, dtype=int) % 2
        self.r = np.array(r, dtype=int) % 2
        self.n = self.x.shape[1]

    def copy(self):
        return Stab(self.x.copy(), self.z.copy(), self.r.copy())

    @staticmethod
    def zero(n):
        return Stab(np.zeros((n, n), int), np.eye(n, dtype=int), np.zeros(n, int))

    @staticmethod
    def from_labels(labels):
        n = len(labels[0]) - 1
        x = np.zeros((len(labels), n), int)
        z = np.zeros((len(labels), n), int)
        r = np.zeros(len(labels), int)
        for i, lab in enumerate(labels):
            r[i] = 1 if lab[0] == "-" else 0
            for j, c in enumerate(lab[1:]):
                x[i, j] = c in "XY"
                z[i, j] = c in "YZ"
        return Stab(x, z, r)

    def labels(self):
        out = []
        for i in range(self.x.shape[0]):
            s = "-" if self.r[i] else "+"
            for j in range(self.n):
                s += "IXZY"[self.x[i, j] + 2 * self.z[i, j]]
            out.append(s)
        return out

    # row operations (do not change the state) -----------------------------------------
    def rowmult(self, src, dst):
        """row dst <- row src * row dst"""
        k = int(_PH[self.x[src], self.z[src], self.x[dst], self.z[dst]].sum()) % 4
        assert k in (0, 2), "generators do not commute"
        self.r[dst] = (self.r[dst] + self.r[src] + k // 2) % 2
        self.x[dst] ^= self.x[src]
        self.z[dst] ^= self.z[src]

    def rowswap(self, a, b):
        for m in (self.x, self.z):
            m[[a, b]] = m[[b, a]]
        self.r[[a, b]] = self.r[[b, a]]

    # gates (Heisenberg picture, P -> U P U^dagger) ---------------------------------------
    def h(self, q):
        self.r ^= self.x[:, q] & self.z[:, q]
        self.x[:, q], self.z[:, q] = self.z[:, q].copy(), self.x[:, q].copy()

    def s(self, q):  # S = diag(1, i):  X -> Y, Y -> -X
        self.r ^= self.x[:, q] & self.z[:, q]
        self.z[:, q] ^= self.x[:, q]

    def sdg(self, q):
        self.s(q)
        self.s(q)
        self.s(q)

    def xg(self, q):
        self.r ^= self.z[:, q]

    def zg(self, q):
        self.r ^= self.x[:, q]

    def yg(self, q):
        self.r ^= self.x[:, q] ^ self.z[:, q]

    def cnot(self, c, t):
        self.r ^= self.x[:, c] & self.z[:, t] & (self.x[:, t] ^ self.z[:, c] ^ 1)
        self.x[:, t] ^= self.x[:, c]
        self.z[:, c] ^= self.z[:, t]

    def cz(self, c, t):
        self.h(t)
        self.cnot(c, t)
        self.h(t)

    def run(self, circ):
        for op in circ:
            g = op[0]
            if g == "H":
                self.h(op[1])
            elif g == "P":
                self.s(op[1])
            elif g == "P_dag":
                self.sdg(op[1])
            elif g == "X":
                self.xg(op[1])
            elif g == "Y":
                self.yg(op[1])
            elif g == "Z":
                self.zg(op[1])
            elif g == "I":
                pass
            elif g == "CNOT":
                self.cnot(op[1], op[2])
            elif g == "CZ":
                self.cz(op[1], op[2])
            else:
                raise ValueError(op)
        return self

    # canonical key of the stabilizer group (own RREF with sign tracking) ------------------
    def key(self):
        s = self.copy()
        n = s.n
        m = s.x.shape[0]
        row = 0
        for col in range(2 * n):
            mat, c = (s.x, col) if col < n else (s.z, col - n)
            piv = [i for i in range(row, m) if mat[i, c]]
            if not piv:
                continue
            s.rowswap(row, piv[0])
            for i in range(m):
                if i != row and mat[i, c]:
                    s.rowmult(row, i)
            row += 1
            if row == m:
                break
        return (row, s.x.tobytes(), s.z.tobytes(), s.r.tobytes())

    def is_valid_state(self):
        n = self.n
        if self.x.shape[0] != n:
            return False
        comm = (self.x @ self.z.T + self.z @ self.x.T) % 2
        if comm.any():
            return False
        return self.key()[0] == n

    def is_zero_state(self):
        """the group is exactly <Z_1, ..., Z_n> with all + signs"""
        if self.x.any() or self.r.any():
            return False
        return gf2_rank(self.z) == self.n

    def to_graphiq(self):
        return StabilizerTableau([self.x.copy(), self.z.copy()], self.r.copy())

    def to_graphiq_clifford(self):
        """CliffordTableau whose stabilizer half is this state (destabilizers are not used by fidelity)"""
        ct = CliffordTableau(self.n)
        ct.stabilizer_x = self.x.copy()
        ct.stabilizer_z = self.z.copy()
        ph = np.zeros(2 * self.n, int)
        ph[self.n :] = self.r
        ct.phase = ph
        return ct

    @staticmethod
    def from_graphiq(t):
        return Stab(np.array(t.x_matrix), np.array(t.z_matrix), np.array(t.phase))


def gf2_rank(m):
    m = np.array(m, dtype=int) % 2
    rank = 0
    rows, cols = m.shape
    for c in range(cols):
        piv = [i for i in range(rank, rows) if m[i, c]]
        if not piv:
            continue
        m[[rank, piv[0]]] = m[[piv[0], rank]]
        for i in range(rows):
            if i != rank and m[i, c]:
                m[i] ^= m[rank]
        rank += 1
    return rank


# --------------------------------------------------------------------------------------
# independent dense simulator (qubit 0 = leftmost tensor factor)
# --------------------------------------------------------------------------------------
def pauli_matrix(xrow, zrow, sign):
    m = np.array([[1.0 + 0j]])
    for xb, zb in zip(xrow, zrow):
        m = np.kron(m, _P1[(int(xb), int(zb))])
    return (-1) ** int(sign) * m


def dense_state(st, rng):
    n = st.n
    for _ in range(20):
        v = rng.normal(size=2**n) + 1j * rng.normal(size=2**n)
        for i in range(n):
            v = 0.5 * (v + pauli_matrix(st.x[i], st.z[i], st.r[i]) @ v)
        nv = np.linalg.norm(v)
        if nv > 1e-6:
            return v / nv
    raise AssertionError("not a stabilizer state (projector is zero)")


_G1 = {
    "H": np.array([[1, 1], [1, -1]], dtype=complex) / np.sqrt(2),
    "P": np.array([[1, 0], [0, 1j]], dtype=complex),
    "P_dag": np.array([[1, 0], [0, -1j]], dtype=complex),
    "X": _X,
    "Y": _Y,
    "Z": _Z,
    "I": _I2,
}


def dense_run(v, circ, n):
    psi = v.reshape([2] * n)
    for op in circ:
        g = op[0]
        if g in _G1:
            q = op[1]
            psi = np.moveaxis(np.tensordot(_G1[g], psi, axes=([1], [q])), 0, q)
        elif g in ("CNOT", "CZ"):
            c, t = op[1], op[2]
            psi = psi.copy()
            idx = [slice(None)] * n
            idx[c] = 1
            sub = psi[tuple(idx)]  # view on control = 1, axes without c
            tt = t if t < c else t - 1
            u = _X if g == "CNOT" else _Z
            psi[tuple(idx)] = np.moveaxis(np.tensordot(u, sub, axes=([1], [tt])), 0, tt)
        else:
            raise ValueError(op)
    return psi.reshape(-1)


# --------------------------------------------------------------------------------------
# generators of test states
# --------------------------------------------------------------------------------------
def random_state(n, rng, depth=None):
    """random Clifford circuit on |0..0> (independent simulator)"""
    st = Stab.zero(n)
    depth = depth if depth is not None else int(rng.integers(0, 12 * n + 1))
    for _ in range(depth):
        g = rng.integers(0, 4 if n > 1 else 3)
        if g == 0:
            st.h(int(rng.integers(n)))
        elif g == 1:
            st.s(int(rng.integers(n)))
        elif g == 2:
            q = int(rng.integers(n))
            [st.xg, st.zg, st.yg][int(rng.integers(3))](q)
        else:
            c, t = rng.choice(n, size=2, replace=False)
            st.cnot(int(c), int(t))
    return st


def regauge(st, rng, nops=None):
    """random row swaps / row products: same state, arbitrary (non canonical) generating set"""
    st = st.copy()
    n = st.n
    nops = nops if nops is not None else int(rng.integers(0, 4 * n + 1))
    for _ in range(nops):
        if n == 1:
            break
        a, b = rng.choice(n, size=2, replace=False)
        if rng.integers(2):
            st.rowswap(int(a), int(b))
        else:
            st.rowmult(int(a), int(b))
    return st


def all_states(n):
    """all stabilizer states of n qubits, by closure of |0..0> under H, S, CNOT (+ Paulis)"""
    start = Stab.zero(n)
    seen = {start.key(): start}
    frontier = [start]
    while frontier:
        new = []
        for st in frontier:
            succ = []
            for q in range(n):
                for name in ("h", "s", "xg", "zg"):
                    t = st.copy()
                    getattr(t, name)(q)
                    succ.append(t)
            for c, t_ in itertools.permutations(range(n), 2):
                t = st.copy()
                t.cnot(c, t_)
                succ.append(t)
            for t in succ:
                k = t.key()
                if k not in seen:
                    seen[k] = t
                    new.append(t)
        frontier = new
    return list(seen.values())


def all_group_elements(st):
    """all 2^n - 1 non-identity elements of the group as single-row Stabs data (x, z, r)"""
    n = st.n
    elems = []
    for mask in range(1, 2**n):
        acc = Stab(np.zeros((1, n), int), np.zeros((1, n), int), np.zeros(1, int))
        for i in range(n):
            if (mask >> i) & 1:
                tmp = Stab(
                    np.vstack([st.x[i], acc.x[0]]),
                    np.vstack([st.z[i], acc.z[0]]),
                    np.array([st.r[i], acc.r[0]]),
                )
                tmp.rowmult(0, 1)
                acc = Stab(tmp.x[1:2], tmp.z[1:2], tmp.r[1:2])
        elems.append((mask, acc.x[0].copy(), acc.z[0].copy(), int(acc.r[0])))
    return elems


def all_generating_sets(st, ordered):
    """all bases (ordered or unordered) of the stabilizer group"""
    n = st.n
    elems = all_group_elements(st)
    out = []
    it = itertools.permutations(elems, n) if ordered else itertools.combinations(elems, n)
    for combo in it:
        masks = np.array([[(c[0] >> i) & 1 for i in range(n)] for c in combo])
        if gf2_rank(masks) < n:
            continue
        out.append(
            Stab(
                np.array([c[1] for c in combo]),
                np.array([c[2] for c in combo]),
                np.array([c[3] for c in combo]),
            )
        )
    return out


# --------------------------------------------------------------------------------------
# the checks
# --------------------------------------------------------------------------------------
CHECKS = "ABCDEFG"


def check_state(st, rng, dense_max=6):
    """returns list of failed check letters (with a short reason)"""
    n = st.n
    fails = []
    try:
        out, circ = sfs.inverse_circuit(st.to_graphiq())
        circ = [tuple(int(a) if not isinstance(a, str) else a for a in op) for op in circ]
    except Exception as e:  # noqa: BLE001
        return [("A", "raised %s" % type(e).__name__)], None
    # A
    if not (
        not np.any(out.x_matrix)
        and np.array_equal(out.z_matrix, np.eye(n, dtype=int))
        and not np.any(out.phase)
    ):
        fails.append(("A", "returned tableau is not |0..0>"))
    # B
    try:
        res = transform.run_circuit(st.to_graphiq(), list(circ))
        if not Stab.from_graphiq(res).is_zero_state():
            fails.append(("B", "graphiq run_circuit does not give |0..0>"))
    except Exception as e:  # noqa: BLE001
        fails.append(("B", "raised %s" % type(e).__name__))
    # C
    if not st.copy().run(circ).is_zero_state():
        fails.append(("C", "independent tableau simulation does not give |0..0>"))
    # D
    if n <= dense_max:
        v = dense_run(dense_state(st, rng), circ, n)
        if abs(abs(v[0]) ** 2 - 1) > 1e-9:
            fails.append(("D", "dense simulation |<0|psi>|^2 = %.4f" % abs(v[0]) ** 2))
    # E
    try:
        ct = conversion.clifford_from_stabilizer(st.to_graphiq())
        ok = Stab.from_graphiq(ct.to_stabilizer()).key() == st.key()
        tab = np.array(ct.table)
        nn = n
        omega = np.block(
            [[np.zeros((nn, nn), int), np.eye(nn, dtype=int)], [np.eye(nn, dtype=int), np.zeros((nn, nn), int)]]
        )
        ok = ok and np.array_equal((tab @ omega @ tab.T) % 2, omega)
        res = transform.run_circuit(CliffordTableau(ct), list(circ))
        ok = ok and Stab.from_graphiq(res.to_stabilizer()).is_zero_state()
        if not ok:
            fails.append(("E", "clifford_from_stabilizer wrong"))
    except Exception as e:  # noqa: BLE001
        fails.append(("E", "raised %s" % type(e).__name__))
    # F
    try:
        f = sfm.fidelity(st.to_graphiq_clifford(), st.to_graphiq_clifford())
        if f != 1:
            fails.append(("F", "fidelity(a,a) = %r" % f))
    except Exception as e:  # noqa: BLE001
        fails.append(("F", "raised %s" % type(e).__name__))
    return fails, circ


def check_pair(a, b, rng):
    n = a.n
    fails = []
    va, vb = dense_state(a, rng), dense_state(b, rng)
    exact = abs(np.vdot(va, vb)) ** 2
    try:
        fab = sfm.fidelity(a.to_graphiq_clifford(), b.to_graphiq_clifford())
        fba = sfm.fidelity(b.to_graphiq_clifford(), a.to_graphiq_clifford())
        if abs(fab - fba) > 1e-9 or abs(fab - exact) > 1e-9:
            fails.append(("G", "fidelity %r / %r, dense %.6f" % (fab, fba, exact)))
    except Exception as e:  # noqa: BLE001
        fails.append(("G", "raised %s" % type(e).__name__))
    return fails


# --------------------------------------------------------------------------------------
# work units (for multiprocessing)
# --------------------------------------------------------------------------------------
def _unit_random(args):
    n, count, seed = args
    rng = np.random.default_rng(seed)
    res = Counter()
    examples = []
    for _ in range(count):
        st = regauge(random_state(n, rng), rng)
        assert st.is_valid_state()
        fails, _ = check_state(st, rng)
        res[("n", n)] += 1
        if fails:
            res[("failed", n)] += 1
            for f, _why in fails:
                res[(f, n)] += 1
            if len(examples) < 2:
                examples.append((st.labels(), fails))
    return res, examples


def _unit_pairs(args):
    n, count, seed = args
    rng = np.random.default_rng(seed)
    res = Counter()
    examples = []
    for _ in range(count):
        a = regauge(random_state(n, rng), rng)
        mode = rng.integers(3)
        if mode == 0:
            b = regauge(random_state(n, rng), rng)
        elif mode == 1:  # a few gates away from a: overlaps 1, 1/2, 1/4, 0 are all likely
            b = a.copy()
            for _k in range(int(rng.integers(0, 4))):
                g = rng.integers(4 if n > 1 else 3)
                q = int(rng.integers(n))
                if g == 0:
                    b.h(q)
                elif g == 1:
                    b.s(q)
                elif g == 2:
                    [b.xg, b.zg, b.yg][int(rng.integers(3))](q)
                else:
                    c, t = rng.choice(n, size=2, replace=False)
                    b.cnot(int(c), int(t))
            b = regauge(b, rng)
        else:  # same group up to signs
            b = a.copy()
            b.r = rng.integers(0, 2, size=n)
            b = regauge(b, rng)
        fails = check_pair(a, b, rng)
        res[("pairs", n)] += 1
        if fails:
            res[("failed", n)] += 1
            res[("G", n)] += 1
            if len(examples) < 2:
                examples.append((a.labels(), b.labels(), fails))
    return res, examples


def _unit_exhaustive(args):
    n, states, per_state, seed = args
    rng = np.random.default_rng(seed)
    res = Counter()
    examples = []
    for st in states:
        if per_state == "ordered":
            gens = all_generating_sets(st, ordered=True)
        else:
            gens = []
            for g in all_generating_sets(st, ordered=False):
                for _ in range(per_state):
                    perm = rng.permutation(n)
                    gens.append(Stab(g.x[perm], g.z[perm], g.r[perm]))
        res[("states", n)] += 1
        for g in gens:
            assert g.key() == st.key()
            fails, _ = check_state(g, rng)
            res[("n", n)] += 1
            if fails:
                res[("failed", n)] += 1
                for f, _why in fails:
                    res[(f, n)] += 1
                if len(examples) < 2:
                    examples.append((g.labels(), fails))
    return res, examples


WITNESS = ["-XIYXI", "-IXXZZ", "+IIZZX", "-ZIIZI", "+IZZZI"]


def self_test(rng):
    """the independent oracles agree with each other (tableau simulator vs dense simulator)"""
    for n in (1, 2, 3, 4):
        for _ in range(40):
            st = regauge(random_state(n, rng), rng)
            assert st.is_valid_state()
            v = dense_state(st, rng)
            for i in range(n):  # v is stabilised with the right signs
                assert np.allclose(pauli_matrix(st.x[i], st.z[i], st.r[i]) @ v, v)
            circ = []
            for _k in range(15):
                g = ["H", "P", "P_dag", "X", "Y", "Z", "CNOT", "CZ"][int(rng.integers(8 if n > 1 else 6))]
                if g in ("CNOT", "CZ"):
                    c, t = rng.choice(n, size=2, replace=False)
                    circ.append((g, int(c), int(t)))
                else:
                    circ.append((g, int(rng.integers(n))))
            st2 = st.copy().run(circ)
            v2 = dense_run(v, circ, n)
            for i in range(n):
                assert np.allclose(pauli_matrix(st2.x[i], st2.z[i], st2.r[i]) @ v2, v2), (st.labels(), circ)
    assert len(all_states(1)) == 6 and len(all_states(2)) == 60


def main():
    ap = argparse.ArgumentParser()
    ap.add_argument("--seed", type=int, default=20260930)
    ap.add_argument("--per-n", type=int, default=3000, help="random states for each n in 4..10")
    ap.add_argument("--pairs-per-n", type=int, default=1500, help="random pairs for each n in 1..5")
    ap.add_argument("--n3-orders", type=int, default=2, help="random orders of each of the 28 bases of a 3-qubit state")
    ap.add_argument("--jobs", type=int, default=4)
    ap.add_argument("--skip-exhaustive", action="store_true")
    args = ap.parse_args()

    t0 = time.time()
    rng = np.random.default_rng(args.seed)
    self_test(rng)
    print("self test of the independent oracles: ok")
    print("graphiq under test:", sfs.__file__)

    total = Counter()
    examples = []

    # witness of D42
    w = Stab.from_labels(WITNESS)
    assert w.is_valid_state()
    fails, circ = check_state(w, rng)
    print("witness", " ".join(WITNESS), "->", "ok" if not fails else fails)
    total[("n", "witness")] += 1
    if fails:
        total[("failed", "witness")] += 1
        for f, _ in fails:
            total[(f, "witness")] += 1

    units = []
    if not args.skip_exhaustive:
        for n in (1, 2, 3):
            sts = all_states(n)
            assert len(sts) == {1: 6, 2: 60, 3: 1080}[n]
            per = "ordered" if n < 3 else args.n3_orders
            chunk = 30
            for i in range(0, len(sts), chunk):
                units.append(("ex", (n, sts[i : i + chunk], per, args.seed + 1000 * n + i)))
    chunk = 250
    for n in range(4, 11):
        for i in range(0, args.per_n, chunk):
            units.append(("rnd", (n, min(chunk, args.per_n - i), args.seed + 7919 * n + i)))
    for n in range(1, 6):
        for i in range(0, args.pairs_per_n, chunk):
            units.append(("pair", (n, min(chunk, args.pairs_per_n - i), args.seed + 104729 * n + i)))

    fn = {"ex": _unit_exhaustive, "rnd": _unit_random, "pair": _unit_pairs}
    with Pool(args.jobs) as pool:
        asyncs = [(kind, pool.apply_async(fn[kind], (a,))) for kind, a in units]
        per_kind = {"ex": Counter(), "rnd": Counter(), "pair": Counter()}
        for kind, a in asyncs:
            res, ex = a.get()
            per_kind[kind].update(res)
            for e in ex:
                if len(examples) < 12:
                    examples.append((kind, e))

    def table(title, c, count_key):
        print("\n" + title)
        ns = sorted({k[1] for k in c if isinstance(k[1], int)})
        print("  %3s %9s %8s   %s" % ("n", "cases", "failed", "  ".join("%5s" % ch for ch in CHECKS)))
        for n in ns:
            print(
                "  %3d %9d %8d   %s"
                % (n, c[(count_key, n)], c[("failed", n)], "  ".join("%5d" % c[(ch, n)] for ch in CHECKS))
            )

    if not args.skip_exhaustive:
        print("\nstates enumerated:", {n: per_kind["ex"][("states", n)] for n in (1, 2, 3)})
        table("exhaustive n = 1, 2 (all ordered generating sets), n = 3 (all 28 bases x %d orders)" % args.n3_orders,
              per_kind["ex"], "n")
    table("random stabilizer states, random gauge", per_kind["rnd"], "n")
    table("random pairs: fidelity vs dense", per_kind["pair"], "pairs")

    n_fail = total[("failed", "witness")] + sum(
        v for c in per_kind.values() for k, v in c.items() if k[0] == "failed"
    )
    n_cases = 1 + sum(v for c in per_kind.values() for k, v in c.items() if k[0] in ("n", "pairs"))
    if examples:
        print("\nexamples of failures:")
        for kind, e in examples:
            print("  ", kind, e)
    print("\nTOTAL cases %d, failed %d   (%.0f s)" % (n_cases, n_fail, time.time() - t0))
    sys.exit(0 if n_fail == 0 else 1)


if __name__ == "__main__":
    main()
