#!/usr/bin/env python3
"""seed_table.py — (1) fill `needs_to_manifest` of seeded/<id>/meta.json from the seed's README.md (the paragraph its author wrote under
"What it needs (in order) to manifest" / "Trigger"), (2) print a markdown table of all seeds with the result of the last run of
tools/seeded.py, (3) with --write, put that table into DESIGN.md between the SEEDED-TABLE markers."""
import json, os, re, sys
V = os.path.dirname(os.path.dirname(os.path.abspath(__file__)))
S = os.path.join(V, "seeded")


def needs_from_readme(txt):
    lines = txt.splitlines()
    for i, l in enumerate(lines):
        if re.search(r"(needs?\b.*\bmanifest|^#+\s*trigger|\*\*trigger)", l, re.I):
            # the rest of this line after the heading marker + the following non-empty paragraph
            head = re.sub(r"^[#*\s]*what it needs[^.:*]*manifest[.:*\s]*", "", l, flags=re.I).strip(" *#")
            para = [head] if head and not head.lower().startswith("what it needs") else []
            for m in lines[i + 1:]:
                if m.startswith("#") or (m.startswith("**") and para):
                    break
                if not m.strip():
                    if para:
                        break
                    continue
                para.append(m.strip())
            out = " ".join(para).strip()
            if out:
                return out[:600]
    return ""


def first_change_line(txt):
    for l in txt.splitlines():
        if l.startswith("# "):
            return l[2:].strip()
    return ""


rows = []
for sid in sorted(os.listdir(S)):
    d = os.path.join(S, sid)
    mp = os.path.join(d, "meta.json")
    if not os.path.exists(mp):
        continue
    meta = json.load(open(mp))
    readme = open(os.path.join(d, "README.md")).read() if os.path.exists(os.path.join(d, "README.md")) else ""
    if not meta.get("needs_to_manifest"):
        meta["needs_to_manifest"] = needs_from_readme(readme)
        json.dump(meta, open(mp, "w"), indent=1)
    files = sorted(set(re.findall(r"^\+\+\+ b/(\S+)", open(os.path.join(d, "patch.diff")).read(), re.M)))
    last = {}
    lp = os.path.join(d, "last_run.json")
    if os.path.exists(lp):
        last = json.load(open(lp))
    res = []
    for pid, r in last.items():
        vio = [l for l in r.get("lines", []) if l.startswith("VIOLATION")]
        if r.get("exit") == 1 and vio:
            res.append(f"{pid}: caught" + (" (no-failing-input-found)" if any("no-failing-input-found" in v for v in vio) else " with failing input"))
        elif r.get("exit") == 0:
            res.append(f"{pid}: MISSED")
        else:
            res.append(f"{pid}: exit {r.get('exit')}")
    title = first_change_line(readme)
    rows.append((sid, meta["property"], ", ".join(os.path.basename(f) for f in files), title[:110], (meta["needs_to_manifest"] or "")[:170], "; ".join(res) or "not run yet"))

table = ["| seed | property | file(s) changed | change | needs, to manifest | quick check result |", "|---|---|---|---|---|---|"]
for r in rows:
    table.append("| " + " | ".join(x.replace("|", "\\|").replace("\n", " ") for x in r) + " |")
txt = "\n".join(table)
print(txt)
if "--write" in sys.argv:
    p = os.path.join(V, "DESIGN.md")
    s = open(p).read()
    block = "<!-- SEEDED-TABLE-BEGIN -->\n" + txt + "\n<!-- SEEDED-TABLE-END -->"
    if "SEEDED_TABLE_PLACEHOLDER" in s:
        s = s.replace("SEEDED_TABLE_PLACEHOLDER", block)
    else:
        s = re.sub(r"<!-- SEEDED-TABLE-BEGIN -->.*?<!-- SEEDED-TABLE-END -->", lambda m: block, s, flags=re.S)
    open(p, "w").write(s)
