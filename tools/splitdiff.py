#!/usr/bin/env python3
"""splitdiff.py <diff> <file-substring> <hunk-indices comma sep | all>  -> prints patch with only those hunks"""
import sys, re
def parse(path):
    files=[]; cur=None
    for line in open(path):
        if line.startswith('diff --git'):
            cur={'header':[line],'hunks':[]}; files.append(cur)
        elif line.startswith('@@'):
            cur['hunks'].append([line])
        elif cur['hunks']:
            cur['hunks'][-1].append(line)
        else:
            cur['header'].append(line)
    return files
files=parse(sys.argv[1])
sel=sys.argv[2]; idx=sys.argv[3]
for f in files:
    if sel in f['header'][0]:
        hs=f['hunks'] if idx=='all' else [f['hunks'][int(i)] for i in idx.split(',')]
        sys.stdout.write(''.join(f['header']))
        for h in hs: sys.stdout.write(''.join(h))
