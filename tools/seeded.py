#!/usr/bin/env python3
"""seeded.py [<seed-id> ...] — run the registered checks against the seeded breaking changes under /verif/seeded/<id>/.

For each seed: a scratch worktree of /repo is created outside /repo and /verif, `patch.diff` is applied there, the quick check of the
seed's property is run with REPO pointing at the scratch tree (the checks rebuild everything they need from $REPO), exit status and
the VIOLATION line are recorded in seeded/<id>/last_run.json, and the worktree is removed.  Equivalent to applying the patch to /repo,
running the check and reverting, without disturbing /repo.
"""
import json, os, subprocess, sys, time, shutil
V = os.path.dirname(os.path.dirname(os.path.abspath(__file__)))
S = os.path.join(V, "seeded")

def run(seed, tier="quick"):
    d = os.path.join(S, seed)
    meta = json.load(open(os.path.join(d, "meta.json")))
    wt = f"/tmp/seedrun_{seed}"
    subprocess.run(["git", "-C", "/repo", "worktree", "remove", "--force", wt], capture_output=True)
    subprocess.run(["git", "-C", "/repo", "worktree", "add", "-q", "--detach", wt, "HEAD"], check=True)
    try:
        if meta.get("status") == "retired":
            print(seed, "retired:", meta.get("retired_reason", "")[:120])
            return {}
        ap = subprocess.run(["git", "-C", wt, "apply", os.path.join(d, "patch.diff")], capture_output=True, text=True)
        if ap.returncode != 0:
            print(seed, "PATCH DOES NOT APPLY on this /repo HEAD:", ap.stderr.strip().splitlines()[:1])
            json.dump({"patch_applies": False}, open(os.path.join(d, "last_run.json"), "w"), indent=1)
            return {}
        out = {}
        for pid in meta.get("check_with", [meta["property"]]):
            env = dict(os.environ, REPO=wt, VERIF_SEED=os.environ.get("VERIF_SEED", "1"), VERIF_EVIDENCE_DIR="/tmp/seed_evidence")
            t0 = time.time()
            p = subprocess.run([os.path.join(V, "check"), pid, "--tier", tier], cwd=V, env=env, capture_output=True, text=True)
            lines = [l for l in p.stdout.splitlines() if l.startswith("VIOLATION") or l.startswith("KNOWN-FINDING") or l.startswith(pid)]
            out[pid] = {"exit": p.returncode, "lines": lines[-4:], "wall_s": round(time.time() - t0, 1)}
            print(seed, pid, "exit", p.returncode, "|", " | ".join(l[:160] for l in lines[-2:]))
        json.dump(out, open(os.path.join(d, "last_run.json"), "w"), indent=1)
        return out
    finally:
        subprocess.run(["git", "-C", "/repo", "worktree", "remove", "--force", wt], capture_output=True)
        shutil.rmtree(wt, ignore_errors=True)

if __name__ == "__main__":
    seeds = sys.argv[1:] or sorted(os.listdir(S))
    for s in seeds:
        if os.path.exists(os.path.join(S, s, "meta.json")):
            run(s)
