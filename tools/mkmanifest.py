#!/usr/bin/env python3
"""mkmanifest.py — (re)generate /verif/MANIFEST.json from manifest.d/Cxx.json (one file per claimed property:
{category, text, level_note, technique, design_ref}).  A property is claimed only if manifest.d/Cxx.json,
harness/cxx.py and lean/GraphiqModel/Properties/Cxx.lean all exist; every other property is listed under not_applicable
with the reason in manifest.d/Cxx.na (one line) or 'not built yet'."""
import json, os
V = os.path.dirname(os.path.dirname(os.path.abspath(__file__)))
BASE = "cd /repo && /venv/bin/python -m pytest -ra -q -p no:cacheprovider --timeout=900 --continue-on-collection-errors"
TB = ("Trusted: Lean 4.33 kernel + axioms propext/Classical.choice/Quot.sound only (audited per theorem on every run; no sorry, native_decide, "
      "bv_decide or own axioms); the hand-written Lean model, tied to /repo by the correspondence run (differential testing on generated inputs, "
      "so bounded by generator quality) and by exhaustively regenerated finite tables re-proved by kernel decide; the Python harness, the line "
      "protocol and the driver's parser/printer. ")
ALL = [f"C{i:02d}" for i in range(1, 21)]
checks, na = [], []
for pid in ALL:
    mf = f"{V}/manifest.d/{pid}.json"
    built = os.path.exists(mf) and os.path.exists(f"{V}/harness/{pid.lower()}.py") and os.path.exists(f"{V}/lean/GraphiqModel/Properties/{pid}.lean")
    if not built:
        naf = f"{V}/manifest.d/{pid}.na"
        reason = open(naf).read().strip() if os.path.exists(naf) else \
            "check not built yet in this round (planned: Lean 4 model + theorems + correspondence, see DESIGN.md §4)"
        na.append({"property_id": pid, "reason": reason})
        continue
    m = json.load(open(mf))
    checks.append({
        "property_id": pid,
        "quick_cmd": f"./check {pid} --tier quick",
        "thorough_cmd": f"./check {pid} --tier thorough",
        "evidence_file": f"/verif/evidence/{pid}.json",
        "replay_cmd_template": f"./check {pid} --replay {{path}}",
        "engine": "lean4-model+correspondence",
        "level_claimed": {"category": m.get("category", "proof"), "text": m["text"], "design_ref": m.get("design_ref", "DESIGN §4")},
        "level_note": TB + m["level_note"],
        "technique": m["technique"],
    })
man = {
 "version": 1,
 "setup_cmd": "./check --setup",
 "hooks": {"guard": "GRAPHIQ_VERIF", "enable": "none needed: the harness observes graphiq through its public API (subclassing compilers, patching library RNG entry points); no source hooks are committed",
           "baseline_off_cmd": BASE, "source_commits": [], "add_only": True},
 "engines": [{"name": "lean4-model+correspondence", "path": "/verif/check", "serves_properties": [c["property_id"] for c in checks],
              "kind_free_text": "Lean 4 executable model + machine-checked theorems (lake project /verif/lean), compiled line-protocol driver, Python correspondence harness calling graphiq in-process"}],
 "checks": checks,
 "not_applicable": na,
 "notes": "See DESIGN.md. known_findings.txt lists genuine defects recorded rather than repaired and the fix: commits made to /repo.",
}
json.dump(man, open(f"{V}/MANIFEST.json", "w"), indent=1)
print("claimed:", [c["property_id"] for c in checks])
