#!/usr/bin/env python3
"""mkmanifest.py — (re)generate /verif/MANIFEST.json from the table below. Properties without a harness + property file are
listed under not_applicable with the reason 'not built yet' until they are."""
import json, os
V = os.path.dirname(os.path.dirname(os.path.abspath(__file__)))
BASE = "cd /repo && /venv/bin/python -m pytest -ra -q -p no:cacheprovider --timeout=900 --continue-on-collection-errors"
TB = ("Trusted: Lean 4.33 kernel + axioms propext/Classical.choice/Quot.sound only (audited per theorem on every run, no sorry/native_decide/"
      "bv_decide/own axioms); the hand-written Lean model, tied to /repo by the correspondence run (differential testing on generated inputs, "
      "so bounded by generator quality) and by exhaustively regenerated finite tables re-proved by kernel decide; the Python harness, line "
      "protocol and driver parser/printer. ")
P = {
 "C07": dict(
    text="Unbounded theorems (Lean 4): every gate of the tableau API acts row-wise as an automorphism of the signed n-qubit Pauli group with the "
         "textbook generator images (all n); Valid (symplectic pairing) is preserved by gates, swap, Z-measurement (both branches), resets and qubit "
         "insertion, hence by every finite history of them (induction); measurement implements the textbook update; insertion adds an unentangled "
         "+Z_p. Tie to the code: every API call is run on the real implementation and on the model from the implementation's own state and compared "
         "exactly; a dense reference simulator (n<=5) and validity/span checks are the direct oracle used to find failing inputs.",
    note=TB + "Partial: Valid-preservation of remove_qubit / partial_trace / tensor is not yet a theorem (evaluated by the model on every input, "
         "and by the dense oracle for n<=5). Tensor lifting of Pauli-group semantics to Hilbert space is cited mathematics.",
    tech="Lean 4 proof (induction over operation histories, Pauli-group automorphisms) + model/implementation correspondence", ref="DESIGN §4 C07"),
}
ALL = [f"C{i:02d}" for i in range(1, 21)]
checks, na = [], []
for pid in ALL:
    built = os.path.exists(f"{V}/harness/{pid.lower()}.py") and os.path.exists(f"{V}/lean/GraphiqModel/Properties/{pid}.lean") and pid in P
    if not built:
        na.append({"property_id": pid, "reason": "check not built yet in this round (planned: Lean 4 model + theorems + correspondence, see DESIGN.md §4)"})
        continue
    m = P[pid]
    checks.append({
        "property_id": pid,
        "quick_cmd": f"./check {pid} --tier quick",
        "thorough_cmd": f"./check {pid} --tier thorough",
        "evidence_file": f"/verif/evidence/{pid}.json",
        "replay_cmd_template": f"./check {pid} --replay {{path}}",
        "engine": "lean4-model+correspondence",
        "level_claimed": {"category": m.get("cat", "proof"), "text": m["text"], "design_ref": m["ref"]},
        "level_note": m["note"],
        "technique": m["tech"],
    })
man = {
 "version": 1,
 "setup_cmd": "./check --setup",
 "hooks": {"guard": "GRAPHIQ_VERIF", "enable": "none needed: the harness observes graphiq through its public API (subclassing compilers, patching library RNG entry points); no source hooks are committed",
           "baseline_off_cmd": BASE, "source_commits": [], "add_only": True},
 "engines": [{"name": "lean4-model+correspondence", "path": "/verif/check", "serves_properties": [c["property_id"] for c in checks],
              "kind_free_text": "Lean 4 executable model + machine-checked theorems (lake project /verif/lean), compiled line-protocol driver, Python correspondence harness calling graphiq in-process"}],
 "checks": checks,
 "not_applicable": na,
 "notes": "See DESIGN.md. known_findings.txt lists genuine defects recorded rather than repaired and the fix: commits made to /repo.",
}
json.dump(man, open(f"{V}/MANIFEST.json", "w"), indent=1)
print("claimed:", [c["property_id"] for c in checks])
