#!/usr/bin/env python3
"""confirm_seed.py <seed-id> <property> <src-dir> [--needs "<text>"] — confirm a candidate breaking change and store it under seeded/<id>/.

Independently of whoever wrote it: (1) the demo passes on the clean tree, (2) the patch applies, (3) the demo fails with the patch,
(4) the repository's baseline test command is run on the patched tree and compared with BASELINE.json (all stable-pass tests must still pass).
Everything happens in a scratch worktree outside /repo and /verif which is removed afterwards."""
import json, os, shutil, subprocess, sys, time, xml.etree.ElementTree as ET
V = os.path.dirname(os.path.dirname(os.path.abspath(__file__)))
seed, prop, src = sys.argv[1], sys.argv[2], sys.argv[3]
needs = sys.argv[sys.argv.index("--needs") + 1] if "--needs" in sys.argv else ""
fast = "--skip-suite" in sys.argv
xd = ("-n " + sys.argv[sys.argv.index("--xdist") + 1] + " ") if "--xdist" in sys.argv else ""   # pytest-xdist workers (same tests, same verdicts, shorter wall)
wt = f"/tmp/confirm_{seed}"
subprocess.run(["git", "-C", "/repo", "worktree", "remove", "--force", wt], capture_output=True)
subprocess.run(["git", "-C", "/repo", "worktree", "add", "-q", "--detach", wt, "HEAD"], check=True)
res = {"property": prop, "seed": seed, "repo_head": subprocess.run(["git", "-C", "/repo", "rev-parse", "--short", "HEAD"], capture_output=True, text=True).stdout.strip()}
try:
    env = dict(os.environ, PYTHONPATH=wt, MPLBACKEND="Agg")
    os.makedirs(f"{wt}/mutations/m", exist_ok=True)
    shutil.copy(f"{src}/demo.py", f"{wt}/mutations/m/demo.py")
    def demo():
        return subprocess.run(["/venv/bin/python", "mutations/m/demo.py"], cwd=wt, env=env, capture_output=True, text=True, timeout=1800).returncode
    res["demo_clean_exit"] = demo()
    ap = subprocess.run(["git", "-C", wt, "apply", f"{src}/patch.diff"], capture_output=True, text=True)
    res["patch_applies"] = ap.returncode == 0
    if ap.returncode == 0:
        res["demo_patched_exit"] = demo()
        if not fast:
            t0 = time.time()
            xml = f"/tmp/confirm_{seed}.xml"
            subprocess.run("/venv/bin/python -m pytest -ra -q -p no:cacheprovider --timeout=900 --continue-on-collection-errors "
                           f"{xd}--junitxml={xml} > /tmp/confirm_{seed}.log 2>&1", shell=True, cwd=wt, env=dict(os.environ, MPLBACKEND="Agg"))
            base = json.load(open("/root/.vp/BASELINE.json"))
            got = {}
            for tc in ET.parse(xml).getroot().iter("testcase"):
                name = tc.get("classname") + "::" + tc.get("name")
                got[name] = not any(ch.tag in ("failure", "error", "skipped") for ch in tc)
            missing = [n for n in base["stable_pass"] if not got.get(n)]
            res["baseline_stable_pass"] = len(base["stable_pass"])
            res["baseline_not_passing_with_patch"] = missing
            res["suite_wall_s"] = round(time.time() - t0)
    ok = res.get("demo_clean_exit") == 0 and res.get("patch_applies") and res.get("demo_patched_exit", 0) != 0 and (fast or not res.get("baseline_not_passing_with_patch"))
    res["confirmed"] = bool(ok)
    print(json.dumps(res, indent=1))
    if ok:
        d = f"{V}/seeded/{seed}"
        os.makedirs(d, exist_ok=True)
        shutil.copy(f"{src}/patch.diff", f"{d}/patch.diff")
        shutil.copy(f"{src}/demo.py", f"{d}/demo.py")
        if os.path.exists(f"{src}/README.md"):
            shutil.copy(f"{src}/README.md", f"{d}/README.md")
        meta = {"property": prop, "check_with": [prop], "needs_to_manifest": needs, "source": "independent sub-agent given only the property text",
                "confirmed": {k: res[k] for k in res if k != "confirmed"},
                "ran": ["demo.py on clean scratch worktree (exit 0)", "git apply patch.diff", "demo.py on patched worktree (non-zero exit)"] +
                       ([] if fast else ["baseline pytest command of BASELINE.json on the patched worktree: all stable-pass tests still pass"])}
        json.dump(meta, open(f"{d}/meta.json", "w"), indent=1)
finally:
    subprocess.run(["git", "-C", "/repo", "worktree", "remove", "--force", wt], capture_output=True)
    shutil.rmtree(wt, ignore_errors=True)
