#!/usr/bin/env python3
"""cmp_baseline.py <junit.xml>: compare a junit result with BASELINE.json stable_pass"""
import json, sys, xml.etree.ElementTree as ET
base=json.load(open('/root/.vp/BASELINE.json'))
t=ET.parse(sys.argv[1]).getroot()
res={}
for tc in t.iter('testcase'):
    name=tc.get('classname')+'::'+tc.get('name')
    bad=any(ch.tag in('failure','error') for ch in tc)
    skipped=any(ch.tag=='skipped' for ch in tc)
    res[name]='fail' if bad else ('skip' if skipped else 'pass')
missing=[n for n in base['stable_pass'] if res.get(n)!='pass']
print('passed',sum(1 for v in res.values() if v=='pass'),'of',len(res),'; baseline stable',len(base['stable_pass']),'not passing:',len(missing))
for m in missing: print('  NOT PASSING:',m,res.get(m))
