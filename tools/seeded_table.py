#!/usr/bin/env python3
"""seeded_table.py — markdown table of the seeded breaking changes and what the registered checks said about each (from seeded/*/meta.json, README.md, last_run.json)"""
import json, os, re, sys
V = os.path.dirname(os.path.dirname(os.path.abspath(__file__)))
S = os.path.join(V, "seeded")
rows = []
for s in sorted(os.listdir(S)):
    d = os.path.join(S, s)
    if not os.path.exists(os.path.join(d, "meta.json")):
        continue
    meta = json.load(open(os.path.join(d, "meta.json")))
    title = ""
    if os.path.exists(os.path.join(d, "README.md")):
        for line in open(os.path.join(d, "README.md")):
            if line.startswith("#"):
                title = re.sub(r"^#+\s*(C\d\d\s*/\s*)?(mutation\s*\d+|m\d+)\s*[-—–:]*\s*", "", line.strip(), flags=re.I)
                break
    title = meta.get("title", title)   # an explicit title in meta.json wins over the README heading
    if meta.get("status") == "retired":
        res = "retired — " + meta.get("retired_reason", "")[:160] + "…"
    else:
        lr = json.load(open(os.path.join(d, "last_run.json"))) if os.path.exists(os.path.join(d, "last_run.json")) else {}
        parts = []
        for pid, r in lr.items():
            if not isinstance(r, dict):
                continue
            line = next((l for l in r.get("lines", []) if l.startswith("VIOLATION")), "")
            tail = "no-failing-input-found" if line.endswith("no-failing-input-found") else ("failing input" if line else "")
            parts.append(f"{pid}: exit {r.get('exit')}" + (f" ({tail})" if tail else ""))
        res = "; ".join(parts) or "not run"
    rows.append(f"| {s} | {title[:150].replace('|', '/')} | {res} |")
print("| seed | change (needs something specific to manifest: see seeded/<id>/README.md) | quick check on /repo HEAD + patch |")
print("|---|---|---|")
print("\n".join(rows))


def update_design():
    """replace the part of DESIGN.md between SEEDED_TABLE_BEGIN and SEEDED_TABLE_END by the current table"""
    import io, contextlib
    p = os.path.join(V, "DESIGN.md")
    s = open(p).read()
    a, b = s.index("<!-- SEEDED_TABLE_BEGIN -->"), s.index("<!-- SEEDED_TABLE_END -->")
    head = "| seed | change (needs something specific to manifest: see seeded/<id>/README.md) | quick check on /repo HEAD + patch |\n|---|---|---|\n"
    s = s[:a] + "<!-- SEEDED_TABLE_BEGIN -->\n" + head + "\n".join(rows) + "\n" + s[b:]
    open(p, "w").write(s)


if "--update-design" in sys.argv:
    update_design()
