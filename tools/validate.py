#!/usr/bin/env python3
"""validate MANIFEST.json and every evidence file against the schemas (run with python3-vt)"""
import json, sys, glob, jsonschema
ok=True
try:
    jsonschema.validate(json.load(open('/verif/MANIFEST.json')), json.load(open('/root/.vp/MANIFEST.schema.json'))); print('MANIFEST ok')
except Exception as e:
    ok=False; print('MANIFEST INVALID', str(e)[:300])
sch=json.load(open('/root/.vp/EVIDENCE.schema.json'))
for f in sorted(glob.glob('/verif/evidence/*.json')):
    try:
        ev=json.load(open(f)); jsonschema.validate(ev, sch)
        c=ev['coverage']; print(f.split('/')[-1],'ok', ev['level'], 'obl',c.get('obligations'),'dis',c.get('discharged'),'eval',c.get('evaluations'),'dn',c.get('distinct_nontrivial'), 'wall',ev['wall_s'])
    except Exception as e:
        ok=False; print(f,'INVALID',str(e)[:300])
sys.exit(0 if ok else 1)
