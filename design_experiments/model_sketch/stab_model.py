"""
Functional mirror ("model sketch") of the stabilizer-tableau algorithms of graphiq, written in the style the
Lean model will use: immutable values, explicit folds, explicit pivots, errors as exceptions of a small enum.
Purpose (design round): pin down the exact semantics (loop order, in-place aliasing, pivot updates) before
transliterating to Lean.  `compare.py` runs it against the real implementation.

A stabilizer tableau is (n, X, Z, R): X, Z tuples of n tuples of n ints in {0,1}; R tuple of n ints.
"""
class ModelError(Exception):
    pass

def g(x1, z1, x2, z2):
    if x1 == 0 and z1 == 0: return 0
    if x1 == 1 and z1 == 1: return z2 - x2
    if x1 == 1 and z1 == 0: return z2 * (2 * x2 - 1)
    return x2 * (1 - 2 * z2)

def row_sum(X, Z, R, IP, add, tgt):
    """linalg.row_sum: row tgt := row add * row tgt (phases mod 4 split into R (2's bit) and IP (1's bit))"""
    n = len(X[0])
    gs = sum(g(X[add][j], Z[add][j], X[tgt][j], Z[tgt][j]) for j in range(n))
    ph = (2 * R[tgt] + IP[tgt] + 2 * R[add] + IP[add] + gs) % 4
    newx = tuple((X[add][j] + X[tgt][j]) % 2 for j in range(n))
    newz = tuple((Z[add][j] + Z[tgt][j]) % 2 for j in range(n))
    X = X[:tgt] + (newx,) + X[tgt + 1:]
    Z = Z[:tgt] + (newz,) + Z[tgt + 1:]
    R = R[:tgt] + (ph // 2,) + R[tgt + 1:]
    IP = IP[:tgt] + (ph % 2,) + IP[tgt + 1:]
    return X, Z, R, IP

def tab_row_sum(t, add, tgt):
    n, X, Z, R = t
    X, Z, R, _ = row_sum(X, Z, R, (0,) * n, add, tgt)     # iphase is discarded, exactly as in stabilizer.py
    return (n, X, Z, R)

def swap(seq, a, b):
    l = list(seq); l[a], l[b] = l[b], l[a]; return tuple(l)

def tab_row_swap(t, a, b):
    n, X, Z, R = t
    return (n, swap(X, a, b), swap(Z, a, b), swap(R, a, b))

def pauli_lists(t, prow, pcol):
    n, X, Z, R = t
    xs = [i for i in range(prow, n) if X[i][pcol] == 1 and Z[i][pcol] == 0]
    ys = [i for i in range(prow, n) if X[i][pcol] == 1 and Z[i][pcol] == 1]
    zs = [i for i in range(prow, n) if X[i][pcol] == 0 and Z[i][pcol] == 1]
    return xs, ys, zs

def process_one(t, prow, pcol, lst):
    t = tab_row_swap(t, prow, lst[0])
    for i in lst[1:]:
        t = tab_row_sum(t, prow, i)
    return t, prow + 1, pcol + 1

def process_two(t, prow, pcol, ty1, ty2):
    idx = {"x": 0, "y": 1, "z": 2}
    lists = pauli_lists(t, prow, pcol)
    t = tab_row_swap(t, prow, lists[idx[ty1]][0])
    lists = pauli_lists(t, prow, pcol)
    t = tab_row_swap(t, prow + 1, lists[idx[ty2]][0])
    lists = pauli_lists(t, prow, pcol)
    if not (lists[idx[ty1]][0] == prow and lists[idx[ty2]][0] == prow + 1):
        raise ModelError("assertion")
    for i in lists[idx[ty1]][1:]:
        t = tab_row_sum(t, prow, i)
    for j in lists[idx[ty2]][1:]:
        t = tab_row_sum(t, prow + 1, j)
    return t, prow + 2, pcol + 1

def one_step_rref(t, prow, pcol):
    xs, ys, zs = pauli_lists(t, prow, pcol)
    if not (xs or ys or zs): return t, prow, pcol + 1
    if xs and not ys and not zs: return process_one(t, prow, pcol, xs)
    if ys and not xs and not zs: return process_one(t, prow, pcol, ys)
    if zs and not xs and not ys: return process_one(t, prow, pcol, zs)
    if not xs: return process_two(t, prow, pcol, "y", "z")
    if not ys: return process_two(t, prow, pcol, "x", "z")
    if not zs: return process_two(t, prow, pcol, "x", "y")
    t, _, _ = process_two(t, prow, pcol, "x", "z")
    _, ys, _ = pauli_lists(t, prow, pcol)
    for k in ys:
        t = tab_row_sum(t, prow, k)
        t = tab_row_sum(t, prow + 1, k)
    return t, prow + 2, pcol + 1

def rref(t):
    n = t[0]; prow, pcol = 0, 0
    fuel = 2 * n + 2
    while prow <= n - 1 and pcol <= n - 1:
        fuel -= 1
        assert fuel >= 0
        t, prow, pcol = one_step_rref(t, prow, pcol)
    if not prow >= n - 1: raise ModelError("assertion")
    return t

def leftmost(t, i):
    n, X, Z, R = t
    for j in range(n):
        if X[i][j] or Z[i][j]: return j
    raise ModelError("value")

def height_func_list(t):
    t = (t[0], t[1], t[2], (0,) * t[0])       # height builds StabilizerTableau([x, z]) -> zero phases
    t = rref(t); n = t[0]
    lm = [leftmost(t, i) for i in range(n)]
    return [n - (k + 1) - len([x for x in lm if x - k > 0]) for k in range(n)]

def canonical_form(t):
    n = t[0]; prow = 0
    for j in range(n):
        xs, ys, zs = pauli_lists(t, prow, j)
        if xs or ys:
            t = tab_row_swap(t, prow, xs[0] if xs else ys[0])
            for m in range(n):
                if t[1][m][j] == 1 and m != prow:
                    t = tab_row_sum(t, prow, m)
            prow += 1
    for j in range(n):
        zs = [i for i in range(prow, n) if t[1][i][j] == 0 and t[2][i][j] == 1]
        if zs:
            t = tab_row_swap(t, prow, zs[0])
            for m in range(n):
                if t[2][m][j] == 1 and m != prow:
                    t = tab_row_sum(t, prow, m)
            prow += 1
    if prow != n: raise ModelError("assertion")
    return t

# gates on stabilizer tableaux (transformation.py)
def h_gate(t, q):
    n, X, Z, R = t
    R = tuple(R[i] ^ (X[i][q] * Z[i][q]) for i in range(n))
    X2 = tuple(tuple(Z[i][j] if j == q else X[i][j] for j in range(n)) for i in range(n))
    Z2 = tuple(tuple(X[i][j] if j == q else Z[i][j] for j in range(n)) for i in range(n))
    return (n, X2, Z2, R)
def p_gate(t, q):
    n, X, Z, R = t
    R = tuple(R[i] ^ (X[i][q] * Z[i][q]) for i in range(n))
    Z2 = tuple(tuple((Z[i][j] + X[i][j]) % 2 if j == q else Z[i][j] for j in range(n)) for i in range(n))
    return (n, X, Z2, R)
def cnot_gate(t, c, tg):
    n, X, Z, R = t
    R = tuple(R[i] ^ (X[i][c] * Z[i][tg] * (X[i][tg] ^ Z[i][c] ^ 1)) for i in range(n))
    X2 = tuple(tuple((X[i][j] + X[i][c]) % 2 if j == tg else X[i][j] for j in range(n)) for i in range(n))
    Z2 = tuple(tuple((Z[i][j] + Z[i][tg]) % 2 if j == c else Z[i][j] for j in range(n)) for i in range(n))
    return (n, X2, Z2, R)
def z_gate(t, q): return p_gate(p_gate(t, q), q)
def x_gate(t, q): return h_gate(z_gate(h_gate(t, q), q), q)
def cz_gate(t, c, tg): return h_gate(cnot_gate(h_gate(t, tg), c, tg), tg)

def inverse_circuit(t):
    n = t[0]; circ = []; prow = 0
    t = canonical_form(t)
    for j in range(n):
        xs, ys, zs = pauli_lists(t, prow, j)
        if xs: t = tab_row_swap(t, prow, xs[0])
        elif ys: t = tab_row_swap(t, prow, ys[0])
        elif zs:
            t = tab_row_swap(t, prow, zs[-1])
            if any(t[1][prow][j + 1:n]) or any(t[2][prow][j + 1:n]):
                circ.append(("H", j)); t = h_gate(t, j)
        prow += 1
    for j in range(n):
        for k in range(j + 1, n):
            if t[1][j][k] == 1:
                circ.append(("CNOT", j, k)); t = cnot_gate(t, j, k)
    for j in range(n):
        for k in range(j + 1, n):
            if t[1][j][k] == 0 and t[2][j][k] == 1:
                circ.append(("CZ", j, k)); t = cz_gate(t, j, k)
    for j in range(n):
        if t[1][j][j] == 1 and t[2][j][j] == 1:
            circ.append(("P", j)); t = p_gate(t, j)
    for j in range(n):
        if t[1][j][j] == 1 and t[2][j][j] == 0:
            circ.append(("H", j)); t = h_gate(t, j)
    for j in range(n):
        for k in range(j + 1, n):
            if t[1][k][j] == 0 and t[2][k][j] == 1:
                t = tab_row_sum(t, j, k)
    for i in [i for i in range(n) if t[3][i] != 0]:
        t = x_gate(t, i); circ.append(("X", i))
    return t, circ
