"""Design-round experiment: run the model sketch against the real graphiq functions on random inputs."""
import warnings; warnings.filterwarnings("ignore")
import sys, collections, numpy as np
import stab_model as M
from graphiq.backends.stabilizer.tableau import StabilizerTableau
from graphiq.backends.stabilizer.clifford_tableau import CliffordTableau
from graphiq.backends.stabilizer.functions import transformation as tr, stabilizer as sfs, height
rng = np.random.default_rng(int(sys.argv[1]) if len(sys.argv) > 1 else 0)
def to_model(s): return (s.n_qubits, tuple(map(tuple, s.x_matrix.tolist())), tuple(map(tuple, s.z_matrix.tolist())), tuple(s.phase.tolist()))
def same(m, s): return m == to_model(s)
def rand_stab(n):
    t = CliffordTableau(n)
    for _ in range(4 * n + 5):
        c = rng.integers(0, 4)
        if c == 0: tr.hadamard_gate(t, int(rng.integers(n)))
        elif c == 1: tr.phase_gate(t, int(rng.integers(n)))
        elif c == 2: tr.x_gate(t, int(rng.integers(n)))
        elif n > 1:
            a, b = rng.choice(n, 2, replace=False); tr.cnot_gate(t, int(a), int(b))
    s = t.to_stabilizer()
    for _ in range(2 * n):
        if n > 1:
            a, b = rng.choice(n, 2, replace=False); sfs.tab_row_sum(s, int(a), int(b))
            if rng.integers(2): sfs.tab_row_swap(s, int(a), int(b))
    return s
st = collections.Counter()
for trial in range(int(sys.argv[2]) if len(sys.argv) > 2 else 400):
    n = int(rng.integers(1, 9)); s = rand_stab(n); m = to_model(s)
    for name, fm, fi in (("rref", M.rref, sfs.rref), ("canonical_form", M.canonical_form, sfs.canonical_form)):
        try: a = fm(m)
        except M.ModelError as e: a = ("err", str(e))
        try: b = to_model(fi(s.copy()))
        except AssertionError: b = ("err", "assertion")
        st[f"{name} agree" if a == b else f"{name} DISAGREE"] += 1
    a = M.height_func_list(m); b = list(height.height_func_list(s.x_matrix.copy(), s.z_matrix.copy()))
    st["height agree" if a == [int(x) for x in b] else "height DISAGREE"] += 1
    ta, ca = M.inverse_circuit(m); tb, cb = sfs.inverse_circuit(s.copy())
    st["inverse_circuit agree" if (ta == to_model(tb) and ca == [tuple(int(v) if not isinstance(v, str) else v for v in gt) for gt in cb]) else "inverse_circuit DISAGREE"] += 1
for k in sorted(st): print(k, st[k])
