import warnings; warnings.filterwarnings("ignore")
import sys, collections, numpy as np
import clifford_model as C
from graphiq.backends.stabilizer.clifford_tableau import CliffordTableau
from graphiq.backends.stabilizer.functions import transformation as tr, clifford as sfc
rng = np.random.default_rng(int(sys.argv[1]) if len(sys.argv) > 1 else 0)
def to_model(t):
    return (t.n_qubits, tuple(map(tuple, t.table_x.tolist())), tuple(map(tuple, t.table_z.tolist())), tuple(t.phase.tolist()), tuple(t.iphase.tolist()))
def rand_cliff(n):
    t = CliffordTableau(n)
    for _ in range(4 * n + 5):
        c = rng.integers(0, 5)
        if c == 0: tr.hadamard_gate(t, int(rng.integers(n)))
        elif c == 1: tr.phase_gate(t, int(rng.integers(n)))
        elif c == 2: tr.x_gate(t, int(rng.integers(n)))
        elif c == 3: sfc.z_measurement_gate(t, int(rng.integers(n)), int(rng.integers(2)))   # creates iphase / odd signs
        elif n > 1:
            a, b = rng.choice(n, 2, replace=False); tr.cnot_gate(t, int(a), int(b))
    return t
st = collections.Counter()
for trial in range(int(sys.argv[2]) if len(sys.argv) > 2 else 500):
    n = int(rng.integers(1, 8)); t = rand_cliff(n); m = to_model(t); q = int(rng.integers(n)); det = int(rng.integers(2))
    t2, out, xp = sfc.z_measurement_gate(t.copy(), q, det); m2, o2, x2 = C.z_measurement(m, q, det)
    st["measure agree" if (to_model(t2), int(out), int(xp)) == (m2, o2, x2) else "measure DISAGREE"] += 1
    st["measure:random" if xp else "measure:det"] += 1
    intended = int(rng.integers(2))
    st["reset_z agree" if to_model(sfc.reset_z(t.copy(), q, intended, det)) == C.reset_z(m, q, intended, det) else "reset_z DISAGREE"] += 1
    p = int(rng.integers(n + 1))
    try: a = to_model(sfc.insert_qubit(t.copy(), p))
    except IndexError: a = "index"
    try: b = C.insert_qubit(m, p)
    except C.ModelError as e: b = str(e)
    st["insert_qubit agree" if a == b else "insert_qubit DISAGREE"] += 1
    if n > 1:
        a_, b_ = [int(v) for v in rng.choice(n, 2, replace=False)]
        st["swap agree" if to_model(sfc.swap_gate(t.copy(), a_, b_)) == C.swap_gate(m, a_, b_) else "swap DISAGREE"] += 1
for k in sorted(st): print(k, st[k])
