"""
Functional mirror of graphiq/backends/stabilizer/functions/clifford.py (+ metric.inner_product), as coded
(including the defects D4, D29, D31 of DESIGN.md §5 when `as_coded=True`).
A Clifford tableau is (n, X, Z, R, IP) with 2n rows (destabilizers first).
"""
from stab_model import row_sum, g, ModelError
import stab_model as S

def setrow(M, i, row): return M[:i] + (tuple(row),) + M[i + 1:]
def setval(V, i, v): return V[:i] + (v,) + V[i + 1:]

def z_measurement(t, q, det):
    """returns (tableau, outcome, x_p); det in {0, 1}; 'probabilistic' is modelled by passing the drawn bit"""
    n, X, Z, R, IP = t
    if not q < n: raise ModelError("assertion")
    nz = [i for i in range(2 * n) if X[i][q] != 0]
    xp = 0
    for k, i in enumerate(nz):
        if i >= n:
            xp = i; nz = nz[:k] + nz[k + 1:]; break
    if xp != 0:
        for tgt in nz:
            X, Z, R, IP = row_sum(X, Z, R, IP, xp, tgt)
        X = setrow(X, xp - n, X[xp]); Z = setrow(Z, xp - n, Z[xp])
        # NOTE: `table[x_p - n] = table[x_p]` copies x|z only; phase and iphase of row x_p - n keep their old values
        X = setrow(X, xp, (0,) * n); Z = setrow(Z, xp, tuple(1 if j == q else 0 for j in range(n)))
        outcome = 1 if det == 1 else 0
        R = setval(R, xp, outcome)
        return (n, X, Z, R, IP), outcome, xp
    X2 = X + ((0,) * n,); Z2 = Z + ((0,) * n,); R2 = R + (0,); IP2 = IP + (0,)
    for i in [i for i in nz if i < n]:
        X2, Z2, R2, IP2 = row_sum(X2, Z2, R2, IP2, i + n, 2 * n)
    return t, R2[2 * n], 0

def h_gate(t, q):
    n, X, Z, R, IP = t
    R = tuple(R[i] ^ (X[i][q] * Z[i][q]) for i in range(2 * n))
    X2 = tuple(tuple(Z[i][j] if j == q else X[i][j] for j in range(n)) for i in range(2 * n))
    Z2 = tuple(tuple(X[i][j] if j == q else Z[i][j] for j in range(n)) for i in range(2 * n))
    return (n, X2, Z2, R, IP)
def p_gate(t, q):
    n, X, Z, R, IP = t
    R = tuple(R[i] ^ (X[i][q] * Z[i][q]) for i in range(2 * n))
    Z2 = tuple(tuple((Z[i][j] + X[i][j]) % 2 if j == q else Z[i][j] for j in range(n)) for i in range(2 * n))
    return (n, X, Z2, R, IP)
def cnot_gate(t, c, tg):
    n, X, Z, R, IP = t
    R = tuple(R[i] ^ (X[i][c] * Z[i][tg] * (X[i][tg] ^ Z[i][c] ^ 1)) for i in range(2 * n))
    X2 = tuple(tuple((X[i][j] + X[i][c]) % 2 if j == tg else X[i][j] for j in range(n)) for i in range(2 * n))
    Z2 = tuple(tuple((Z[i][j] + Z[i][tg]) % 2 if j == c else Z[i][j] for j in range(n)) for i in range(2 * n))
    return (n, X2, Z2, R, IP)
def x_gate(t, q): return h_gate(p_gate(p_gate(h_gate(t, q), q), q), q)

def reset_z(t, q, intended, det):
    t, outcome, xp = z_measurement(t, q, det)
    n, X, Z, R, IP = t
    if xp:
        return (n, X, Z, setval(R, xp, intended), setval(IP, xp, 0))
    return t if outcome == intended else x_gate(t, q)

def insert_qubit(t, p, as_coded=True):
    n, X, Z, R, IP = t
    if not p <= n: raise ModelError("assertion")
    def ins_block(M):          # insert zero column p in every row, zero rows at p and at n+p (in the 2n-row layout)
        rows = [r[:p] + (0,) + r[p:] for r in M]
        top, bot = rows[:n], rows[n:]
        z = (0,) * (n + 1)
        return tuple(top[:p] + [z] + top[p:] + bot[:p] + [z] + bot[p:])
    X2, Z2 = ins_block(X), ins_block(Z)
    second = n + 1 + p if as_coded else n + p         # D4: index relative to the ORIGINAL vector
    def ins_vec(V):
        if second > 2 * n: raise ModelError("index")
        out = list(V); out.insert(second, 0); out.insert(p, 0); return tuple(out)
    R2, IP2 = ins_vec(R), ins_vec(IP)
    X2 = setrow(X2, p, tuple(1 if j == p else X2[p][j] for j in range(n + 1)))
    Z2 = setrow(Z2, n + 1 + p, tuple(1 if j == p else Z2[n + 1 + p][j] for j in range(n + 1)))
    return (n + 1, X2, Z2, R2, IP2)

def swap_gate(t, a, b, as_coded=True):
    n, X, Z, R, IP = t
    sw = lambda row: tuple(row[b] if j == a else row[a] if j == b else row[j] for j in range(n))
    X2, Z2 = tuple(sw(r) for r in X), tuple(sw(r) for r in Z)
    if as_coded:                                      # D29: sign bits of rows a,b (and a+n,b+n) are exchanged too
        R = S.swap(S.swap(R, a, b), a + n, b + n); IP = S.swap(S.swap(IP, a, b), a + n, b + n)
    return (n, X2, Z2, R, IP)
