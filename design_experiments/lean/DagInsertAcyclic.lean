import Mathlib.Logic.Relation
open Relation

namespace Feas4
variable {α : Type}

def Acyclic (E : α → α → Prop) : Prop := ∀ a, ¬ TransGen E a a

/-- the relation after inserting a fresh node `w` on the edges `(u1,v1)` and `(u2,v2)`
    (old edges are kept: removing them only removes paths) -/
def Ins (E : α → α → Prop) (w u1 v1 u2 v2 : α) : α → α → Prop :=
  fun a b => E a b ∨ (b = w ∧ (a = u1 ∨ a = u2)) ∨ (a = w ∧ (b = v1 ∨ b = v2))

theorem path_from_old {E : α → α → Prop} {w u1 v1 u2 v2 : α}
    (hfresh : ∀ a, ¬ E a w ∧ ¬ E w a) {a b : α} (ha : a ≠ w)
    (h : TransGen (Ins E w u1 v1 u2 v2) a b) :
    (b ≠ w ∧ TransGen E a b) ∨ ReflTransGen E a u1 ∨ ReflTransGen E a u2 := by
  induction h with
  | single hab =>
    rcases hab with h | ⟨_, h | h⟩ | ⟨h, _⟩
    · left; exact ⟨fun hb => (hfresh a).1 (hb ▸ h), TransGen.single h⟩
    · right; left; rw [h]
    · right; right; rw [h]
    · exact absurd h ha
  | tail hac hcb ih =>
    rename_i c b'
    rcases ih with ⟨hc, hac'⟩ | h | h
    · rcases hcb with h | ⟨_, h | h⟩ | ⟨h, _⟩
      · left; exact ⟨fun hb => (hfresh c).1 (hb ▸ h), TransGen.tail hac' h⟩
      · right; left; rw [← h]; exact hac'.to_reflTransGen
      · right; right; rw [← h]; exact hac'.to_reflTransGen
      · exact absurd h hc
    · right; left; exact h
    · right; right; exact h

theorem through_w {E : α → α → Prop} {w u1 v1 u2 v2 : α} {a b : α}
    (h : TransGen (Ins E w u1 v1 u2 v2) a b) :
    TransGen E a b ∨
      (ReflTransGen (Ins E w u1 v1 u2 v2) a w ∧ ReflTransGen (Ins E w u1 v1 u2 v2) w b) := by
  induction h with
  | single hab =>
    rcases hab with h | ⟨hb, h⟩ | ⟨ha, h⟩
    · left; exact TransGen.single h
    · right; subst hb; exact ⟨ReflTransGen.single (Or.inr (Or.inl ⟨rfl, h⟩)), ReflTransGen.refl⟩
    · right; subst ha; exact ⟨ReflTransGen.refl, ReflTransGen.single (Or.inr (Or.inr ⟨rfl, h⟩))⟩
  | tail hac hcb ih =>
    rcases ih with h | ⟨h1, h2⟩
    · rcases hcb with h' | ⟨hb, h'⟩ | ⟨hc, h'⟩
      · left; exact TransGen.tail h h'
      · right; subst hb
        exact ⟨hac.to_reflTransGen.tail (Or.inr (Or.inl ⟨rfl, h'⟩)), ReflTransGen.refl⟩
      · right; subst hc
        exact ⟨hac.to_reflTransGen, ReflTransGen.single (Or.inr (Or.inr ⟨rfl, h'⟩))⟩
    · right; exact ⟨h1, h2.tail hcb⟩

theorem ins_acyclic {E : α → α → Prop} {w u1 v1 u2 v2 : α}
    (hE : Acyclic E) (hfresh : ∀ a, ¬ E a w ∧ ¬ E w a)
    (he1 : E u1 v1) (he2 : E u2 v2)
    (h12 : ¬ ReflTransGen E v1 u2) (h21 : ¬ ReflTransGen E v2 u1) :
    Acyclic (Ins E w u1 v1 u2 v2) := by
  have hv1 : v1 ≠ w := fun h => (hfresh u1).1 (h ▸ he1)
  have hv2 : v2 ≠ w := fun h => (hfresh u2).1 (h ▸ he2)
  have hu1 : u1 ≠ w := fun h => (hfresh v1).2 (h ▸ he1)
  have hu2 : u2 ≠ w := fun h => (hfresh v2).2 (h ▸ he2)
  have key : ∀ v, (v = v1 ∨ v = v2) → ¬ TransGen (Ins E w u1 v1 u2 v2) v w := by
    intro v hvv hvb
    have hv : v ≠ w := by rcases hvv with rfl | rfl <;> assumption
    rcases path_from_old hfresh hv hvb with ⟨hne, _⟩ | h | h
    · exact hne rfl
    · rcases hvv with rfl | rfl
      · exact hE u1 (TransGen.head' he1 h)
      · exact h21 h
    · rcases hvv with rfl | rfl
      · exact h12 h
      · exact hE u2 (TransGen.head' he2 h)
  -- no cycle through w
  have nocyc_w : ¬ TransGen (Ins E w u1 v1 u2 v2) w w := by
    intro hww
    rcases TransGen.head'_iff.mp hww with ⟨c, hwc, hcw⟩
    rcases hwc with h | ⟨_, h | h⟩ | ⟨_, hc⟩
    · exact (hfresh c).2 h
    · exact hu1 h.symm
    · exact hu2 h.symm
    · have hcne : c ≠ w := by rcases hc with rfl | rfl <;> assumption
      rcases reflTransGen_iff_eq_or_transGen.mp hcw with h | h
      · exact hcne h.symm
      · exact key c hc h
  intro a haa
  by_cases haw : a = w
  · subst haw; exact nocyc_w haa
  · rcases through_w haa with h | ⟨h1, h2⟩
    · exact hE a h
    · rcases reflTransGen_iff_eq_or_transGen.mp h1 with h | h1'
      · exact haw h.symm
      · rcases reflTransGen_iff_eq_or_transGen.mp h2 with h | h2'
        · exact haw h
        · exact nocyc_w (h2'.trans h1')

end Feas4
