namespace Feas3

def parityTo (n : Nat) (f : Nat → Bool) : Bool :=
  match n with
  | 0 => false
  | k+1 => xor (parityTo k f) (f k)

theorem parityTo_false (n : Nat) : parityTo n (fun _ => false) = false := by
  induction n with
  | zero => rfl
  | succ k ih => simp [parityTo, ih]

theorem parityTo_xor (n : Nat) (f g : Nat → Bool) :
    parityTo n (fun j => xor (f j) (g j)) = xor (parityTo n f) (parityTo n g) := by
  induction n with
  | zero => rfl
  | succ k ih => simp only [parityTo, ih]; cases parityTo k f <;> cases parityTo k g <;> cases f k <;> cases g k <;> rfl

theorem parityTo_congr (n : Nat) (f g : Nat → Bool) (h : ∀ j, j < n → f j = g j) :
    parityTo n f = parityTo n g := by
  induction n with
  | zero => rfl
  | succ k ih =>
    simp only [parityTo]
    rw [ih (fun j hj => h j (Nat.lt_succ_of_lt hj)), h k (Nat.lt_succ_self k)]

theorem parityTo_single (n q : Nat) (f : Nat → Bool) (hq : q < n) :
    parityTo n (fun j => decide (j = q) && f j) = f q := by
  induction n with
  | zero => omega
  | succ k ih =>
    simp only [parityTo]
    by_cases hk : k = q
    · subst hk
      have h0 : parityTo k (fun j => decide (j = k) && f j) = false := by
        rw [parityTo_congr k (fun j => decide (j = k) && f j) (fun _ => false)
          (by intro j hj; have : j ≠ k := by omega
              simp [this])]
        exact parityTo_false k
      rw [h0]; simp
    · have hq' : q < k := by omega
      rw [ih hq']
      have hne : decide (k = q) = false := by simp [hk]
      rw [hne]; simp

structure Row where
  x : Nat → Bool
  z : Nat → Bool

def sp (n : Nat) (a b : Row) : Bool :=
  parityTo n (fun j => xor (a.x j && b.z j) (a.z j && b.x j))

def Row.add (a b : Row) : Row := ⟨fun j => xor (a.x j) (b.x j), fun j => xor (a.z j) (b.z j)⟩

def Row.addIf (c : Bool) (g a : Row) : Row := if c then g.add a else a

theorem sp_add_left (n : Nat) (a b c : Row) : sp n (a.add b) c = xor (sp n a c) (sp n b c) := by
  unfold sp
  rw [← parityTo_xor]
  apply parityTo_congr
  intro j _
  show xor ((xor (a.x j) (b.x j)) && c.z j) ((xor (a.z j) (b.z j)) && c.x j) = _
  cases a.x j <;> cases a.z j <;> cases b.x j <;> cases b.z j <;> cases c.x j <;> cases c.z j <;> rfl

theorem sp_comm (n : Nat) (a b : Row) : sp n a b = sp n b a := by
  unfold sp
  apply parityTo_congr
  intro j _
  show xor (a.x j && b.z j) (a.z j && b.x j) = xor (b.x j && a.z j) (b.z j && a.x j)
  cases a.x j <;> cases a.z j <;> cases b.x j <;> cases b.z j <;> rfl

theorem sp_add_right (n : Nat) (a b c : Row) : sp n c (a.add b) = xor (sp n c a) (sp n c b) := by
  rw [sp_comm, sp_add_left, sp_comm n a c, sp_comm n b c]

theorem sp_self (n : Nat) (a : Row) : sp n a a = false := by
  unfold sp
  rw [parityTo_congr n (fun j => xor (a.x j && a.z j) (a.z j && a.x j)) (fun _ => false)
    (by intro j _; show xor (a.x j && a.z j) (a.z j && a.x j) = false
        cases a.x j <;> cases a.z j <;> rfl)]
  exact parityTo_false n

def Zq (q : Nat) : Row := ⟨fun _ => false, fun j => decide (j = q)⟩

theorem sp_Zq (n q : Nat) (a : Row) (hq : q < n) : sp n a (Zq q) = a.x q := by
  unfold sp
  rw [parityTo_congr n _ (fun j => decide (j = q) && a.x j)
     (by intro j _; show xor (a.x j && decide (j = q)) (a.z j && false) = (decide (j = q) && a.x j)
         cases a.x j <;> cases a.z j <;> cases decide (j = q) <;> rfl)]
  exact parityTo_single n q a.x hq

/-- core algebra of the random-measurement update: two updated rows keep their symplectic product -/
theorem meas_pair (n : Nat) (g t1 t2 : Row) (a1 a2 : Bool)
    (h1 : sp n t1 g = false) (h2 : sp n t2 g = false) :
    sp n (Row.addIf a1 g t1) (Row.addIf a2 g t2) = sp n t1 t2 := by
  have h1' : sp n g t1 = false := by rw [sp_comm]; exact h1
  have h2' : sp n g t2 = false := by rw [sp_comm]; exact h2
  cases a1 <;> cases a2 <;>
    simp [Row.addIf, sp_add_left, sp_add_right, sp_self, h1, h2, h1', h2']

/-- updated rows commute with Z_q -/
theorem meas_commZ (n q : Nat) (g t : Row) (hq : q < n) (hg : g.x q = true) :
    sp n (Row.addIf (t.x q) g t) (Zq q) = false := by
  rw [sp_Zq n q _ hq]
  unfold Row.addIf Row.add
  cases h : t.x q <;> simp [h, hg]

end Feas3
