namespace Cliff
/-- Gaussian integer -/
structure GI where
  re : Int
  im : Int
deriving DecidableEq, Repr, Inhabited
instance : Add GI := ⟨fun a b => ⟨a.re+b.re, a.im+b.im⟩⟩
instance : Mul GI := ⟨fun a b => ⟨a.re*b.re - a.im*b.im, a.re*b.im + a.im*b.re⟩⟩
instance : OfNat GI n := ⟨⟨n, 0⟩⟩
/-- 2x2 matrix, row-major -/
structure M2 where
  a : GI
  b : GI
  c : GI
  d : GI
deriving DecidableEq, Repr, Inhabited
def M2.mul (m n : M2) : M2 :=
  ⟨m.a*n.a + m.b*n.c, m.a*n.b + m.b*n.d, m.c*n.a + m.d*n.c, m.c*n.b + m.d*n.d⟩
def M2.entries (m : M2) : List GI := [m.a, m.b, m.c, m.d]
/-- projective equality: all 2x2 minors of the 2x4 matrix [m; n] vanish, both nonzero -/
def M2.peq (m n : M2) : Bool :=
  let e := m.entries; let f := n.entries
  (List.range 4).all fun i => (List.range 4).all fun j =>
    e[i]! * f[j]! == e[j]! * f[i]!
def I2 : M2 := ⟨1,0,0,1⟩
def H : M2 := ⟨1,1,1,⟨-1,0⟩⟩
def P : M2 := ⟨1,0,0,⟨0,1⟩⟩
def X : M2 := ⟨0,1,1,0⟩
def Y : M2 := ⟨0,⟨0,-1⟩,⟨0,1⟩,0⟩
def Z : M2 := ⟨1,0,0,⟨-1,0⟩⟩
def prod (l : List M2) : M2 := l.foldl M2.mul I2
def A : List (List M2) := [[I2],[H,P,H,P],[H,P],[H],[P,H,P],[P]]
def B : List (List M2) := [[I2],[X],[Y],[Z]]
def all24 : List M2 := (A.flatMap fun a => B.map fun b => prod (a ++ b))
def find (m : M2) : Option Nat := all24.findIdx? (fun g => g.peq m)
theorem count : all24.length = 24 := by decide
theorem closed : all24.all (fun g => all24.all (fun h => (find (g.mul h)).isSome)) = true := by decide +kernel
theorem distinct : (List.range 24).all (fun i => (List.range 24).all (fun j => i == j || !(all24[i]!.peq all24[j]!))) = true := by decide +kernel
end Cliff
