/-! feasibility: Pauli rows as Nat-indexed Bool functions -/
namespace Feas

/-- AG g-function, exponent of i when multiplying Pauli (x1,z1)*(x2,z2) -/
def g (x1 z1 x2 z2 : Bool) : Int :=
  if !x1 && !z1 then 0
  else if x1 && z1 then (if z2 then 1 else 0) - (if x2 then 1 else 0)
  else if x1 && !z1 then (if z2 then 1 else 0) * (2 * (if x2 then 1 else 0) - 1)
  else (if x2 then 1 else 0) * (1 - 2 * (if z2 then 1 else 0))

def sumTo (n : Nat) (f : Nat → Int) : Int :=
  match n with
  | 0 => 0
  | k+1 => sumTo k f + f k

structure Row where
  x : Nat → Bool
  z : Nat → Bool
  ph : Int   -- exponent of i, mod 4

def Row.mul (n : Nat) (a b : Row) : Row :=
  { x := fun j => xor (a.x j) (b.x j)
    z := fun j => xor (a.z j) (b.z j)
    ph := (a.ph + b.ph + sumTo n (fun j => g (a.x j) (a.z j) (b.x j) (b.z j))) % 4 }

/-- Hadamard conjugation on qubit q: swap x,z; phase += 2*x*z -/
def Row.conjH (q : Nat) (a : Row) : Row :=
  { x := fun j => if j = q then a.z j else a.x j
    z := fun j => if j = q then a.x j else a.z j
    ph := (a.ph + (if a.x q && a.z q then 2 else 0)) % 4 }

theorem sumTo_congr_except (n q : Nat) (f f' : Nat → Int) (h : ∀ j, j ≠ q → f j = f' j) :
    sumTo n f - (if q < n then f q else 0) = sumTo n f' - (if q < n then f' q else 0) := by
  induction n with
  | zero => simp [sumTo]
  | succ k ih =>
    simp only [sumTo]
    by_cases hk : k = q
    · subst hk
      have : ¬ (k < k) := Nat.lt_irrefl k
      simp [this] at ih
      simp
      omega
    · have := h k hk
      by_cases hq : q < k
      · have : q < k + 1 := by omega
        simp_all
        omega
      · have h1 : ¬ q < k + 1 := by omega
        have h2 : ¬ q < k := by omega
        simp only [h1, h2, if_false] at ih ⊢
        omega

theorem g_H (x1 z1 x2 z2 : Bool) :
    (g z1 x1 z2 x2 + (if x1 && z1 then 2 else 0) + (if x2 && z2 then 2 else 0)) % 4
    = (g x1 z1 x2 z2 + (if (xor x1 x2) && (xor z1 z2) then 2 else 0)) % 4 := by
  cases x1 <;> cases z1 <;> cases x2 <;> cases z2 <;> decide


theorem conjH_mul (n q : Nat) (hq : q < n) (a b : Row) :
    ((Row.mul n a b).conjH q).ph = (Row.mul n (a.conjH q) (b.conjH q)).ph := by
  have key := sumTo_congr_except n q
    (fun j => g (a.x j) (a.z j) (b.x j) (b.z j))
    (fun j => g (if j = q then a.z j else a.x j) (if j = q then a.x j else a.z j)
               (if j = q then b.z j else b.x j) (if j = q then b.x j else b.z j))
    (by intro j hj; simp [hj])
  simp only [hq, if_true] at key
  have gh := g_H (a.x q) (a.z q) (b.x q) (b.z q)
  show ((a.ph + b.ph + sumTo n (fun j => g (a.x j) (a.z j) (b.x j) (b.z j))) % 4
        + (if (xor (a.x q) (b.x q)) && (xor (a.z q) (b.z q)) then 2 else 0)) % 4
     = ((a.ph + (if a.x q && a.z q then 2 else 0)) % 4 + (b.ph + (if b.x q && b.z q then 2 else 0)) % 4
        + sumTo n (fun j => g (if j = q then a.z j else a.x j) (if j = q then a.x j else a.z j)
               (if j = q then b.z j else b.x j) (if j = q then b.x j else b.z j))) % 4
  generalize sumTo n (fun j => g (a.x j) (a.z j) (b.x j) (b.z j)) = S at *
  generalize sumTo n (fun j => g (if j = q then a.z j else a.x j) (if j = q then a.x j else a.z j)
               (if j = q then b.z j else b.x j) (if j = q then b.x j else b.z j)) = S' at *
  generalize g (a.x q) (a.z q) (b.x q) (b.z q) = G at *
  generalize g (a.z q) (a.x q) (b.z q) (b.x q) = G' at *
  generalize (if (xor (a.x q) (b.x q)) && (xor (a.z q) (b.z q)) then (2:Int) else 0) = c at *
  generalize (if a.x q && a.z q then (2:Int) else 0) = ca at *
  generalize (if b.x q && b.z q then (2:Int) else 0) = cb at *
  omega

end Feas
