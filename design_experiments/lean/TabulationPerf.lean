namespace TabM
structure Tab where
  n : Nat
  x : Nat → Nat → Bool
  z : Nat → Nat → Bool
  r : Nat → Bool

def hGate (t : Tab) (q : Nat) : Tab :=
  { t with
    r := fun i => xor (t.r i) (t.x i q && t.z i q)
    x := fun i j => if j = q then t.z i j else t.x i j
    z := fun i j => if j = q then t.x i j else t.z i j }

def cnot (t : Tab) (c tg : Nat) : Tab :=
  { t with
    r := fun i => xor (t.r i) (t.x i c && t.z i tg && (xor (xor (t.x i tg) (t.z i c)) true))
    x := fun i j => if j = tg then xor (t.x i j) (t.x i c) else t.x i j
    z := fun i j => if j = c then xor (t.z i j) (t.z i tg) else t.z i j }

/-- materialise into arrays and wrap back, keeping closure depth 1 -/
def norm (t : Tab) : Tab :=
  let rows := 2 * t.n
  let xa : Array (Array Bool) := Array.ofFn (n := rows) fun i => Array.ofFn (n := t.n) fun j => t.x i j
  let za : Array (Array Bool) := Array.ofFn (n := rows) fun i => Array.ofFn (n := t.n) fun j => t.z i j
  let ra : Array Bool := Array.ofFn (n := rows) fun i => t.r i
  { n := t.n
    x := fun i j => (xa.getD i #[]).getD j false
    z := fun i j => (za.getD i #[]).getD j false
    r := fun i => ra.getD i false }

def init (n : Nat) : Tab :=
  { n := n, x := fun i j => i == j, z := fun i j => i == j + n, r := fun _ => false }

def checksum (t : Tab) : Nat := Id.run do
  let mut s := 0
  for i in [0:2*t.n] do
    for j in [0:t.n] do
      if t.x i j then s := s + (i+1)*(j+3)
      if t.z i j then s := s + (i+7)*(j+1)
    if t.r i then s := s + i
  return s
end TabM
