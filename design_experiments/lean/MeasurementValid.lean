import Sym
namespace Feas3

/-- a tableau: rows 0..2n-1 (destabilizers then stabilizers), sign bits r -/
structure Tab where
  n : Nat
  row : Nat → Row
  r : Nat → Bool

/-- rows `i k` anticommute iff they are a destabilizer/stabilizer pair -/
def Tab.Valid (t : Tab) : Prop :=
  ∀ i k, i < 2 * t.n → k < 2 * t.n → sp t.n (t.row i) (t.row k) = decide (i + t.n = k ∨ k + t.n = i)

/-- symplectic part of the random-outcome branch of `z_measurement_gate`
    (signs are handled separately): `p` is the chosen stabilizer row with an X on qubit `q` -/
def Tab.measRandom (t : Tab) (q p : Nat) (outcome : Bool) : Tab :=
  let g := t.row p
  { n := t.n
    row := fun i =>
      if i = p then Zq q
      else if i + t.n = p then g
      else Row.addIf ((t.row i).x q) g (t.row i)
    r := fun i => if i = p then outcome else t.r i }   -- placeholder sign rule for non-pivot rows

theorem sp_Zq_left (n q : Nat) (a : Row) (hq : q < n) : sp n (Zq q) a = a.x q := by
  rw [sp_comm]; exact sp_Zq n q a hq

theorem sp_Zq_Zq (n q : Nat) (hq : q < n) : sp n (Zq q) (Zq q) = false := sp_self n _

theorem meas_commG (n : Nat) (g t : Row) (a : Bool) (h : sp n t g = false) :
    sp n (Row.addIf a g t) g = false := by
  cases a <;> simp [Row.addIf, sp_add_left, sp_self, h]

theorem mr_n (t : Tab) (q p : Nat) (o : Bool) : (t.measRandom q p o).n = t.n := rfl
theorem mr_row_p (t : Tab) (q p : Nat) (o : Bool) : (t.measRandom q p o).row p = Zq q := by
  simp [Tab.measRandom]
theorem mr_row_d (t : Tab) (q p i : Nat) (o : Bool) (h1 : i ≠ p) (h2 : i + t.n = p) :
    (t.measRandom q p o).row i = t.row p := by
  simp [Tab.measRandom, h1, h2]
theorem mr_row_o (t : Tab) (q p i : Nat) (o : Bool) (h1 : i ≠ p) (h2 : i + t.n ≠ p) :
    (t.measRandom q p o).row i = Row.addIf ((t.row i).x q) (t.row p) (t.row i) := by
  simp [Tab.measRandom, h1, h2]

theorem measRandom_valid (t : Tab) (q p : Nat) (o : Bool)
    (hv : t.Valid) (hq : q < t.n) (hp1 : t.n ≤ p) (hp2 : p < 2 * t.n)
    (hx : (t.row p).x q = true) : (t.measRandom q p o).Valid := by
  intro i k hi hk
  rw [mr_n] at hi hk ⊢
  have hg : ∀ j, j < 2 * t.n → j + t.n ≠ p → j ≠ p → sp t.n (t.row j) (t.row p) = false := by
    intro j hj h1 h2
    rw [hv j p hj hp2]
    exact decide_eq_false (by omega)
  by_cases hip : i = p
  · by_cases hkp : k = p
    · rw [hip, hkp, mr_row_p, sp_self]
      exact (decide_eq_false (by omega)).symm
    · by_cases hkd : k + t.n = p
      · rw [hip, mr_row_p, mr_row_d t q p k o hkp hkd, sp_Zq_left _ _ _ hq, hx]
        exact (decide_eq_true (by omega)).symm
      · rw [hip, mr_row_p, mr_row_o t q p k o hkp hkd, sp_comm,
            meas_commZ t.n q (t.row p) (t.row k) hq hx]
        exact (decide_eq_false (by omega)).symm
  · by_cases hid : i + t.n = p
    · by_cases hkp : k = p
      · rw [hkp, mr_row_p, mr_row_d t q p i o hip hid, sp_Zq _ _ _ hq, hx]
        exact (decide_eq_true (by omega)).symm
      · by_cases hkd : k + t.n = p
        · rw [mr_row_d t q p i o hip hid, mr_row_d t q p k o hkp hkd, sp_self]
          exact (decide_eq_false (by omega)).symm
        · rw [mr_row_d t q p i o hip hid, mr_row_o t q p k o hkp hkd, sp_comm,
              meas_commG t.n (t.row p) (t.row k) _ (hg k hk hkd hkp)]
          exact (decide_eq_false (by omega)).symm
    · by_cases hkp : k = p
      · rw [hkp, mr_row_p, mr_row_o t q p i o hip hid,
            meas_commZ t.n q (t.row p) (t.row i) hq hx]
        exact (decide_eq_false (by omega)).symm
      · by_cases hkd : k + t.n = p
        · rw [mr_row_o t q p i o hip hid, mr_row_d t q p k o hkp hkd,
              meas_commG t.n (t.row p) (t.row i) _ (hg i hi hid hip)]
          exact (decide_eq_false (by omega)).symm
        · rw [mr_row_o t q p i o hip hid, mr_row_o t q p k o hkp hkd,
              meas_pair t.n (t.row p) (t.row i) (t.row k) _ _ (hg i hi hid hip) (hg k hk hkd hkp)]
          exact hv i k hi hk

end Feas3
