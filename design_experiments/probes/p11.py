import warnings; warnings.filterwarnings("ignore")
import numpy as np, itertools
from graphiq.circuit.circuit_dag import CircuitDAG
from graphiq.circuit import ops
from graphiq.backends.density_matrix.compiler import DensityMatrixCompiler
rng = np.random.default_rng(3)
one = [ops.Hadamard, ops.Phase, ops.SigmaX]
def rand_circ(n, L):
    spec = []
    for _ in range(L):
        if rng.integers(2) and n > 1:
            a, b = rng.choice(n, 2, replace=False); spec.append(("CNOT", int(a), int(b)))
        else:
            spec.append((int(rng.integers(3)), int(rng.integers(n))))
    return spec
def build(n, spec):
    c = CircuitDAG(n_emitter=n, n_photon=0, n_classical=0)
    for s in spec:
        if s[0] == "CNOT": c.add(ops.CNOT(control=s[1], control_type='e', target=s[2], target_type='e'))
        else: c.add(one[s[0]](register=s[1], reg_type='e'))
    return c
def mutate(n, spec):
    s = list(spec)
    idx = [i for i, x in enumerate(s) if x[0] == "CNOT"]
    if not idx: return None
    i = int(rng.choice(idx)); s[i] = ("CNOT", s[i][2], s[i][1]); return s
k = DensityMatrixCompiler()
def perm_state(rho, n, perm):
    t = rho.reshape([2]*(2*n))
    t = np.transpose(t, list(perm) + [n + p for p in perm])
    return t.reshape(2**n, 2**n)
found = 0
for trial in range(3000):
    n = 2 if trial % 2 else 3
    spec = rand_circ(n, int(rng.integers(2, 7)))
    spec2 = mutate(n, spec)
    if spec2 is None: continue
    a, b = build(n, spec), build(n, spec2)
    if a.compare(b, method="is_isomorphic"):
        ra = k.compile(build(n, spec)).rep_data.data; rb = k.compile(build(n, spec2)).rep_data.data
        same = any(np.allclose(perm_state(rb, n, p), ra) for p in itertools.permutations(range(n)))
        if not same:
            found += 1
            if found <= 3: print("COUNTEREXAMPLE", n, spec, spec2)
print("found", found)
