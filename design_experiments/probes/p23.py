import warnings; warnings.filterwarnings("ignore")
import numpy as np, networkx as nx, collections, io, contextlib
from graphiq.backends.stabilizer.compiler import StabilizerCompiler
from graphiq.backends.density_matrix.compiler import DensityMatrixCompiler
from graphiq.solvers.hybrid_solvers import HybridEvolutionarySolver
from graphiq.solvers.evolutionary_solver import EvolutionarySolver, EvolutionarySolverSetting
from graphiq.metrics import Infidelity
from graphiq.state import QuantumState
st = collections.Counter()
for gi, g in enumerate([nx.path_graph(3), nx.cycle_graph(4), nx.star_graph(3)]):
    for seed in range(4):
        for sel in (False, True):
            for adapt in (False, True):
                target = QuantumState(g, rep_type="g"); target.convert_representation("s")
                comp = StabilizerCompiler(); comp.measurement_determinism = 1
                setting = EvolutionarySolverSetting(n_hof=3, n_stop=5, n_pop=5, selection_active=sel, use_adapt_probability=adapt)
                K = HybridEvolutionarySolver if seed % 2 else EvolutionarySolver
                kw = {} if K is HybridEvolutionarySolver else dict(n_emitter=2 if gi else 1, n_photon=g.number_of_nodes())
                s = K(target=target, metric=Infidelity(target), compiler=comp, solver_setting=setting, **kw)
                bests = []
                orig = s.update_hof
                def wrapped(pop, orig=orig, s=s):
                    orig(pop); bests.append(float(s.hof[0][0]))
                s.update_hof = wrapped
                s.seed(seed)
                try:
                    with contextlib.redirect_stdout(io.StringIO()): s.solve()
                except Exception as e:
                    st[f"EXC {K.__name__} {type(e).__name__} {str(e)[:50]}"] += 1; continue
                scores = [float(x[0]) for x in s.hof]
                if any(a > b + 1e-12 for a, b in zip(scores, scores[1:])): st["hof not sorted"] += 1
                if any(a < b - 1e-12 for a, b in zip(bests, bests[1:])): st["best got worse"] += 1
                if s.result[0] != s.hof[0][0] or s.result[1] is not s.hof[0][1]: st["result != hof[0]"] += 1
                for sc, c in s.hof:
                    if c is None: st["hof None entry"] += 1; continue
                    stt = comp.compile(c); stt.partial_trace(list(range(s.n_photon)), (s.n_photon + s.n_emitter) * [2])
                    re = Infidelity(target).evaluate(stt, c)
                    if not np.isclose(re, sc): st["stored score != re-eval"] += 1
                st["runs"] += 1
for k in sorted(st): print(k, st[k])
