import warnings; warnings.filterwarnings("ignore")
import numpy as np, networkx as nx, traceback
from graphiq.utils.relabel_module import lc_orbit_finder
for seed in range(30):
    g = nx.gnp_random_graph(5, 0.6, seed=seed); np.random.seed(1)
    try:
        lc_orbit_finder(g, rand=True, with_iso=True, rep_allowed=True, orbit_size_thresh=6)
    except Exception as e:
        tb = traceback.format_exc().strip().splitlines(); print(seed, tb[-3].strip()[:100], "|", tb[-1][:100]); break
