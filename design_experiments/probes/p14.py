import warnings; warnings.filterwarnings("ignore")
import numpy as np, networkx as nx, itertools
from functools import reduce
from graphiq.backends.stabilizer.compiler import StabilizerCompiler
from graphiq.backends.density_matrix.compiler import DensityMatrixCompiler
from graphiq.backends.state_rep_conversion import graph_to_density
from graphiq.solvers.time_reversed_solver import TimeReversedSolver
from graphiq.metrics import Infidelity
from graphiq.state import QuantumState
import graphiq.backends.stabilizer.functions.utils as sfu
rng = np.random.default_rng(2)
def dm_of_tab(t):
    n=t.n_qubits; s=t.to_stabilizer(); rho=np.eye(2**n,dtype=complex)
    for lab,ph in zip(s.to_labels(), s.phase):
        rho = rho @ (np.eye(2**n)+((-1)**int(ph))*sfu.get_stabilizer_element_by_string(lab))/2
    return rho
def all_graphs(n):
    pairs = list(itertools.combinations(range(n), 2))
    for mask in range(2**len(pairs)):
        g = nx.Graph(); g.add_nodes_from(range(n))
        g.add_edges_from([p for i,p in enumerate(pairs) if mask>>i & 1])
        yield g
bad = 0; tot = 0; skipped = 0
graphs = []
for n in (2,3,4): graphs += list(all_graphs(n))
for _ in range(40):
    n = int(rng.integers(5,7)); g = nx.gnp_random_graph(n, 0.5, seed=int(rng.integers(1e6))); graphs.append(g)
for g in graphs:
    n = g.number_of_nodes()
    if any(d == 0 for _, d in g.degree()): skipped += 1; continue
    target = QuantumState(g, rep_type="g")
    try:
        s = TimeReversedSolver(target=target, metric=Infidelity(target), compiler=StabilizerCompiler()); s.solve()
    except Exception as e:
        print("SOLVE EXC", type(e).__name__, list(g.edges)); bad += 1; continue
    score, circ = s.result
    ne = circ.n_emitters
    e0 = np.zeros((2,2)); e0[0,0] = 1
    expect = np.kron(graph_to_density(g), reduce(np.kron, [e0]*ne)) if ne else graph_to_density(g)
    for det in (0, 1, "probabilistic"):
        for K in (StabilizerCompiler, DensityMatrixCompiler):
            if K is DensityMatrixCompiler and n + ne > 8: continue
            k = K(); k.measurement_determinism = det
            st = k.compile(circ)
            rho = st.rep_data.data if K is DensityMatrixCompiler else dm_of_tab(st.rep_data.data)
            tot += 1
            if not np.allclose(rho, expect, atol=1e-9):
                bad += 1
                if bad < 8: print("BAD", K.__name__, det, n, ne, list(g.edges), "score", score)
    if not np.isclose(score, 0): print("SCORE", score, list(g.edges))
print("graphs", len(graphs), "skipped(isolated)", skipped, "checks", tot, "bad", bad)
