import warnings; warnings.filterwarnings("ignore")
import numpy as np
from graphiq.backends.density_matrix.compiler import DensityMatrixCompiler
from graphiq.backends.stabilizer.compiler import StabilizerCompiler
from graphiq.circuit.circuit_dag import CircuitDAG
from graphiq.circuit import ops
# H H on one qubit: state |0> up to rounding; measure with forced outcome 1
c = CircuitDAG(n_emitter=1, n_photon=0, n_classical=1)
for _ in range(2): c.add(ops.Hadamard(register=0, reg_type='e'))
c.add(ops.MeasurementZ(register=0, reg_type='e', c_register=0))
for det in (0, 1):
    k = DensityMatrixCompiler(); k.measurement_determinism = det
    s = k.compile(c); print("dm det", det, np.round(s.rep_data.data, 6).tolist())
    k = StabilizerCompiler(); k.measurement_determinism = det
    s = k.compile(c); print("stab det", det, s.rep_data.data.stabilizer_to_labels(), s.rep_data.data.phase)
