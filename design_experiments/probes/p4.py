import warnings; warnings.filterwarnings("ignore")
import numpy as np, networkx as nx, sys, io, contextlib
from graphiq.backends.stabilizer.compiler import StabilizerCompiler
from graphiq.backends.density_matrix.compiler import DensityMatrixCompiler
from graphiq.circuit.circuit_dag import CircuitDAG
from graphiq.circuit import ops
import graphiq.noise.noise_models as nm
from graphiq.state import QuantumState
from graphiq.metrics import Infidelity
def t(name, f):
    try:
        with contextlib.redirect_stdout(io.StringIO()):
            r = f()
        print(name, "->", r)
    except Exception as e:
        print(name, "EXC", type(e).__name__, str(e)[:200])
# D2: record of MCR in stabilizer backend
class Spy(StabilizerCompiler):
    def compile_one_gate(self, state, op, n_quantum, q_index, classical_registers):
        super().compile_one_gate(state, op, n_quantum, q_index, classical_registers)
        self.rec.append((type(op).__name__, classical_registers.copy()))
class SpyD(DensityMatrixCompiler):
    def compile_one_gate(self, state, op, n_quantum, q_index, classical_registers):
        super().compile_one_gate(state, op, n_quantum, q_index, classical_registers)
        self.rec.append((type(op).__name__, classical_registers.copy()))
def d2():
    c = CircuitDAG(n_emitter=1, n_photon=1, n_classical=1)
    c.add(ops.SigmaX(register=0, reg_type='e'))
    c.add(ops.MeasurementCNOTandReset(control=0, control_type='e', target=0, target_type='p', c_register=0))
    out = []
    for K in (Spy, SpyD):
        k = K(); k.rec = []; k.measurement_determinism = 1
        k.compile(c); out.append([r for r in k.rec if r[0] not in ("Input","Output")])
    return out
t("D2 record", d2)
# D10 PauliError on MixedStabilizer
def d10():
    c = CircuitDAG(n_emitter=1, n_photon=0, n_classical=0)
    c.add(ops.Hadamard(register=0, reg_type='e', noise=nm.PauliError("X")))
    k = StabilizerCompiler(); k.noise_simulation = True
    s = k.compile(c)
    return type(s.rep_data).__name__
t("D10 PauliError mixed stab", d10)
def d10b():
    c = CircuitDAG(n_emitter=1, n_photon=1, n_classical=0)
    c.add(ops.Hadamard(register=0, reg_type='e', noise=nm.DepolarizingNoise(0.1)))
    c.add(ops.CNOT(control=0, control_type='e', target=0, target_type='p', noise=nm.DepolarizingNoise(0.1)))
    k = StabilizerCompiler(); k.noise_simulation = True
    s = k.compile(c)
    kd = DensityMatrixCompiler(); kd.noise_simulation = True
    sd = kd.compile(c)
    tgt = QuantumState(nx.Graph([(0,1)]), rep_type='g'); tgt.convert_representation('s')
    tgtd = QuantumState(nx.Graph([(0,1)]), rep_type='g'); tgtd.convert_representation('dm')
    return len(s.rep_data.mixture), s.rep_data.probability, float(np.real(np.trace(sd.rep_data.data)))
t("D10b depol both", d10b)
# D11 reduce
from graphiq.backends.stabilizer.state import MixedStabilizer
from graphiq.backends.stabilizer.clifford_tableau import CliffordTableau
def d11():
    a = CliffordTableau(1)
    m = MixedStabilizer([(0.25, a.copy()), (0.25, a.copy()), (0.25, a.copy()), (0.25, a.copy())])
    m.reduce()
    return [(p) for p,_ in m.mixture]
t("D11 reduce 4 equal", d11)
# D12 wrapped noise order
def d12():
    c = CircuitDAG(n_emitter=1, n_photon=0, n_classical=0)
    c.add(ops.OneQubitGateWrapper([ops.Hadamard, ops.Phase], register=0, reg_type='e'))
    n = c.assign_noise({"e": {"Hadamard": nm.PauliError("X")}, "p": {}, "ee": {}, "ep": {}})
    w = [o for o in n.sequence() if isinstance(o, ops.OneQubitGateWrapper)][0]
    return [type(x).__name__ for x in w.noise], [(type(g).__name__, type(g.noise).__name__) for g in w.unwrap()]
t("D12 wrapped noise", d12)
# D22 iso blind
def d22():
    def mk(swap):
        c = CircuitDAG(n_emitter=2, n_photon=0, n_classical=1)
        c.add(ops.ClassicalCNOT(control=0, control_type='e', target=1, target_type='e', c_register=0))
        if swap:
            c.add(ops.ClassicalCNOT(control=1, control_type='e', target=0, target_type='e', c_register=0))
        else:
            c.add(ops.ClassicalCNOT(control=0, control_type='e', target=1, target_type='e', c_register=0))
        return c
    return mk(False).compare(mk(True), method="is_isomorphic"), mk(False).compare(mk(True), method="direct")
t("D22 iso classical swap", d22)
