import warnings; warnings.filterwarnings("ignore")
import numpy as np, collections
import graphiq.backends.density_matrix.functions as dmf
from graphiq.circuit import ops
a, b = ops.local_clifford_composition(); all24 = [x + y for x in a for y in b]
cnt = collections.Counter(); ex = None
for i in range(24):
    for j in range(24):
        w = all24[i] + all24[j]
        try:
            sgl = ops.simplify_local_clifford(w)
            if sgl not in all24: cnt["not member"] += 1
            elif not dmf.check_equivalent_unitaries(ops.local_clifford_to_matrix_map(sgl), ops.local_clifford_to_matrix_map(w)): cnt["not equivalent"] += 1
            else: cnt["ok"] += 1
        except Exception as e:
            cnt[f"EXC {type(e).__name__} {e}"] += 1
            if ex is None: ex = ([g.__name__ for g in w], ops.local_clifford_to_matrix_map(w))
print(dict(cnt)); print(ex)
if ex:
    M = ex[1]
    for g in all24:
        G = ops.local_clifford_to_matrix_map(g)
        # projective equality test by cross-multiplication
        k = np.argmax(np.abs(G)); ph = M.flat[k] / G.flat[k]
        if np.allclose(M, ph * G): print("projectively equal to", [x.__name__ for x in g], "phase", ph, "is_unitary(M)", dmf.is_unitary(M)); break
