import warnings; warnings.filterwarnings("ignore")
import numpy as np, networkx as nx, collections, io, contextlib
from graphiq.backends.stabilizer.compiler import StabilizerCompiler
from graphiq.backends.density_matrix.compiler import DensityMatrixCompiler
from graphiq.backends.stabilizer.clifford_tableau import CliffordTableau
from graphiq.backends.stabilizer.functions import transformation as tr
from graphiq.circuit.circuit_dag import CircuitDAG
from graphiq.circuit import ops
import graphiq.noise.noise_models as nm
from graphiq.metrics import Infidelity
from graphiq.state import QuantumState
import graphiq.backends.stabilizer.functions.utils as sfu
rng = np.random.default_rng(21)
ONE = [ops.Hadamard, ops.Phase, ops.PhaseDagger, ops.SigmaX, ops.SigmaY, ops.SigmaZ]
def mk_noise():
    k = rng.integers(0, 4); p = float(rng.choice([0.0, 0.01, 0.1, 1/3, 0.5, 1.0]))
    if k == 0: n = nm.NoNoise(); loss = 0.0
    elif k == 1: n = nm.DepolarizingNoise(p); loss = 0.0
    elif k == 2: n = nm.PauliError(str(rng.choice(["X","Y","Z"]))); loss = 0.0
    else: n = nm.PhotonLoss(p); loss = p
    if k and rng.integers(2): n.noise_parameters["After gate"] = False
    return n, loss
def rand_circ(noisy=True):
    ne, np_ = int(rng.integers(1,3)), int(rng.integers(1,3))
    c = CircuitDAG(n_emitter=ne, n_photon=np_, n_classical=1); regs = [("e", i) for i in range(ne)] + [("p", i) for i in range(np_)]
    surv = 1.0; spec = []
    for _ in range(int(rng.integers(1, 10))):
        if rng.integers(3):
            rt, r = regs[rng.integers(len(regs))]; n, l = mk_noise(); g = ONE[rng.integers(len(ONE))]
            spec.append((g, dict(register=r, reg_type=rt), [n])); surv *= (1 - l)
        else:
            a, b = rng.choice(len(regs), 2, replace=False); (t1, r1), (t2, r2) = regs[a], regs[b]
            n1, l1 = mk_noise(); n2, l2 = mk_noise()
            if n1.noise_parameters["After gate"] != n2.noise_parameters["After gate"] and rng.integers(2): n2.noise_parameters["After gate"] = n1.noise_parameters["After gate"]
            g = [ops.CNOT, ops.CZ][rng.integers(2)]
            spec.append((g, dict(control=r1, control_type=t1, target=r2, target_type=t2), [n1, n2])); surv *= (1 - l1) * (1 - l2)
    for g, kw, ns in spec:
        c.add(g(**kw, noise=ns if len(ns) == 2 else ns[0]))
    clean = CircuitDAG(n_emitter=ne, n_photon=np_, n_classical=1)
    for g, kw, ns in spec: clean.add(g(**kw))
    return c, clean, surv, ne + np_
def dm_of_tab(t):
    n=t.n_qubits; s=t.to_stabilizer(); rho=np.eye(2**n,dtype=complex)
    for lab,ph in zip(s.to_labels(), s.phase):
        rho = rho @ (np.eye(2**n)+((-1)**int(ph))*sfu.get_stabilizer_element_by_string(lab))/2
    return rho
st = collections.Counter()
for trial in range(300):
    c, clean, surv, n = rand_circ()
    try:
        kd = DensityMatrixCompiler(); kd.noise_simulation = True
        with contextlib.redirect_stdout(io.StringIO()): rho = kd.compile(c).rep_data.data
        ev = np.linalg.eigvalsh((rho + rho.conj().T) / 2)
        st["dm psd ok" if ev.min() > -1e-9 else "dm NOT PSD"] += 1
        st["dm trace ok" if abs(np.trace(rho).real - surv) < 1e-9 else "dm TRACE BAD"] += 1
    except Exception as e:
        st[f"dm EXC {type(e).__name__} {str(e)[:60]}"] += 1; rho = None
    try:
        ks = StabilizerCompiler(); ks.noise_simulation = True
        with contextlib.redirect_stdout(io.StringIO()): ms = ks.compile(c).rep_data
        mix = ms.mixture
        w = sum(p for p, _ in mix)
        st["stab weight ok" if abs(w - surv) < 1e-9 else "stab WEIGHT BAD"] += 1
        if rho is not None:
            rs = sum(p * dm_of_tab(t) for p, t in mix)
            st["backends agree" if np.allclose(rs, rho, atol=1e-9) else "backends DISAGREE"] += 1
    except Exception as e:
        st[f"stab EXC {type(e).__name__} {str(e)[:60]}"] += 1
        if st[f"stab EXC {type(e).__name__} {str(e)[:60]}"] <= 2:
            import traceback; tb = traceback.format_exc().strip().splitlines(); print("\n".join(tb[-8:]))
            print([(type(o).__name__, [type(x).__name__+str(x.noise_parameters) for x in (o.noise if isinstance(o.noise, list) else [o.noise])]) for o in c.sequence() if not isinstance(o,(ops.Input,ops.Output))])
    # switched off
    try:
        kd2 = DensityMatrixCompiler(); kd2.noise_simulation = False
        a = kd2.compile(c).rep_data.data; b = DensityMatrixCompiler().compile(clean).rep_data.data
        st["noise off == clean (dm)" if np.allclose(a, b) else "noise off != clean (dm)"] += 1
    except Exception as e:
        st[f"off EXC {type(e).__name__} {str(e)[:60]}"] += 1
for k in sorted(st): print(k, st[k])
