import warnings; warnings.filterwarnings("ignore")
import numpy as np, networkx as nx
from graphiq.backends.density_matrix.compiler import DensityMatrixCompiler
from graphiq.backends.stabilizer.compiler import StabilizerCompiler
from graphiq.circuit.circuit_dag import CircuitDAG
from graphiq.circuit import ops
import graphiq.noise.noise_models as nm
def t(name, f):
    try:
        print(name, "->", f())
    except Exception as e:
        print(name, "EXC", type(e).__name__, str(e)[:200])
def f3():
    c = CircuitDAG(n_emitter=1, n_photon=1, n_classical=1)
    c.add(ops.SigmaX(register=0, reg_type='e'))
    c.add(ops.MeasurementCNOTandReset(control=0, control_type='e', target=0, target_type='p', c_register=0))
    dm = DensityMatrixCompiler(); dm.measurement_determinism = 1
    st = StabilizerCompiler(); st.measurement_determinism = 1
    a = dm.compile(c).rep_data.data
    b = st.compile(c).rep_data.data
    return np.real(np.diag(a)), b.stabilizer_to_labels(), b.phase
t("DM reset", f3)
def f4():
    c = CircuitDAG(n_emitter=1, n_photon=0, n_classical=0)
    c.add(ops.PhaseDagger(register=0, reg_type='e'))
    q = c.to_openqasm()
    return CircuitDAG.from_openqasm(q).to_openqasm()==q
t("qasm sdg", f4)
def f5():
    c = CircuitDAG(n_emitter=1, n_photon=0, n_classical=0)
    c.add(ops.OneQubitGateWrapper([ops.Hadamard, ops.Phase], register=0, reg_type='e'))
    return c.to_openqasm()
t("qasm wrapper", f5)
def f6():
    c = CircuitDAG(n_emitter=1, n_photon=0, n_classical=0)
    c.add(ops.Hadamard(register=0, reg_type='e'))
    st = StabilizerCompiler()
    before = st.compile(c).rep_data.data.stabilizer_to_labels()
    noisy = c.assign_noise({"e": {"Hadamard": nm.PauliError("X")}, "p": {}, "ee": {}, "ep": {}})
    st.noise_simulation = True; st._monte_carlo=True
    after = st.compile(c).rep_data.data
    return before, after.stabilizer_to_labels(), after.phase
t("assign_noise alias", f6)
def f7():
    c1 = CircuitDAG(n_emitter=2, n_photon=0, n_classical=1)
    c1.add(ops.ClassicalCNOT(control=0, control_type='e', target=1, target_type='e', c_register=0))
    c2 = CircuitDAG(n_emitter=2, n_photon=0, n_classical=1)
    c2.add(ops.ClassicalCNOT(control=1, control_type='e', target=0, target_type='e', c_register=0))
    return c1.compare(c2, method="is_isomorphic"), c1.compare(c2, method="direct")
t("compare classical ctrl swap", f7)
def f7b():
    c1 = CircuitDAG(n_emitter=2, n_photon=0, n_classical=1)
    c1.add(ops.CNOT(control=0, control_type='e', target=1, target_type='e'))
    c2 = CircuitDAG(n_emitter=2, n_photon=0, n_classical=1)
    c2.add(ops.CNOT(control=1, control_type='e', target=0, target_type='e'))
    return c1.compare(c2, method="is_isomorphic"), c1.compare(c2, method="direct")
t("compare cnot swap (iso allowed by renaming)", f7b)
from graphiq.backends.stabilizer.functions import metric as sfm, transformation as tr
from graphiq.backends.stabilizer.clifford_tableau import CliffordTableau
def f8():
    a = CliffordTableau(2); b = CliffordTableau(2)
    tr.hadamard_gate(b,0)
    return sfm.fidelity(a,b), sfm.fidelity(b,a), sfm.fidelity(a,a)
t("stab fidelity", f8)
