import warnings; warnings.filterwarnings("ignore")
import numpy as np, itertools
from functools import reduce
from graphiq.backends.stabilizer.clifford_tableau import CliffordTableau
from graphiq.backends.stabilizer.functions import transformation as tr, clifford as sfc
import graphiq.backends.stabilizer.functions.utils as sfu
rng = np.random.default_rng(11)
I2=np.eye(2); X=np.array([[0,1],[1,0]]); Z=np.diag([1,-1]); P0=np.diag([1,0]); P1=np.diag([0,1])
def kron(*a): return reduce(np.kron, a)
def on(n,q,M): return kron(*[M if i==q else I2 for i in range(n)])
def dm_of(t):
    n=t.n_qubits; s=t.to_stabilizer(); rho=np.eye(2**n,dtype=complex)
    for lab,ph in zip(s.to_labels(), s.phase):
        rho = rho @ (np.eye(2**n)+((-1)**int(ph))*sfu.get_stabilizer_element_by_string(lab))/2
    return rho
def valid(t):
    n=t.n_qubits; T=t.table; Om=np.block([[np.zeros((n,n)),np.eye(n)],[np.eye(n),np.zeros((n,n))]]).astype(int)
    J=np.block([[np.zeros((n,n)),np.eye(n)],[np.eye(n),np.zeros((n,n))]]).astype(int)
    return np.array_equal((T@Om@T.T)%2, J)
def rand_cliff(n,k=30):
    t=CliffordTableau(n)
    for _ in range(k):
        c=rng.integers(0,4)
        if c==0: tr.hadamard_gate(t,int(rng.integers(n)))
        elif c==1: tr.phase_gate(t,int(rng.integers(n)))
        elif c==2: tr.x_gate(t,int(rng.integers(n)))
        elif n>1:
            a,b=rng.choice(n,2,replace=False); tr.cnot_gate(t,int(a),int(b))
    return t
def ptrace(rho,n,keep):
    t=rho.reshape([2]*(2*n)); drop=[i for i in range(n) if i not in keep]
    for d in sorted(drop,reverse=True):
        t=np.trace(t,axis1=d,axis2=d+t.ndim//2)
    k=len(keep); return t.reshape(2**k,2**k)
stats={}
def rec(k,ok):
    s=stats.setdefault(k,[0,0]); s[0]+=1; s[1]+= (0 if ok else 1)
for trial in range(600):
    n=int(rng.integers(1,5)); t=rand_cliff(n); rho=dm_of(t); q=int(rng.integers(n))
    op=rng.integers(0,6)
    try:
        if op==0:
            det=int(rng.integers(2)); t2,out,xp=sfc.z_measurement_gate(t.copy(),q,det)
            Pm=on(n,q,P1 if out else P0); r2=Pm@rho@Pm; p=np.real(np.trace(r2))
            ok = p>1e-9 and np.allclose(r2/p, dm_of(t2)) and valid(t2)
            if xp==0: ok = ok and abs(p-1)<1e-9
            else: ok = ok and abs(p-0.5)<1e-9 and out==det
            rec("measure",ok)
        elif op==1:
            t2=sfc.reset_z(t.copy(),q,0,int(rng.integers(2)))
            r2=on(n,q,P0)@rho@on(n,q,P0)+on(n,q,np.array([[0,1],[0,0]]))@rho@on(n,q,np.array([[0,0],[1,0]]))
            # reset = measure + flip: result should be |0><0|_q (x) conditional state; compare reduced: qubit q in |0>
            d2=dm_of(t2); ok = valid(t2) and np.allclose(on(n,q,P0)@d2@on(n,q,P0), d2)
            rec("reset_z",ok)
        elif op==2 and n>1:
            a,b=rng.choice(n,2,replace=False); t2=sfc.swap_gate(t.copy(),int(a),int(b))
            perm=list(range(n)); perm[a],perm[b]=perm[b],perm[a]
            r=rho.reshape([2]*(2*n)); r=np.transpose(r,perm+[n+p for p in perm]).reshape(2**n,2**n)
            rec("swap", valid(t2) and np.allclose(r,dm_of(t2)))
        elif op==3:
            pos=int(rng.integers(n+1)); t2=sfc.insert_qubit(t.copy(),pos)
            # expected: |0> inserted at pos
            r=rho.reshape([2]*(2*n)); 
            e=np.zeros((2,2)); e[0,0]=1
            full=np.kron(rho,e).reshape([2]*(2*n+2))  # new qubit last
            order=list(range(n)); order.insert(pos,n)
            m=n+1; full=np.transpose(full, order+[m+o for o in order]).reshape(2**m,2**m)
            rec("insert", valid(t2) and np.allclose(full,dm_of(t2)))
        elif op==4 and n>1:
            det=int(rng.integers(2)); t1,out,xp=sfc.z_measurement_gate(t.copy(),q,det)
            r1=dm_of(t1); t2=sfc.remove_qubit(t1.copy(),q,det)
            keep=[i for i in range(n) if i!=q]
            rec("remove(after meas)", valid(t2) and np.allclose(ptrace(r1,n,keep),dm_of(t2)))
        elif op==5:
            n2=int(rng.integers(1,3)); u=rand_cliff(n2)
            t2=sfc.tensor([t.copy(),u.copy()])
            rec("tensor", valid(t2) and np.allclose(np.kron(rho,dm_of(u)),dm_of(t2)))
    except Exception as e:
        rec(f"EXC {['measure','reset_z','swap','insert','remove','tensor'][op]} {type(e).__name__}", False)
for k,v in stats.items(): print(k, "runs", v[0], "bad", v[1])
