import warnings; warnings.filterwarnings("ignore")
import numpy as np, networkx as nx, itertools, collections
from graphiq.backends.lc_equivalence_check import is_lc_equivalent, lc_graph_operations, local_comp_graph, local_clifford_ops
from graphiq.backends.stabilizer.functions.local_cliff_equi_check import lc_check
def all_adj(n):
    pairs = list(itertools.combinations(range(n), 2))
    for mask in range(2**len(pairs)):
        A = np.zeros((n,n), dtype=int)
        for i,(a,b) in enumerate(pairs):
            if mask>>i & 1: A[a,b]=A[b,a]=1
        yield mask, A
def lc(A, v):
    A = A.copy(); nb = np.nonzero(A[v])[0]
    for a,b in itertools.combinations(nb,2): A[a,b]^=1; A[b,a]^=1
    return A
def orbit_classes(n):
    adjs = dict(all_adj(n)); key = lambda A: A.tobytes()
    cls = {}; cid = 0
    for m, A in adjs.items():
        if key(A) in cls: continue
        stack=[A]; cls[key(A)] = cid
        while stack:
            B = stack.pop()
            for v in range(n):
                C = lc(B, v)
                if key(C) not in cls: cls[key(C)] = cid; stack.append(C)
        cid += 1
    return adjs, cls
stats = collections.Counter()
for n in (2,3,4):
    adjs, cls = orbit_classes(n)
    items = list(adjs.items())
    for (m1,A),(m2,B) in itertools.product(items, items):
        truth = cls[A.tobytes()] == cls[B.tobytes()]
        try:
            ans, sol = is_lc_equivalent(A.copy(), B.copy())
        except Exception as e:
            stats[f"n{n} EXC {type(e).__name__}"] += 1; continue
        if ans and not truth: stats[f"n{n} false-yes"] += 1
        elif (not ans) and truth:
            stats[f"n{n} false-no"] += 1
            g = nx.from_numpy_array(A); comps = nx.number_connected_components(g)
            stats[f"n{n} false-no comps={comps}"] += 1
        else: stats[f"n{n} ok"] += 1
        if ans and truth:
            try:
                seq = lc_graph_operations(A.copy(), sol)   # per docs: operations on first graph
                C = A.copy()
                for v in seq: C = lc(C, v)
                if not np.array_equal(C, B):
                    # maybe defined on second graph
                    D = B.copy()
                    for v in seq: D = lc(D, v)
                    stats[f"n{n} seq A->B wrong" + ("; but B->A ok" if np.array_equal(D, A) else "")] += 1
                else: stats[f"n{n} seq ok"] += 1
            except Exception as e:
                stats[f"n{n} seq EXC {type(e).__name__}"] += 1
for k in sorted(stats): print(k, stats[k])
