import warnings; warnings.filterwarnings("ignore")
import numpy as np, collections, itertools
import graphiq.backends.density_matrix.functions as dmf
from graphiq.circuit import ops
rng = np.random.default_rng(51)
st = collections.Counter()
def rand_rho(n, rank=None, complex_=True):
    d = 2**n; rank = rank or d
    A = rng.normal(size=(d, rank)) + (1j * rng.normal(size=(d, rank)) if complex_ else 0)
    r = A @ A.conj().T; return r / np.trace(r).real
def ref_sqrtm(M):
    w, v = np.linalg.eigh((M + M.conj().T) / 2); w = np.clip(w, 0, None); return (v * np.sqrt(w)) @ v.conj().T
def ref_fid(r, s):
    sr = ref_sqrtm(r); return float(np.real(np.trace(ref_sqrtm(sr @ s @ sr)))**2)
def ref_td(r, s): return float(0.5 * np.abs(np.linalg.eigvalsh(r - s)).sum())
def ref_ptrace(rho, n, keep):
    t = rho.reshape([2]*(2*n)); drop = [i for i in range(n) if i not in keep]
    for d_ in sorted(drop, reverse=True): t = np.trace(t, axis1=d_, axis2=d_ + t.ndim//2)
    k = len(keep); return t.reshape(2**k, 2**k)
for trial in range(300):
    n = int(rng.integers(1, 4))
    kind = rng.integers(0, 4)
    r = rand_rho(n, rank=1 if kind in (0, 1) else None); s = rand_rho(n, rank=1 if kind in (0, 2) else None)
    try:
        f = float(dmf.fidelity(r, s)); f2 = float(dmf.fidelity(s, r)); ref = ref_fid(r, s)
        st[f"fidelity kind{kind} ok" if abs(f - ref) < 1e-7 and abs(f - f2) < 1e-7 and -1e-9 <= f <= 1 + 1e-9 else f"fidelity kind{kind} BAD"] += 1
        if abs(f-ref) >= 1e-7 and st[f"fidelity kind{kind} BAD"] <= 2: print("fid", kind, n, f, f2, ref)
        td = float(dmf.trace_distance(r, s)); 
        st["trace distance ok" if abs(td - ref_td(r, s)) < 1e-9 else "trace distance BAD"] += 1
        st["FvdG ok" if (1 - np.sqrt(ref) <= td + 1e-7 and td <= np.sqrt(max(0, 1 - ref)) + 1e-7) else "FvdG BAD"] += 1
        st["fid self ok" if abs(float(dmf.fidelity(r, r)) - 1) < 1e-7 else "fid self BAD"] += 1
    except Exception as e:
        st[f"fidelity kind{kind} EXC {type(e).__name__} {str(e)[:50]}"] += 1
    rho = rand_rho(n)
    for keep in [list(k) for m in range(1, n + 1) for k in itertools.combinations(range(n), m)]:
        try:
            got = dmf.partial_trace(rho, keep, [2] * n)
            st["ptrace ok" if np.allclose(got, ref_ptrace(rho, n, keep)) else "ptrace BAD"] += 1
        except Exception as e:
            st[f"ptrace EXC {type(e).__name__}"] += 1
# C20
a, b = ops.local_clifford_composition(); all24 = [x + y for x in a for y in b]
mats = [ops.local_clifford_to_matrix_map(g) for g in all24]
st[f"C20 count {len(all24)}"] += 1
dist = all(not dmf.check_equivalent_unitaries(mats[i], mats[j]) for i in range(24) for j in range(24) if i != j)
st["C20 distinct" if dist else "C20 NOT distinct"] += 1
bad = 0
for i in range(24):
    for j in range(24):
        w = all24[i] + all24[j]
        try:
            sgl = ops.simplify_local_clifford(w)
            if sgl not in all24 or not dmf.check_equivalent_unitaries(ops.local_clifford_to_matrix_map(sgl), ops.local_clifford_to_matrix_map(w)): bad += 1
        except Exception: bad += 1
st[f"C20 simplify 24x24 bad={bad}"] += 1
try:
    ops.find_local_clifford_by_matrix(np.array([[1, 0], [0, np.exp(1j * np.pi / 4)]])); st["C20 T gate accepted (BAD)"] += 1
except ValueError: st["C20 T gate rejected"] += 1
for k in sorted(st): print(k, st[k])
