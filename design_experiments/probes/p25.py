import warnings; warnings.filterwarnings("ignore")
import traceback, io, contextlib
from graphiq.backends.stabilizer.compiler import StabilizerCompiler
from graphiq.circuit.circuit_dag import CircuitDAG
from graphiq.circuit import ops
import graphiq.noise.noise_models as nm
for noise in (nm.PhotonLoss(0.1), nm.DepolarizingNoise(0.1), nm.PauliError("X")):
    for mk in ("one", "two"):
        c = CircuitDAG(n_emitter=1, n_photon=1, n_classical=1)
        if mk == "one": c.add(ops.Hadamard(register=0, reg_type='p', noise=noise))
        else: c.add(ops.CNOT(control=0, control_type='e', target=0, target_type='p', noise=[noise, nm.NoNoise()]))
        c.add(ops.Hadamard(register=0, reg_type='e'))
        k = StabilizerCompiler(); k.noise_simulation = True
        try:
            s = k.compile(c); print(type(noise).__name__, mk, "ok", type(s.rep_data).__name__, round(s.rep_data.probability, 4))
        except Exception as e:
            tb = traceback.format_exc().strip().splitlines()
            print(type(noise).__name__, mk, "EXC", tb[-3].strip()[:110], "|", tb[-1][:80])
