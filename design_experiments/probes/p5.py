import warnings; warnings.filterwarnings("ignore")
import numpy as np, networkx as nx, hashlib
from graphiq.backends.stabilizer.compiler import StabilizerCompiler
from graphiq.solvers.hybrid_solvers import HybridEvolutionarySolver
from graphiq.solvers.evolutionary_solver import EvolutionarySolver, EvolutionarySolverSetting
from graphiq.metrics import Infidelity
from graphiq.state import QuantumState
g = nx.cycle_graph(4)
target = QuantumState(g, rep_type="g"); target.convert_representation("s")
comp = StabilizerCompiler(); comp.measurement_determinism = 1
setting = EvolutionarySolverSetting(n_hof=3, n_stop=6, n_pop=6)
s = HybridEvolutionarySolver(target=target, metric=Infidelity(target), compiler=comp, solver_setting=setting)
s.seed(7)
s.solve()
h = hashlib.sha256()
for sc, c in s.hof:
    h.update(repr(float(sc)).encode()); h.update(c.to_openqasm().encode())
print(h.hexdigest()[:16], [float(x[0]) for x in s.hof])
