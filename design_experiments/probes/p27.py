import warnings; warnings.filterwarnings("ignore")
import numpy as np, collections, io, contextlib
from functools import reduce
from graphiq.backends.stabilizer.compiler import StabilizerCompiler
from graphiq.backends.density_matrix.compiler import DensityMatrixCompiler
from graphiq.circuit.circuit_dag import CircuitDAG
from graphiq.circuit import ops
import graphiq.backends.stabilizer.functions.utils as sfu
rng = np.random.default_rng(31)
I2=np.eye(2,dtype=complex); X=np.array([[0,1],[1,0]],dtype=complex); Y=np.array([[0,-1j],[1j,0]]); Z=np.diag([1,-1]).astype(complex)
H=np.array([[1,1],[1,-1]],dtype=complex)/np.sqrt(2); P=np.diag([1,1j]); Pd=np.diag([1,-1j]); P0=np.diag([1,0]).astype(complex); P1=np.diag([0,1]).astype(complex)
MAT={ops.Hadamard:H, ops.Phase:P, ops.PhaseDagger:Pd, ops.SigmaX:X, ops.SigmaY:Y, ops.SigmaZ:Z, ops.Identity:I2}
ONE=list(MAT)
def on(n,q,M): return reduce(np.kron,[M if i==q else I2 for i in range(n)])
def ctrl(n,c,t,U): return on(n,c,P0)+on(n,c,P1)@on(n,t,U)
def dm_of_tab(t):
    n=t.n_qubits; s=t.to_stabilizer(); rho=np.eye(2**n,dtype=complex)
    for lab,ph in zip(s.to_labels(), s.phase):
        rho = rho @ (np.eye(2**n)+((-1)**int(ph))*sfu.get_stabilizer_element_by_string(lab))/2
    return rho
class Spy:
    def compile_one_gate(self, state, op, n_quantum, q_index, classical_registers):
        super().compile_one_gate(state, op, n_quantum, q_index, classical_registers)
        self.rec.append((op, classical_registers.copy()))
class SpyS(Spy, StabilizerCompiler): pass
class SpyD(Spy, DensityMatrixCompiler): pass
def rand_circ():
    ne, np_, nc = int(rng.integers(1,3)), int(rng.integers(0,3)), int(rng.integers(1,3))
    c = CircuitDAG(n_emitter=ne, n_photon=np_, n_classical=nc); regs=[("e",i) for i in range(ne)]+[("p",i) for i in range(np_)]
    for _ in range(int(rng.integers(1,18))):
        k = rng.integers(0,9)
        if k<=2 or len(regs)<2:
            rt,r=regs[rng.integers(len(regs))]
            if k==2: c.add(ops.OneQubitGateWrapper([ONE[rng.integers(len(ONE))] for _ in range(rng.integers(1,4))],register=r,reg_type=rt))
            elif k==1 and rng.integers(3)==0: c.add(ops.MeasurementZ(register=r,reg_type=rt,c_register=int(rng.integers(nc))))
            else: c.add(ONE[rng.integers(len(ONE))](register=r,reg_type=rt))
        else:
            a,b=rng.choice(len(regs),2,replace=False); (t1,r1),(t2,r2)=regs[a],regs[b]; cr=int(rng.integers(nc))
            K=[ops.CNOT,ops.CZ,ops.ClassicalCNOT,ops.ClassicalCZ,ops.MeasurementCNOTandReset,ops.CNOT][k-3]
            if K in (ops.CNOT,ops.CZ): c.add(K(control=r1,control_type=t1,target=r2,target_type=t2))
            else: c.add(K(control=r1,control_type=t1,target=r2,target_type=t2,c_register=cr))
    return c
def reference(c, rec):
    """textbook semantics driven by the recorded outcomes"""
    n=c.n_quantum; npn=c.n_photons; idx=lambda r,t: r if t=="p" else r+npn
    rho=np.zeros((2**n,2**n),dtype=complex); rho[0,0]=1; creg=np.zeros(c.n_classical); ok=True
    it=iter(rec)
    for op,cr in rec:
        T=type(op)
        if T in (ops.Input,ops.Output): continue
        if T in MAT:
            U=on(n,idx(op.register,op.reg_type),MAT[T]); rho=U@rho@U.conj().T
        elif T is ops.CNOT or T is ops.CZ:
            U=ctrl(n,idx(op.control,op.control_type),idx(op.target,op.target_type),X if T is ops.CNOT else Z); rho=U@rho@U.conj().T
        else:
            q = idx(op.register,op.reg_type) if T is ops.MeasurementZ else idx(op.control,op.control_type)
            m=int(cr[op.c_register]); Pm=on(n,q,P1 if m else P0); r2=Pm@rho@Pm; p=np.real(np.trace(r2))
            if p<1e-12: return None, "impossible outcome recorded"
            rho=r2/p; creg[op.c_register]=m
            if T is not ops.MeasurementZ and m==1:
                U=on(n,idx(op.target,op.target_type), X if T in (ops.ClassicalCNOT,ops.MeasurementCNOTandReset) else Z); rho=U@rho@U.conj().T
            if T is ops.MeasurementCNOTandReset and m==1:
                U=on(n,q,X); rho=U@rho@U.conj().T
        if not np.array_equal(creg, cr): return None, "record mismatch"
    return rho, None
st=collections.Counter()
for trial in range(500):
    c=rand_circ()
    for det in (0,1,"probabilistic"):
        for K in (SpyS,SpyD):
            k=K(); k.rec=[]; k.measurement_determinism=det
            try:
                with contextlib.redirect_stdout(io.StringIO()): s=k.compile(c)
            except Exception as e:
                st[f"{K.__name__} EXC {type(e).__name__} {str(e)[:50]}"]+=1; continue
            rho = s.rep_data.data if K is SpyD else dm_of_tab(s.rep_data.data)
            ref, err = reference(c, k.rec)
            if err: st[f"{K.__name__} {err} det={det}"]+=1; continue
            st[f"{K.__name__} ok" if np.allclose(rho,ref,atol=1e-9) else f"{K.__name__} STATE WRONG det={det}"]+=1
for k in sorted(st): print(k, st[k])
