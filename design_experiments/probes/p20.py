import warnings; warnings.filterwarnings("ignore")
import numpy as np, collections
from graphiq.circuit.circuit_dag import CircuitDAG
from graphiq.circuit import ops
rng = np.random.default_rng(9)
ONE = [ops.Hadamard, ops.Phase, ops.PhaseDagger, ops.SigmaX, ops.SigmaY, ops.SigmaZ, ops.Identity]
def rand_circ(allow_sdg_in_wrapper=True, json_only=False):
    ne, np_, nc = int(rng.integers(1,13)), int(rng.integers(0,13)), int(rng.integers(1,3))
    c = CircuitDAG(n_emitter=ne, n_photon=np_, n_classical=nc)
    regs = [("e", i) for i in range(ne)] + [("p", i) for i in range(np_)]
    for _ in range(int(rng.integers(0, 25))):
        k = rng.integers(0, 8)
        if k <= 1:
            rt, r = regs[rng.integers(len(regs))]
            pool = [g for g in ONE if not (json_only and g in (ops.PhaseDagger, ops.Identity))]
            c.add(pool[rng.integers(len(pool))](register=r, reg_type=rt))
        elif k == 2:
            rt, r = regs[rng.integers(len(regs))]
            pool = [g for g in ONE if allow_sdg_in_wrapper or g is not ops.PhaseDagger]
            if json_only: pool = [g for g in pool if g not in (ops.PhaseDagger, ops.Identity)]
            c.add(ops.OneQubitGateWrapper([pool[rng.integers(len(pool))] for _ in range(rng.integers(1,5))], register=r, reg_type=rt))
        elif len(regs) >= 2:
            a, b = rng.choice(len(regs), 2, replace=False); (t1, r1), (t2, r2) = regs[a], regs[b]
            cr = int(rng.integers(nc))
            if k == 3: c.add(ops.CNOT(control=r1, control_type=t1, target=r2, target_type=t2))
            elif k == 4: c.add(ops.CZ(control=r1, control_type=t1, target=r2, target_type=t2))
            elif k == 5: c.add(ops.ClassicalCNOT(control=r1, control_type=t1, target=r2, target_type=t2, c_register=cr))
            elif k == 6: c.add(ops.ClassicalCZ(control=r1, control_type=t1, target=r2, target_type=t2, c_register=cr))
            else: c.add(ops.MeasurementCNOTandReset(control=r1, control_type=t1, target=r2, target_type=t2, c_register=cr))
        if rng.integers(10) == 0 and not json_only:
            rt, r = regs[rng.integers(len(regs))]; c.add(ops.MeasurementZ(register=r, reg_type=rt, c_register=int(rng.integers(nc))))
    return c
def wires(c):
    out = {}
    cc = c.copy(); cc.unwrap_nodes(); cc.remove_identity()
    for rt in ("e","p"):
        for i in range(len(cc.register[rt])):
            ol, _ = cc.reg_gate_history(i, rt)
            out[(rt,i)] = [(type(o).__name__, o.q_registers, o.q_registers_type, o.c_registers) for o in ol[1:-1]]
    return (cc.register, out)
st = collections.Counter()
for trial in range(400):
    c = rand_circ()
    try:
        q = c.to_openqasm(); c2 = CircuitDAG.from_openqasm(q)
        st["qasm ok" if wires(c) == wires(c2) else "qasm DIFF"] += 1
        if wires(c) != wires(c2) and st["qasm DIFF"] <= 3:
            w1, w2 = wires(c), wires(c2)
            print("DIFF regs", w1[0], w2[0]); 
            for k_ in w1[1]:
                if w1[1][k_] != w2[1].get(k_): print("  ", k_, w1[1][k_], "!=", w2[1].get(k_)); break
        if c.to_openqasm() != q: st["qasm nondeterministic"] += 1
    except Exception as e:
        st[f"qasm EXC {type(e).__name__} {str(e)[:60]}"] += 1
    c = rand_circ(json_only=True)
    try:
        j = c.to_json(); c2 = CircuitDAG.from_json(j)
        st["json ok" if wires(c) == wires(c2) else "json DIFF"] += 1
    except Exception as e:
        st[f"json EXC {type(e).__name__} {str(e)[:60]}"] += 1
for k in sorted(st): print(k, st[k])
