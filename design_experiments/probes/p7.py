import warnings; warnings.filterwarnings("ignore")
import numpy as np, itertools
from graphiq.backends.stabilizer.tableau import StabilizerTableau
from graphiq.backends.stabilizer.clifford_tableau import CliffordTableau
from graphiq.backends.stabilizer.functions import transformation as tr, stabilizer as sfs, metric as sfm
from graphiq.backends.state_rep_conversion import _stabilizer_to_density_pure
import graphiq.backends.stabilizer.functions.utils as sfu
rng = np.random.default_rng(5)
def rand_cliff(n, k=25):
    t = CliffordTableau(n)
    for _ in range(k):
        c = rng.integers(0, 4)
        if c == 0: tr.hadamard_gate(t, int(rng.integers(n)))
        elif c == 1: tr.phase_gate(t, int(rng.integers(n)))
        elif c == 2: tr.x_gate(t, int(rng.integers(n)))
        elif n > 1:
            a, b = rng.choice(n, 2, replace=False); tr.cnot_gate(t, int(a), int(b))
    return t
def dm_of(stab):
    n = stab.n_qubits
    rho = np.eye(2**n, dtype=complex)
    for lab, ph in zip(stab.to_labels(), stab.phase):
        P = sfu.get_stabilizer_element_by_string(lab) * ((-1) ** int(ph))
        rho = rho @ (np.eye(2**n) + P) / 2
    return rho
def regauge(stab):
    s = stab.copy(); n = s.n_qubits
    for _ in range(8):
        if n > 1:
            a, b = rng.choice(n, 2, replace=False)
            sfs.tab_row_sum(s, int(a), int(b))
            if rng.integers(2): sfs.tab_row_swap(s, int(a), int(b))
    return s
bad = 0; tot = 0; eqbad = 0
for trial in range(400):
    n = int(rng.integers(1, 5))
    a = rand_cliff(n); b = rand_cliff(n) if rng.integers(3) else CliffordTableau(a)
    if rng.integers(4) == 0:
        b = CliffordTableau(a); tr.z_gate(b, int(rng.integers(n)))
    ra = dm_of(a.to_stabilizer()); rb = dm_of(b.to_stabilizer())
    assert abs(np.trace(ra) - 1) < 1e-9
    ov = float(np.real(np.trace(ra @ rb)))
    try:
        f1 = float(sfm.fidelity(CliffordTableau(a), CliffordTableau(b)))
        f2 = float(sfm.fidelity(CliffordTableau(b), CliffordTableau(a)))
    except Exception as e:
        print("EXC", type(e).__name__, e); bad += 1; continue
    tot += 1
    if abs(f1 - ov) > 1e-9 or abs(f2 - ov) > 1e-9:
        bad += 1
        if bad < 6: print("FID MISMATCH n", n, f1, f2, ov, a.to_stabilizer().to_labels(), a.phase, b.to_stabilizer().to_labels(), b.phase)
    # canonical form presentation independence
    s1 = a.to_stabilizer(); s2 = regauge(s1)
    c1 = sfs.canonical_form(s1.copy()); c2 = sfs.canonical_form(s2.copy())
    if not (c1 == c2):
        eqbad += 1
        if eqbad < 4: print("CANON MISMATCH", s1.to_labels(), s1.phase, s2.to_labels(), s2.phase, c1.to_labels(), c1.phase, c2.to_labels(), c2.phase)
print("tot", tot, "fid bad", bad, "canon bad", eqbad)
