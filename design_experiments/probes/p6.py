import warnings; warnings.filterwarnings("ignore")
import numpy as np, networkx as nx, itertools
from graphiq.backends.stabilizer.functions.height import height_func_list
from graphiq.backends.stabilizer.tableau import StabilizerTableau
from graphiq.backends.stabilizer.functions import transformation as tr
def rank2(M):
    M = M.copy() % 2; r = 0
    rows, cols = M.shape
    for c in range(cols):
        piv = [i for i in range(r, rows) if M[i, c]]
        if not piv: continue
        M[[r, piv[0]]] = M[[piv[0], r]]
        for i in range(rows):
            if i != r and M[i, c]: M[i] ^= M[r]
        r += 1
        if r == rows: break
    return r
rng = np.random.default_rng(1)
bad = 0; tot = 0
for trial in range(300):
    n = int(rng.integers(1, 7))
    t = StabilizerTableau(n)
    for _ in range(30):
        k = rng.integers(0, 3)
        if k == 0: tr.hadamard_gate(t, int(rng.integers(n)))
        elif k == 1: tr.phase_gate(t, int(rng.integers(n)))
        elif n > 1:
            a, b = rng.choice(n, 2, replace=False); tr.cnot_gate(t, int(a), int(b))
    # random generating set: random invertible row ops (ignoring signs, height ignores them)
    X = t.x_matrix.copy(); Z = t.z_matrix.copy()
    for _ in range(10):
        if n > 1:
            a, b = rng.choice(n, 2, replace=False)
            X[b] ^= X[a]; Z[b] ^= Z[a]
    try:
        h = height_func_list(X.copy(), Z.copy())
    except Exception as e:
        print("EXC", type(e).__name__, e, n); bad += 1; continue
    spec = []
    for k in range(n):
        A = list(range(k + 1))
        MA = np.hstack([X[:, A], Z[:, A]])
        spec.append(rank2(MA) - len(A))
    tot += 1
    if list(h) != spec:
        bad += 1; print("MISMATCH", n, h, spec)
print("checked", tot, "bad", bad)
