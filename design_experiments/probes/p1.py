import warnings; warnings.filterwarnings("ignore")
import numpy as np, networkx as nx, traceback
import graphiq as gq
from graphiq.backends.stabilizer.clifford_tableau import CliffordTableau
from graphiq.backends.stabilizer.functions import clifford as sfc, utils as sfu, transformation as tr
def t(name, f):
    try:
        print(name, "->", f())
    except Exception as e:
        print(name, "EXC", type(e).__name__, str(e)[:150])
# 1 insert_qubit
def f1():
    tab = CliffordTableau(2)
    tab = tr.x_gate(tab, 1)  # |01>, phase of stabilizer 1 = 1
    print(tab.phase)
    tab = sfc.insert_qubit(tab, 0)
    return tab.phase, tab.stabilizer_to_labels()
t("insert_qubit at 0", f1)
def f1b():
    tab = CliffordTableau(2)
    tab = sfc.add_qubit(tab)
    return tab.phase
t("add_qubit", f1b)
t("is_symplectic(2n x 2n)", lambda: sfu.is_symplectic(CliffordTableau(2).table))
# 3 DM reset
from graphiq.circuit.circuit_dag import CircuitDAG
from graphiq.circuit import ops
def f3():
    c = CircuitDAG(n_emitter=1, n_photon=1, n_classical=1)
    c.add(ops.SigmaX(register=0, reg_type='e'))
    c.add(ops.MeasurementCNOTandReset(control=0, control_type='e', target=0, target_type='p', c_register=0))
    dm = gq.DensityMatrixCompiler(); dm.measurement_determinism = 1
    st = gq.StabilizerCompiler(); st.measurement_determinism = 1
    a = dm.compile(c).rep_data.data
    b = st.compile(c).rep_data.data
    return np.real(np.diag(a)), b.stabilizer_to_labels(), b.phase
t("DM reset", f3)
# 4 partial trace
import graphiq.backends.density_matrix.functions as dmf
def f4():
    plus = dmf.ket2dm(dmf.state_ketx0())
    rho = np.kron(dmf.ket2dm(dmf.state_ketz0()), plus)
    return dmf.partial_trace(rho, [0], [2,2])
t("ptrace |0>|+> keep 0", f4)
def f5():
    a = np.diag([0.5,0.5]); b = np.diag([0.75,0.25])
    return dmf.fidelity(a,b)
t("fidelity mixed", f5)
from graphiq.backends.lc_equivalence_check import is_lc_equivalent
def f6():
    g = nx.Graph([(0,1),(2,3)])
    A = nx.to_numpy_array(g).astype(int)
    return is_lc_equivalent(A, A)[0]
t("lc_equiv disconnected self", f6)
def f6b():
    g = nx.Graph(); g.add_nodes_from(range(3)); g.add_edge(0,1)
    A = nx.to_numpy_array(g).astype(int)
    return is_lc_equivalent(A, A)[0]
t("lc_equiv isolated vertex self", f6b)
def f7():
    c = CircuitDAG(n_emitter=1, n_photon=1, n_classical=1)
    c.add(ops.MeasurementCNOTandReset(control=0, control_type='e', target=0, target_type='p', c_register=0))
    return CircuitDAG.from_json(c.to_json()).to_json()
t("json roundtrip MCR", f7)
from graphiq import metrics
def f8():
    c = CircuitDAG(n_emitter=2, n_photon=1, n_classical=1)
    c.add(ops.CNOT(control=0, control_type='e', target=1, target_type='e'))
    return metrics.CircuitCnotCount().evaluate(None, c)
t("CnotCount default", f8)
from graphiq.solvers.alternate_target_solver import AlternateTargetSolver
def f9():
    s = AlternateTargetSolver(target=nx.path_graph(3))
    return len(s.solve())
t("ATS default", f9)
def f10():
    q = gq.QuantumState(nx.path_graph(3), rep_type='g')
    q.convert_representation('s'); q.convert_representation('g')
    return q.rep_data.data.edges
t("g->s->g", f10)
def f11():
    q = gq.QuantumState(nx.path_graph(3), rep_type='g')
    q.convert_representation('dm'); q.convert_representation('s'); q.convert_representation('dm'); q.convert_representation('g')
    return q.rep_data.data.edges
t("g->dm->s->dm->g", f11)
