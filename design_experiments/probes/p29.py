import warnings; warnings.filterwarnings("ignore")
import numpy as np, networkx as nx, collections, itertools
from graphiq.backends.stabilizer.tableau import StabilizerTableau
from graphiq.backends.stabilizer.clifford_tableau import CliffordTableau
from graphiq.backends.stabilizer.functions import transformation as tr, stabilizer as sfs
from graphiq.backends.stabilizer.functions.rep_conversion import clifford_from_stabilizer, get_clifford_tableau_from_graph
from graphiq.backends.state_rep_conversion import state_to_graph, graph_to_density, density_to_graph, stabilizer_to_graph
from graphiq.backends.stabilizer.functions.rep_conversion import get_stabilizer_tableau_from_graph
from graphiq.state import QuantumState
import graphiq.backends.stabilizer.functions.utils as sfu
rng = np.random.default_rng(41)
st = collections.Counter()
def rand_stab(n, k=30):
    t = CliffordTableau(n)
    for _ in range(k):
        c = rng.integers(0,4)
        if c==0: tr.hadamard_gate(t,int(rng.integers(n)))
        elif c==1: tr.phase_gate(t,int(rng.integers(n)))
        elif c==2: tr.x_gate(t,int(rng.integers(n)))
        elif n>1:
            a,b=rng.choice(n,2,replace=False); tr.cnot_gate(t,int(a),int(b))
    s = t.to_stabilizer()
    for _ in range(6):
        if n>1:
            a,b=rng.choice(n,2,replace=False); sfs.tab_row_sum(s,int(a),int(b))
    return s
def valid(t):
    n=t.n_qubits; T=t.table; Om=np.block([[np.zeros((n,n)),np.eye(n)],[np.eye(n),np.zeros((n,n))]]).astype(int)
    return np.array_equal((T@Om@T.T)%2, Om)
# C11
for trial in range(400):
    n = int(rng.integers(1,7)); s = rand_stab(n)
    try:
        t2, circ = sfs.inverse_circuit(s.copy())
        zero = np.array_equal(t2.x_matrix, np.zeros((n,n))) and np.array_equal(t2.z_matrix, np.eye(n)) and not t2.phase.any()
        st["C11 ends in zero" if zero else "C11 NOT ZERO"] += 1
        # independent replay: apply circ to canonical? apply circ to s directly: should give zero-state group
        r = tr.run_circuit(s.copy(), list(circ))
        rc = sfs.canonical_form(r)
        st["C11 circ maps input to |0>" if (np.array_equal(rc.z_matrix, np.eye(n)) and not rc.x_matrix.any() and not rc.phase.any()) else "C11 circ WRONG"] += 1
        cl = clifford_from_stabilizer(s.copy())
        same = sfs.canonical_form(cl.to_stabilizer()) == sfs.canonical_form(s.copy())
        st["C11 clifford_from_stabilizer ok" if (same and valid(cl)) else "C11 clifford_from_stabilizer BAD"] += 1
    except Exception as e:
        st[f"C11 EXC {type(e).__name__} {str(e)[:40]}"] += 1
# C08 state_to_graph on arbitrary stabilizer states
for trial in range(300):
    n = int(rng.integers(1,6)); s = rand_stab(n)
    try:
        g, tab, gates = state_to_graph(s.copy())
        r = tr.run_circuit(s.copy(), list(gates))
        ok = sfs.canonical_form(r) == sfs.canonical_form(get_stabilizer_tableau_from_graph(g))
        st["C08 state_to_graph ok" if ok else "C08 state_to_graph WRONG"] += 1
    except Exception as e:
        st[f"C08 state_to_graph EXC {type(e).__name__} {str(e)[:40]}"] += 1
# C08 graph recovery from any generating set
for trial in range(200):
    n = int(rng.integers(2,6)); g = nx.gnp_random_graph(n, 0.5, seed=int(rng.integers(1e6)))
    s = get_stabilizer_tableau_from_graph(g)
    for _ in range(6):
        a,b=rng.choice(n,2,replace=False); sfs.tab_row_sum(s,int(a),int(b))
    try:
        out = stabilizer_to_graph(s.copy(), validate=False)
        st["C08 stab->graph (regauged) ok" if nx.utils.graphs_equal(out[0][1], g) or np.array_equal(nx.to_numpy_array(out[0][1], nodelist=range(n)), nx.to_numpy_array(g, nodelist=range(n))) else "C08 stab->graph (regauged) WRONG"] += 1
    except Exception as e:
        st[f"C08 stab->graph EXC {type(e).__name__} {str(e)[:50]}"] += 1
    try:
        A = density_to_graph(graph_to_density(g))
        st["C08 dm->graph ok" if np.array_equal(np.array(A).astype(int), nx.to_numpy_array(g, nodelist=range(n)).astype(int)) else "C08 dm->graph WRONG"] += 1
    except Exception as e:
        st[f"C08 dm->graph EXC {type(e).__name__} {str(e)[:50]}"] += 1
# conversion walks
reps = ["g","s","dm"]
for trial in range(100):
    n = int(rng.integers(2,5)); g = nx.gnp_random_graph(n, 0.6, seed=int(rng.integers(1e6)))
    q = QuantumState(g, rep_type="g"); path = ["g"]
    try:
        for _ in range(4):
            r = reps[rng.integers(3)]; q.convert_representation(r); path.append(r)
        q.convert_representation("dm")
        st["C08 walk ok" if np.allclose(q.rep_data.data, graph_to_density(g)) else f"C08 walk WRONG {'>'.join(path)}"] += 1
    except Exception as e:
        st[f"C08 walk EXC {'>'.join(path)} {type(e).__name__} {str(e)[:40]}"] += 1
for k in sorted(st): print(k, st[k])
