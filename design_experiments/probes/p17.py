import warnings; warnings.filterwarnings("ignore")
import numpy as np, networkx as nx, collections, random
from graphiq.circuit.circuit_dag import CircuitDAG
from graphiq.circuit import ops
from graphiq.backends.stabilizer.compiler import StabilizerCompiler
from graphiq.solvers.time_reversed_solver import TimeReversedSolver
from graphiq.solvers.evolutionary_solver import EvolutionarySolver
from graphiq.solvers.hybrid_solvers import HybridEvolutionarySolver
from graphiq.metrics import Infidelity
from graphiq.state import QuantumState
def emit_inv(c, fixed0):
    errs = []
    try: c.validate()
    except Exception as e: errs.append(f"validate {type(e).__name__}")
    d = c.dag
    for n_ in d.nodes:
        op = d.nodes[n_]["op"]
        if len(op.q_registers) == 2 and op.q_registers_type == ("p", "p"): errs.append(f"pp two-qubit {type(op).__name__}")
    for i in range(c.n_photons):
        ops_list, nodes = c.reg_gate_history(i, "p")
        body = ops_list[1:-1]
        if not body: errs.append(f"photon {i} never emitted"); continue
        f = body[0]
        if not (type(f) is ops.CNOT and f.control_type == "e" and f.target_type == "p" and f.target == i and "Fixed" in f.labels):
            errs.append(f"photon {i} first op {type(f).__name__} labels {getattr(f,'labels',None)}")
        for o in body[1:]:
            if isinstance(o, ops.OneQubitOperationBase): continue
            if isinstance(o, ops.ClassicalControlledPairOperationBase) and o.target_type == "p" and o.target == i and o.control_type == "e": continue
            errs.append(f"photon {i} later op {type(o).__name__}")
    now = set(id(d.nodes[n_]["op"]) for n_ in d.nodes)
    alive = set(n_ for n_ in d.nodes)
    for n_ in fixed0:
        if n_ not in alive: errs.append(f"fixed node {n_} removed")
    return errs
viol = collections.Counter(); total = 0
targets = [nx.path_graph(3), nx.cycle_graph(4), nx.star_graph(3), nx.complete_graph(4), nx.path_graph(5)]
for ti, g in enumerate(targets):
    for seed in range(6):
        np.random.seed(seed); random.seed(seed)
        target = QuantumState(g, rep_type="g")
        comp = StabilizerCompiler(); comp.measurement_determinism = 1
        hs = HybridEvolutionarySolver(target=target, metric=Infidelity(target), compiler=comp)
        if seed % 2 == 0:
            trs = TimeReversedSolver(target=target, metric=Infidelity(target), compiler=comp); trs.solve()
            c = trs.result[1]
        else:
            ea = hs.get_emission_assignment(hs.n_photon, hs.n_emitter); ma = hs.get_measurement_assignment(hs.n_photon, hs.n_emitter)
            c = hs.initialization(ea, ma)
        fixed0 = [n_ for n_ in c.dag.nodes if "Fixed" in getattr(c.dag.nodes[n_]["op"], "labels", [])]
        e0 = emit_inv(c, fixed0)
        if e0: viol["INITIAL: " + e0[0]] += 1; print("INIT", ti, seed, e0[:2]); continue
        moves = [hs.add_emitter_one_qubit_op, hs.add_photon_one_qubit_op, hs.replace_photon_one_qubit_op, hs.remove_op, hs.add_measurement_cnot_and_reset]
        if hs.n_emitter > 1: moves.append(hs.add_emitter_cnot)
        for step in range(250):
            m = moves[np.random.randint(len(moves))]
            try: m(c)
            except Exception as e:
                viol[f"EXC {m.__name__} {type(e).__name__} {str(e)[:40]}"] += 1; break
            total += 1
            errs = emit_inv(c, fixed0)
            if errs:
                viol[f"{m.__name__}: {errs[0][:60]}"] += 1
                break
print("moves", total, "violations", dict(viol))
