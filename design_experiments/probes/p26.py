import warnings; warnings.filterwarnings("ignore")
import numpy as np, networkx as nx, collections, itertools, signal
from graphiq.solvers.alternate_target_solver import AlternateTargetSolver, AlternateTargetSolverSetting
from graphiq.backends.stabilizer.compiler import StabilizerCompiler
from graphiq.backends.stabilizer.functions.rep_conversion import get_clifford_tableau_from_graph
from graphiq.backends.stabilizer.functions.stabilizer import canonical_form
from graphiq.utils.relabel_module import relabel
class TO(Exception): pass
def _h(*a): raise TO()
signal.signal(signal.SIGALRM, _h)
def lc(A, v):
    A = A.copy(); nb = np.nonzero(A[v])[0]
    for a,b in itertools.combinations(nb,2): A[a,b]^=1; A[b,a]^=1
    return A
def orbit(A):
    key = lambda M: M.astype(int).tobytes(); seen = {key(A)}; st=[A.astype(int)]
    while st:
        B = st.pop()
        for v in range(len(B)):
            C = lc(B, v)
            if key(C) not in seen: seen.add(key(C)); st.append(C)
    return seen
st = collections.Counter()
rng = np.random.default_rng(3)
graphs = [nx.path_graph(3), nx.path_graph(4), nx.cycle_graph(4), nx.star_graph(3), nx.complete_graph(4), nx.cycle_graph(5)]
for g in graphs:
    A = nx.to_numpy_array(g).astype(int); n = len(A)
    for method in (None, "lc_with_iso", "random", "random_with_iso", "random_with_rep", "depth_first", "DEFAULT"):
        for n_iso, n_lc in ((1,1),(2,3),(4,5)):
            for seed in (0, 1):
                if method == "DEFAULT":
                    setting = None if (n_iso, n_lc) == (1,1) else AlternateTargetSolverSetting(n_iso_graphs=n_iso, n_lc_graphs=n_lc)
                else:
                    setting = AlternateTargetSolverSetting(n_iso_graphs=n_iso, n_lc_graphs=n_lc, lc_method=method)
                np.random.seed(seed)
                try:
                    signal.alarm(60)
                    s = AlternateTargetSolver(target=g, solver_setting=setting, seed=seed); res = s.solve()
                    signal.alarm(0)
                except TO: st[f"{method} TIMEOUT"] += 1; continue
                except Exception as e:
                    signal.alarm(0); st[f"{method} EXC {type(e).__name__} {str(e)[:50]}"] += 1; continue
                keys = []
                for circ, info in res:
                    rmap = {k: v for k, v in info["map"].items() if k != -1}
                    new_labels = np.array([rmap[i] for i in range(n)])
                    T = relabel(A, new_labels)
                    for det in (0, 1):
                        k = StabilizerCompiler(); k.measurement_determinism = det
                        stt = k.compile(circ); stt.partial_trace(keep=list(range(n)), dims=(n + circ.n_emitters) * [2])
                        got = canonical_form(stt.rep_data.data.to_stabilizer())
                        exp = canonical_form(get_clifford_tableau_from_graph(nx.from_numpy_array(T)).to_stabilizer())
                        st["entry state ok" if got == exp else f"entry state WRONG ({method})"] += 1
                    G = nx.to_numpy_array(info["g"], nodelist=sorted(info["g"].nodes)).astype(int)
                    st["g in orbit" if G.tobytes() in orbit(T) else f"g NOT in orbit ({method})"] += 1
                    keys.append(G.tobytes())
                if len(set(keys)) != len(keys): st[f"duplicate g ({method})"] += 1
                st["runs"] += 1
for k in sorted(st): print(k, st[k])
