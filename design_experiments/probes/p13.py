import warnings; warnings.filterwarnings("ignore")
import numpy as np
from graphiq.backends.stabilizer.clifford_tableau import CliffordTableau
from graphiq.backends.stabilizer.functions import transformation as tr, clifford as sfc
import traceback
# swap: |1>|0> -> swap -> |0>|1>
t = CliffordTableau(2); tr.x_gate(t, 0)
print("before", t.stabilizer_to_labels(), t.phase)
t2 = sfc.swap_gate(t.copy(), 0, 1)
print("after swap", t2.stabilizer_to_labels(), t2.phase, " expected ['IZ','ZI'] with phase of 'IZ' row = 1")
# tensor
try:
    a = CliffordTableau(1); b = CliffordTableau(1)
    print(sfc.tensor([a, b]).n_qubits)
except Exception as e:
    traceback.print_exc(limit=3)
# remove: Bell state measure qubit 0 outcome 1 then remove qubit 0 -> remaining |1>
t = CliffordTableau(2); tr.hadamard_gate(t,0); tr.cnot_gate(t,0,1)
t1, out, xp = sfc.z_measurement_gate(t, 0, 1)
print("meas out", out, t1.stabilizer_to_labels(), t1.destabilizer_to_labels(), t1.phase)
t2 = sfc.remove_qubit(t1.copy(), 0, 1)
print("removed", t2.stabilizer_to_labels(), t2.destabilizer_to_labels(), t2.phase, "expected Z with phase 1")
