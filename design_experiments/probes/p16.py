import warnings; warnings.filterwarnings("ignore")
import numpy as np, networkx as nx, traceback, collections
from graphiq.circuit.circuit_dag import CircuitDAG
from graphiq.circuit import ops
rng = np.random.default_rng(4)
ONE = [ops.Hadamard, ops.Phase, ops.PhaseDagger, ops.SigmaX, ops.SigmaY, ops.SigmaZ, ops.Identity]
def check(c, tag):
    errs = []
    d = c.dag
    if not nx.is_directed_acyclic_graph(d): errs.append("cycle")
    for n_, deg in d.in_degree():
        if deg == 0 and not isinstance(d.nodes[n_]["op"], ops.Input): errs.append(f"source {n_}")
    for n_, deg in d.out_degree():
        if deg == 0 and not isinstance(d.nodes[n_]["op"], ops.Output): errs.append(f"sink {n_}")
    # wires
    regs = c.register
    for rt in ("e", "p", "c"):
        for i in range(len(regs[rt])):
            key = f"{rt}{i}"; node = f"{key}_in"; seen = []
            steps = 0
            while node != f"{key}_out" and steps < 10000:
                outs = [e for e in d.out_edges(node, keys=True) if e[2] == key]
                if len(outs) != 1: errs.append(f"wire {key} at {node} has {len(outs)} out edges"); break
                node = outs[0][1]; seen.append(node); steps += 1
            # nodes acting on this register
            acting = []
            for n_ in d.nodes:
                op = d.nodes[n_]["op"]
                if isinstance(op, (ops.Input, ops.Output)): continue
                qs = list(zip(op.q_registers_type, op.q_registers))
                cs = [("c", r) for r in op.c_registers]
                if (rt, i) in qs + cs: acting.append(n_)
            if set(seen) - {f"{key}_out"} != set(acting): errs.append(f"wire {key}: on-wire {seen} acting {acting}")
    # edge_dict
    ed = collections.Counter()
    for rt, lst in c.edge_dict.items():
        for e in lst: ed[(rt, e)] += 1
    real = collections.Counter()
    for u, v, k, data in d.edges(keys=True, data=True): real[(data["reg_type"], (u, v, k))] += 1
    if ed != real: errs.append(f"edge_dict mismatch extra={ed-real} missing={real-ed}")
    # node_dict
    for n_ in d.nodes:
        op = d.nodes[n_]["op"]
        labels = [type(op).__name__] + ([] if isinstance(op,(ops.Input,ops.Output)) else list(op.labels) + [op.parse_q_reg_types()])
        for lab in labels:
            if n_ not in c.node_dict.get(lab, []): errs.append(f"node_dict missing {lab}:{n_}")
    for lab, lst in c.node_dict.items():
        for n_ in lst:
            if n_ not in d.nodes: errs.append(f"node_dict stale {lab}:{n_}")
        if len(lst) != len(set(lst)): errs.append(f"node_dict dup {lab}")
    # sequence topological
    try:
        seq = c.sequence()
    except Exception as e:
        errs.append(f"sequence exc {e}")
    return errs
def rand_op(c):
    ne, np_, nc = c.n_emitters, c.n_photons, c.n_classical
    regs = [("e", i) for i in range(ne)] + [("p", i) for i in range(np_)]
    k = rng.integers(0, 6)
    if k <= 1 or len(regs) < 2:
        rt, r = regs[rng.integers(len(regs))]; return ONE[rng.integers(len(ONE))](register=r, reg_type=rt)
    if k == 2:
        rt, r = regs[rng.integers(len(regs))]
        lst = [ONE[rng.integers(len(ONE))] for _ in range(rng.integers(1, 4))]
        return ops.OneQubitGateWrapper(lst, register=r, reg_type=rt)
    a, b = rng.choice(len(regs), 2, replace=False); (t1, r1), (t2, r2) = regs[a], regs[b]
    if k == 3: return ops.CNOT(control=r1, control_type=t1, target=r2, target_type=t2)
    if k == 4: return ops.CZ(control=r1, control_type=t1, target=r2, target_type=t2)
    cr = int(rng.integers(max(nc,1)))
    return [ops.ClassicalCNOT, ops.ClassicalCZ, ops.MeasurementCNOTandReset][rng.integers(3)](control=r1, control_type=t1, target=r2, target_type=t2, c_register=cr)
viol = collections.Counter(); exc = collections.Counter(); steps = 0
for trial in range(150):
    c = CircuitDAG(n_emitter=int(rng.integers(1,3)), n_photon=int(rng.integers(1,3)), n_classical=1)
    hist = []
    for step in range(40):
        k = rng.integers(0, 8)
        try:
            if k <= 2:
                op = rand_op(c); c.add(op); hist.append(("add", type(op).__name__))
            elif k == 3:
                # insert_at on edges of the op's registers (random position on each wire)
                op = rand_op(c); edges = []
                for rt, r in zip(op.q_registers_type, op.q_registers):
                    cand = [e for e in c.edge_dict[rt] if e[2] == f"{rt}{r}"]
                    edges.append(cand[rng.integers(len(cand))])
                if len(edges) == 2:
                    if edges[1] in c.find_incompatible_edges(edges[0]): continue
                if not isinstance(op, (ops.ClassicalCNOT, ops.ClassicalCZ, ops.MeasurementCNOTandReset)):
                    c.insert_at(op, edges); hist.append(("insert_at", type(op).__name__))
            elif k == 4:
                nodes = [n_ for n_ in c.dag.nodes if not isinstance(c.dag.nodes[n_]["op"], (ops.Input, ops.Output))]
                if nodes:
                    n_ = nodes[rng.integers(len(nodes))]; c.remove_op(n_); hist.append(("remove", n_))
            elif k == 5:
                nodes = [n_ for n_ in c.dag.nodes if isinstance(c.dag.nodes[n_]["op"], ops.OneQubitOperationBase)]
                if nodes:
                    n_ = nodes[rng.integers(len(nodes))]; old = c.dag.nodes[n_]["op"]
                    new = ONE[rng.integers(len(ONE))](register=old.register, reg_type=old.reg_type)
                    c.replace_op(n_, new); hist.append(("replace", n_))
            elif k == 6:
                j = rng.integers(3)
                [c.unwrap_nodes, c.group_one_qubit_gates, c.remove_identity][j](); hist.append(("rewrite", int(j)))
            else:
                c.add_emitter_register() if rng.integers(2) else c.add_photonic_register(); hist.append(("addreg",))
        except Exception as e:
            exc[(hist[-1][0] if hist else "-", type(e).__name__, str(e)[:60])] += 1
            hist.append(("EXC", type(e).__name__))
        steps += 1
        errs = check(c, hist)
        if errs:
            viol[errs[0][:70]] += 1
            if sum(viol.values()) <= 4: print("VIOL", errs[:2], hist[-4:])
            break
print("steps", steps, "violations", dict(viol))
print("exceptions", dict(exc))
