import warnings; warnings.filterwarnings("ignore")
import numpy as np, collections
from graphiq.backends.stabilizer.clifford_tableau import CliffordTableau
from graphiq.backends.stabilizer.functions import transformation as tr, stabilizer as sfs
import graphiq.backends.state_rep_conversion as rc
import graphiq.backends.stabilizer.functions.linalg as sla
rng = np.random.default_rng(41)
def rank2(M):
    M = M.copy().astype(int) % 2; r = 0; rows, cols = M.shape
    for c in range(cols):
        piv = [i for i in range(r, rows) if M[i, c]]
        if not piv: continue
        M[[r, piv[0]]] = M[[piv[0], r]]
        for i in range(rows):
            if i != r and M[i, c]: M[i] ^= M[r]
        r += 1
        if r == rows: break
    return r
def rand_stab(n, k=30):
    t = CliffordTableau(n)
    for _ in range(k):
        c = rng.integers(0,4)
        if c==0: tr.hadamard_gate(t,int(rng.integers(n)))
        elif c==1: tr.phase_gate(t,int(rng.integers(n)))
        elif c==2: tr.x_gate(t,int(rng.integers(n)))
        elif n>1:
            a,b=rng.choice(n,2,replace=False); tr.cnot_gate(t,int(a),int(b))
    return t.to_stabilizer()
st = collections.Counter(); shown = 0
for trial in range(300):
    n = int(rng.integers(1,6)); s = rand_stab(n)
    x_mat = np.copy(s.x_matrix); z_mat = np.copy(s.z_matrix)
    x_mat, z_mat, rank = sla.row_reduction(x_mat, z_mat)
    hpos = rc._position_finder(x_mat)
    x2, z2 = sla.hadamard_transform(x_mat.copy(), z_mat.copy(), hpos)
    full = rank2(x2) == n
    d = np.linalg.det(x2)
    asserted_ok = int(np.float64(d).astype(int)) % 2 != 0
    st[(("X full rank" if full else "X SINGULAR after heuristic H"), ("assert passes" if asserted_ok else "assert fails"), )] += 1
    if not full and shown < 3:
        shown += 1; print("labels", s.to_labels(), "rank of X part", rank2(s.x_matrix), "hpos", hpos)
for k in sorted(st): print(k, st[k])
