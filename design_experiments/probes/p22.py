import warnings; warnings.filterwarnings("ignore")
import numpy as np, collections
from graphiq.circuit.circuit_dag import CircuitDAG
from graphiq.circuit import ops
from graphiq import metrics as M
rng = np.random.default_rng(13)
ONE = [ops.Hadamard, ops.Phase, ops.PhaseDagger, ops.SigmaX, ops.SigmaY, ops.SigmaZ, ops.Identity]
def rand_circ():
    ne, np_ = int(rng.integers(1,4)), int(rng.integers(1,4))
    c = CircuitDAG(n_emitter=ne, n_photon=np_, n_classical=1)
    regs = [("e", i) for i in range(ne)] + [("p", i) for i in range(np_)]
    seq = []
    for _ in range(int(rng.integers(0, 20))):
        k = rng.integers(0, 7)
        if k <= 1:
            rt, r = regs[rng.integers(len(regs))]; op = ONE[rng.integers(len(ONE))](register=r, reg_type=rt)
        elif k == 2:
            rt, r = regs[rng.integers(len(regs))]
            op = ops.OneQubitGateWrapper([ONE[rng.integers(len(ONE))] for _ in range(rng.integers(1,4))], register=r, reg_type=rt)
        else:
            a, b = rng.choice(len(regs), 2, replace=False); (t1, r1), (t2, r2) = regs[a], regs[b]
            if k == 3: op = ops.CNOT(control=r1, control_type=t1, target=r2, target_type=t2)
            elif k == 4: op = ops.CZ(control=r1, control_type=t1, target=r2, target_type=t2)
            elif k == 5: op = ops.ClassicalCNOT(control=r1, control_type=t1, target=r2, target_type=t2, c_register=0)
            else: op = ops.MeasurementCNOTandReset(control=r1, control_type=t1, target=r2, target_type=t2, c_register=0)
        c.add(op); seq.append(op)
    return c, seq, ne, np_
def flat(seq):
    out = []
    for op in seq:
        if isinstance(op, ops.OneQubitGateWrapper):
            for g in op.operations[::-1]:
                if g is not ops.Identity: out.append((g.__name__, [(op.reg_type, op.register)], []))
        elif isinstance(op, ops.Identity): continue
        else:
            out.append((type(op).__name__, list(zip(op.q_registers_type, op.q_registers)), list(op.c_registers)))
    return out
def layers(items):
    last = {}; lay = []
    for name, qs, cs in items:
        keys = [q for q in qs] + [("c", x) for x in cs]
        l = max([last.get(k_, 0) for k_ in keys] + [0]) + 1
        for k_ in keys: last[k_] = l
        lay.append(l)
    return lay, last
st = collections.Counter()
for trial in range(300):
    c, seq, ne, np_ = rand_circ()
    raw = [(type(op).__name__, list(zip(op.q_registers_type, op.q_registers)), list(op.c_registers)) for op in seq]
    lay_raw, last_raw = layers(raw)
    fl = flat(seq); lay, last = layers(fl)
    def cmp(name, got, exp):
        st[f"{name} ok" if got == exp else f"{name} BAD"] += 1
        if got != exp and st[f"{name} BAD"] <= 2: print(name, "got", got, "expected", exp, [x[0] for x in raw])
    try: cmp("depth", c.depth, max(lay_raw + [0]))
    except Exception as e: st[f"depth EXC {type(e).__name__}"] += 1
    try: cmp("emitters", M.CircuitEmitterCount().evaluate(None, c), ne)
    except Exception as e: st[f"emitters EXC {type(e).__name__}"] += 1
    try: cmp("eeCNOT", M.CircuitCnotCount().evaluate(None, c), sum(1 for n_, qs, _ in raw if n_ == "CNOT" and all(q[0] == "e" for q in qs)))
    except Exception as e: st[f"eeCNOT EXC {type(e).__name__} {str(e)[:40]}"] += 1
    try: cmp("unitary", M.CircuitUnitaryCount().evaluate(None, c), sum(1 for n_, _, _ in fl if n_ in ("SigmaX","SigmaY","SigmaZ","Phase","PhaseDagger","Hadamard","CNOT")))
    except Exception as e: st[f"unitary EXC {type(e).__name__} {str(e)[:40]}"] += 1
    try: cmp("measure", M.CircuitMeasureCount().evaluate(None, c), sum(1 for n_, _, _ in raw if n_ == "MeasurementCNOTandReset"))
    except Exception as e: st[f"measure EXC {type(e).__name__} {str(e)[:40]}"] += 1
    try:
        exp = max(sum(1 for n_, qs, _ in fl if ("e", i) in qs) for i in range(ne))
        cmp("maxEmitDepth", M.CircuitMaxEmitDepth().evaluate(None, c), exp)
    except Exception as e: st[f"maxEmitDepth EXC {type(e).__name__} {str(e)[:40]}"] += 1
    try:
        exp = 0
        for i in range(ne):
            ws = [n_ for n_, qs, _ in fl if ("e", i) in qs]
            marks = [0] + [j + 1 for j, n_ in enumerate(ws) if n_ == "MeasurementCNOTandReset"] + [len(ws) + 1]
            exp = max(exp, max(b - a for a, b in zip(marks, marks[1:])))
        cmp("resetDepth", M.CircuitMaxEmitResetDepth().evaluate(None, c), exp)
    except Exception as e: st[f"resetDepth EXC {type(e).__name__} {str(e)[:40]}"] += 1
    try:
        M.CircuitMaxEmitEffDepth().evaluate(None, c); st["effDepth ran"] += 1
    except Exception as e: st[f"effDepth EXC {type(e).__name__} {str(e)[:40]}"] += 1
for k in sorted(st): print(k, st[k])
