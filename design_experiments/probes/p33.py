import warnings; warnings.filterwarnings("ignore")
import numpy as np, networkx as nx, collections, io, contextlib, itertools
from graphiq.backends.stabilizer.compiler import StabilizerCompiler
from graphiq.backends.density_matrix.compiler import DensityMatrixCompiler
from graphiq.backends.stabilizer.functions.stabilizer import canonical_form
from graphiq.circuit.circuit_dag import CircuitDAG
from graphiq.circuit import ops
from graphiq import metrics as M
import graphiq.noise.noise_models as nm
from graphiq.state import QuantumState
rng = np.random.default_rng(61)
ONE = [ops.Hadamard, ops.Phase, ops.PhaseDagger, ops.SigmaX, ops.SigmaY, ops.SigmaZ, ops.Identity]
def rand_circ(nmax=3):
    ne, np_ = int(rng.integers(1,nmax)), int(rng.integers(1,nmax))
    c = CircuitDAG(n_emitter=ne, n_photon=np_, n_classical=1); regs=[("e",i) for i in range(ne)]+[("p",i) for i in range(np_)]
    for _ in range(int(rng.integers(1,15))):
        k = rng.integers(0,7)
        if k<=1: rt,r=regs[rng.integers(len(regs))]; c.add(ONE[rng.integers(len(ONE))](register=r,reg_type=rt))
        elif k==2:
            rt,r=regs[rng.integers(len(regs))]; c.add(ops.OneQubitGateWrapper([ONE[rng.integers(len(ONE))] for _ in range(rng.integers(1,4))],register=r,reg_type=rt))
        else:
            a,b=rng.choice(len(regs),2,replace=False); (t1,r1),(t2,r2)=regs[a],regs[b]
            K=[ops.CNOT,ops.CZ,ops.ClassicalCNOT,ops.MeasurementCNOTandReset][k-3]
            if K in (ops.CNOT,ops.CZ): c.add(K(control=r1,control_type=t1,target=r2,target_type=t2))
            else: c.add(K(control=r1,control_type=t1,target=r2,target_type=t2,c_register=0))
    return c
def state(c):
    k = StabilizerCompiler(); k.measurement_determinism = 1
    return canonical_form(k.compile(c).rep_data.data.to_stabilizer())
def fp(c):
    return (c.to_openqasm(), tuple((type(o).__name__, tuple(type(x).__name__ for x in (o.noise if isinstance(o.noise, list) else [o.noise]))) for o in c.sequence()))
st = collections.Counter()
for trial in range(300):
    c = rand_circ(); s0 = state(c); f0 = fp(c)
    # rewrites preserve state
    for name in ("copy", "unwrap_nodes", "group_one_qubit_gates", "remove_identity", "assign_noise_empty"):
        try:
            d = c.copy()
            if name == "assign_noise_empty": d = c.assign_noise({"e": {}, "p": {}, "ee": {}, "ep": {}, "pe": {}, "pp": {}})
            elif name != "copy": getattr(d, name)()
            st[f"{name} preserves state" if state(d) == s0 else f"{name} CHANGES STATE"] += 1
        except Exception as e:
            st[f"{name} EXC {type(e).__name__} {str(e)[:40]}"] += 1
    # calls do not mutate input
    calls = {
        "compile stab": lambda: StabilizerCompiler().compile(c),
        "compile dm": lambda: DensityMatrixCompiler().compile(c),
        "depth metric": lambda: M.CircuitDepth().evaluate(None, c),
        "unitary metric": lambda: M.CircuitUnitaryCount().evaluate(None, c),
        "maxemit metric": lambda: M.CircuitMaxEmitDepth().evaluate(None, c),
        "assign_noise": lambda: c.assign_noise({"e": {"Hadamard": nm.PauliError("X"), "Phase": nm.DepolarizingNoise(0.1)}, "p": {"Hadamard": nm.PhotonLoss(0.1)}, "ee": {"CNOT": nm.DepolarizingNoise(0.1)}, "ep": {"CNOT": nm.DepolarizingNoise(0.1)}, "pe": {}, "pp": {}}),
        "compare direct": lambda: c.compare(c.copy(), method="direct"),
        "compare iso": lambda: c.compare(c.copy(), method="is_isomorphic"),
    }
    for name, f in calls.items():
        try:
            with contextlib.redirect_stdout(io.StringIO()): f()
        except Exception as e:
            st[f"{name} EXC {type(e).__name__} {str(e)[:40]}"] += 1; continue
        ok = fp(c) == f0 and state(c) == s0
        st[f"{name} leaves input" if ok else f"{name} MUTATES INPUT"] += 1
    # C15 direct: reflexive on copies, insensitive to wrapping/identity, symmetric
    d = c.copy(); d.unwrap_nodes()
    e = c.copy(); e.remove_identity()
    for nm_, (a, b) in {"copy": (c, c.copy()), "unwrapped": (c, d), "no-identity": (c, e)}.items():
        r1 = a.compare(b, method="direct"); r2 = b.compare(a, method="direct")
        st[f"direct {nm_} equal" if r1 and r2 else f"direct {nm_} NOT EQUAL ({r1},{r2})"] += 1
    c2 = rand_circ()
    if c.register == c2.register:
        r = c.compare(c2, method="direct")
        if r: st["direct true on random pair: states equal" if state(c) == state(c2) else "direct TRUE BUT STATES DIFFER"] += 1
for k in sorted(st): print(k, st[k])
