import warnings; warnings.filterwarnings("ignore")
import numpy as np, networkx as nx, sys
import graphiq as gq
from graphiq.backends.stabilizer.compiler import StabilizerCompiler
from graphiq.backends.density_matrix.compiler import DensityMatrixCompiler
from graphiq.solvers.time_reversed_solver import TimeReversedSolver
from graphiq.metrics import Infidelity
from graphiq.state import QuantumState
def t(name, f):
    try:
        print(name, "->", f())
    except Exception as e:
        import traceback
        print(name, "EXC", type(e).__name__, str(e)[:200])
def solve(g, det=1, comp=StabilizerCompiler):
    target = QuantumState(g, rep_type="g")
    c = comp(); c.measurement_determinism = det
    s = TimeReversedSolver(target=target, metric=Infidelity(target), compiler=c)
    s.solve()
    score, circ = s.result
    return score, circ.n_emitters, [type(o).__name__ for o in circ.sequence() if type(o).__name__ not in ("Input","Output")]
g1 = nx.Graph(); g1.add_node(0)
t("single vertex", lambda: solve(g1))
g2 = nx.Graph(); g2.add_nodes_from([0,1])
t("two isolated", lambda: solve(g2))
g3 = nx.Graph([(0,1)]); g3.add_node(2)
t("edge+isolated", lambda: solve(g3))
t("path3 det0", lambda: solve(nx.path_graph(3), det=0))
t("square det0", lambda: solve(nx.cycle_graph(4), det=0))
t("square det1 dm", lambda: solve(nx.cycle_graph(4), det=1, comp=DensityMatrixCompiler))
t("square det0 dm", lambda: solve(nx.cycle_graph(4), det=0, comp=DensityMatrixCompiler))
g4 = nx.Graph([(2,0),(0,1)])
t("nonsorted node order", lambda: solve(g4))
