import warnings; warnings.filterwarnings("ignore")
from graphiq.circuit.circuit_dag import CircuitDAG
from graphiq.circuit import ops
from graphiq.backends.stabilizer.compiler import StabilizerCompiler
c = CircuitDAG(n_emitter=1, n_photon=1, n_classical=0)
c.add(ops.Hadamard(register=0, reg_type='p'))
c.add(ops.CNOT(control=0, control_type='p', target=0, target_type='e'))
c2 = CircuitDAG.from_json(c.to_json())
for o in c2.sequence():
    if not isinstance(o, (ops.Input, ops.Output)):
        print(type(o).__name__, o.q_registers, o.q_registers_type, getattr(o,'reg_type',None), getattr(o,'control_type',None), getattr(o,'target_type',None))
k = StabilizerCompiler()
print(k.compile(c).rep_data.data.stabilizer_to_labels(), k.compile(c2).rep_data.data.stabilizer_to_labels())
