import warnings; warnings.filterwarnings("ignore")
import networkx as nx, traceback
from graphiq.backends.stabilizer.compiler import StabilizerCompiler
from graphiq.solvers.time_reversed_solver import TimeReversedSolver
from graphiq.metrics import Infidelity
from graphiq.state import QuantumState
g = nx.path_graph(3)
target = QuantumState(g, rep_type="g")
try:
    s = TimeReversedSolver(target=target.copy(), metric=Infidelity(target.copy()), compiler=StabilizerCompiler()); s.solve()
    print(s.result[0])
except Exception:
    traceback.print_exc(limit=6)
