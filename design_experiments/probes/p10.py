import warnings; warnings.filterwarnings("ignore")
from graphiq.circuit.circuit_dag import CircuitDAG
from graphiq.circuit import ops
from graphiq.backends.stabilizer.compiler import StabilizerCompiler
from graphiq.utils.circuit_comparison import remove_redundant_circuits
def mk(swap):
    c = CircuitDAG(n_emitter=2, n_photon=0, n_classical=0)
    c.add(ops.Hadamard(register=0, reg_type='e'))
    c.add(ops.CNOT(control=0, control_type='e', target=1, target_type='e'))
    if swap: c.add(ops.CNOT(control=1, control_type='e', target=0, target_type='e'))
    else:    c.add(ops.CNOT(control=0, control_type='e', target=1, target_type='e'))
    return c
a, b = mk(False), mk(True)
print("iso:", a.compare(b, method="is_isomorphic"), "direct:", a.compare(b, method="direct"))
print("kept:", len(remove_redundant_circuits([mk(False), mk(True)])))
k = StabilizerCompiler()
print(k.compile(mk(False)).rep_data.data.stabilizer_to_labels(), k.compile(mk(True)).rep_data.data.stabilizer_to_labels())
