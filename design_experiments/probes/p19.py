import warnings; warnings.filterwarnings("ignore")
import signal, sys
class TO(Exception): pass
def _h(*a): raise TO()
signal.signal(signal.SIGALRM, _h)
import numpy as np, networkx as nx, itertools, collections
from graphiq.utils.relabel_module import iso_finder, relabel, get_relabel_map, lc_orbit_finder, rgs_orbit_finder, linear_partial_orbit, depth_first_orbit
from graphiq.benchmarks.graph_states import repeater_graph_states
stats = collections.Counter()
rng = np.random.default_rng(0)
def lc(A, v):
    A = A.copy(); nb = np.nonzero(A[v])[0]
    for a,b in itertools.combinations(nb,2): A[a,b]^=1; A[b,a]^=1
    return A
def orbit(A, cap=200000):
    key = lambda M: M.astype(int).tobytes(); seen = {key(A)}; st=[A.astype(int)]
    while st and len(seen) < cap:
        B = st.pop()
        for v in range(len(B)):
            C = lc(B, v)
            if key(C) not in seen: seen.add(key(C)); st.append(C)
    return seen
# relabel
for _ in range(200):
    n = int(rng.integers(2,8)); g = nx.gnp_random_graph(n, 0.5, seed=int(rng.integers(1e6))); A = nx.to_numpy_array(g).astype(int)
    p = rng.permutation(n); B = relabel(A, p)
    ok = all(B[p[u], p[v]] == A[u, v] for u in range(n) for v in range(n))
    stats["relabel ok" if ok else "relabel BAD"] += 1
    m = get_relabel_map(A, B)
    m2 = {k: v for k, v in m.items() if k != -1}
    ok2 = all(A[u, v] == B[m2[u], m2[v]] for u in range(n) for v in range(n))
    stats["relabel_map ok" if ok2 else "relabel_map BAD"] += 1
print('relabel done', dict(stats)); sys.stdout.flush()
# iso_finder
for _ in range(60):
    n = int(rng.integers(3,8)); g = nx.gnp_random_graph(n, 0.5, seed=int(rng.integers(1e6))); A = nx.to_numpy_array(g).astype(int)
    n_iso = int(rng.integers(1, 12)); seed = int(rng.integers(100))
    try:
        signal.alarm(20); out = iso_finder(A, n_iso, seed=seed, allow_exhaustive=bool(rng.integers(2)), sort_emit=bool(rng.integers(2))); signal.alarm(0)
    except Exception as e:
        stats[f"iso_finder EXC {type(e).__name__} {str(e)[:50]}"] += 1; continue
    out = [np.array(x) for x in out]
    if len(out) > n_iso: stats["iso more than requested"] += 1
    if not np.array_equal(out[0], A): stats["iso first not input"] += 1
    keys = [x.astype(int).tobytes() for x in out]
    if len(set(keys)) != len(keys): stats["iso duplicates"] += 1
    for x in out:
        if not nx.is_isomorphic(nx.from_numpy_array(x), g): stats["iso not isomorphic"] += 1
    stats["iso_finder runs"] += 1
signal.alarm(0); print('iso done', dict(stats)); sys.stdout.flush()
# orbit explorers
for _ in range(40):
    n = int(rng.integers(3,7)); g = nx.gnp_random_graph(n, 0.6, seed=int(rng.integers(1e6)))
    A = nx.to_numpy_array(g).astype(int); orb = orbit(A)
    for kw in (dict(), dict(with_iso=True), dict(rand=True), dict(rand=True, with_iso=True), dict(rand=True, with_iso=True, rep_allowed=True), dict(comp_depth=2), dict(orbit_size_thresh=3)):
        np.random.seed(1)
        try: signal.alarm(20); res = lc_orbit_finder(g, **kw); signal.alarm(0)
        except Exception as e: stats[f"lc_orbit_finder{kw} EXC {type(e).__name__}"] += 1; continue
        for h in res:
            if nx.to_numpy_array(h, nodelist=sorted(h.nodes)).astype(int).tobytes() not in orb: stats[f"lc_orbit_finder{kw} outside orbit"] += 1
        ks = [nx.to_numpy_array(h, nodelist=sorted(h.nodes)).astype(int).tobytes() for h in res]
        if not kw.get("rep_allowed") and len(set(ks)) != len(ks): stats[f"lc_orbit_finder{kw} duplicates"] += 1
        stats["lc_orbit_finder runs"] += 1
    try:
        signal.alarm(20); res = depth_first_orbit(g); signal.alarm(0)
        for h in res:
            if nx.to_numpy_array(h, nodelist=sorted(h.nodes)).astype(int).tobytes() not in orb: stats["depth_first outside orbit"] += 1
        stats["depth_first runs"] += 1
    except Exception as e: stats[f"depth_first EXC {type(e).__name__}"] += 1
signal.alarm(0); print('orbit done'); sys.stdout.flush()
for m in (2,3,4):
    g = repeater_graph_states(m); A = nx.to_numpy_array(g).astype(int); orb = orbit(A)
    res = rgs_orbit_finder(g); ks = [nx.to_numpy_array(h, nodelist=sorted(h.nodes)).astype(int).tobytes() for h in res]
    stats[f"rgs m={m}: n={len(res)} distinct={len(set(ks))} inorbit={all(k in orb for k in ks)}"] += 1
for n in range(3, 9):
    g = nx.path_graph(n); A = nx.to_numpy_array(g).astype(int); orb = orbit(A)
    res = linear_partial_orbit(g); ks = [nx.to_numpy_array(h, nodelist=sorted(h.nodes)).astype(int).tobytes() for h in res]
    stats[f"linear n={n}: n={len(res)} distinct={len(set(ks))} inorbit={all(k in orb for k in ks)}"] += 1
for k in sorted(stats): print(k, stats[k])
