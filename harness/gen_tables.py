"""
gen_tables.py — regenerate lean/GraphiqModel/Generated/*.lean from $REPO's current source (DESIGN §2.4).

Finite tables of the implementation are tabulated over their *whole* domain and written as Lean literals; the
property files re-prove, by kernel `decide`, that each literal equals the model and has the property.  A file is only
rewritten when its content changes, so an unchanged repository costs no rebuild.
"""
import os
import sys

sys.path.insert(0, os.path.dirname(os.path.dirname(os.path.abspath(__file__))))
from harness import common  # noqa: E402

GEN = os.path.join(common.LEAN_DIR, "GraphiqModel", "Generated")


def write_if_changed(name, text):
    os.makedirs(GEN, exist_ok=True)
    path = os.path.join(GEN, name)
    old = open(path).read() if os.path.exists(path) else None
    if old != text:
        with open(path, "w") as f:
            f.write(text)


GENERATORS = []

from harness import gen_tables_export as _gte  # noqa: E402  (grp-export: C14/C15 name tables)

GENERATORS.append(_gte.generate)


def main():
    for g in GENERATORS:
        g()


if __name__ == "__main__":
    main()
