"""
common.py — shared infrastructure of the correspondence harness.

Run with /venv/bin/python; graphiq is imported from $REPO (default /repo) by path, never installed.
"""
import hashlib
import json
import os
import random
import subprocess
import sys
import time

VERIF = os.path.dirname(os.path.dirname(os.path.abspath(__file__)))
REPO = os.environ.get("REPO", "/repo")
if REPO not in sys.path:
    sys.path.insert(0, REPO)
os.environ.setdefault("MPLBACKEND", "Agg")
# small matrices only: multi-threaded BLAS is slower here and collapses under machine load
for _v in ("OMP_NUM_THREADS", "OPENBLAS_NUM_THREADS", "MKL_NUM_THREADS"):
    os.environ.setdefault(_v, "1")

import warnings  # noqa: E402

warnings.filterwarnings("ignore")

LEAN_DIR = os.path.join(VERIF, "lean")
DRIVER = os.path.join(LEAN_DIR, ".lake", "build", "bin", "driver")


# --------------------------------------------------------------------------------------------------
# driver process
# --------------------------------------------------------------------------------------------------
def parse_reply(line):
    """'ok k=v k=v' -> {'_status':'ok', k:v}; 'err kind k=v' -> {'_status':'err','_err':kind,...}"""
    toks = line.strip().split(" ")
    out = {"_status": toks[0] if toks else "", "_raw": line.strip()}
    rest = toks[1:]
    if out["_status"] == "err" and rest:
        out["_err"] = rest[0]
        rest = rest[1:]
    for t in rest:
        if "=" in t:
            k, v = t.split("=", 1)
            out[k] = v
    return out


class Driver:
    """line-protocol client of the compiled Lean model driver"""

    def __init__(self):
        if not os.path.exists(DRIVER):
            raise RuntimeError(f"model driver not built: {DRIVER}")
        self.p = subprocess.Popen(
            [DRIVER], stdin=subprocess.PIPE, stdout=subprocess.PIPE, text=True
        )
        self.n_lines = 0

    def ask(self, line):
        return self.batch([line])[0]

    def batch(self, lines):
        """send all lines, read one reply per line (a writer thread avoids pipe-buffer deadlock on large requests)"""
        import threading

        for ln in lines:
            assert "\n" not in ln

        def writer():
            try:
                for ln in lines:
                    self.p.stdin.write(ln + "\n")
                self.p.stdin.flush()
            except BrokenPipeError:
                pass

        th = threading.Thread(target=writer, daemon=True)
        th.start()
        out = []
        for k in range(len(lines)):
            rep = self.p.stdout.readline()
            if rep == "":
                raise RuntimeError("model driver died; request: " + lines[k][:300])
            out.append(parse_reply(rep))
        th.join()
        self.n_lines += len(lines)
        return out

    def close(self):
        try:
            self.p.stdin.close()
            self.p.wait(timeout=10)
        except Exception:
            self.p.kill()


# --------------------------------------------------------------------------------------------------
# context, results, evidence
# --------------------------------------------------------------------------------------------------
class Ctx:
    def __init__(self, pid, tier, seed):
        self.pid = pid
        self.tier = tier
        self.seed = seed
        self.rng = random.Random(f"{pid}:{seed}")
        self.t0 = time.time()
        self.quick = tier == "quick"

    def np_rng(self):
        import numpy as np

        return np.random.default_rng(self.rng.getrandbits(63))


class Result:
    """what a harness run covered and found"""

    def __init__(self):
        self.evaluations = 0
        self.distinct = set()  # hashes of distinct non-trivial cases
        self.samples = []
        self.branches = {}
        self.sizes = {}
        self.errors = {}
        self.violations = []  # dicts: {key, clause, input, impl, model, ...}  (direct oracle failed on the implementation)
        self.exact_breaks = []  # dicts: model and implementation differ but the property oracle holds
        self.known = []  # (finding_key, description) reproduced
        self.known_gone = []  # finding keys whose defect no longer reproduces
        self.notes = []
        self.extra = {}
        self.rule = ""
        self.exhaustive = False
        self.traces_validated = 0

    def count(self, table, key, k=1):
        d = getattr(self, table)
        d[key] = d.get(key, 0) + k

    def branch(self, brs):
        for b in brs:
            self.branches[b] = self.branches.get(b, 0) + 1

    def nontrivial(self, *parts):
        h = hashlib.blake2b(repr(parts).encode(), digest_size=8).digest()
        self.distinct.add(h)

    def sample(self, s, cap=6):
        if len(self.samples) < cap:
            self.samples.append(s if len(str(s)) < 600 else str(s)[:600] + "…")

    def violation(self, key, clause, **kw):
        # keep at most 3 instances per key so that a frequently reproduced (known) finding cannot crowd out a new violation
        self.viol_count = getattr(self, "viol_count", {})
        self.viol_count[key] = self.viol_count.get(key, 0) + 1
        if self.viol_count[key] <= 3 and len(self.violations) < 60:
            self.violations.append(dict(key=key, clause=clause, **kw))

    def exact_break(self, fn, **kw):
        if len(self.exact_breaks) < 50:
            self.exact_breaks.append(dict(correspondence=fn, **kw))


def load_known_findings(pid):
    """-> list of (key, description) for 'finding:' lines of this property"""
    out = []
    path = os.path.join(VERIF, "known_findings.txt")
    if not os.path.exists(path):
        return out
    for line in open(path):
        line = line.strip()
        if not line.startswith("finding:"):
            continue
        toks = line.split()
        d = dict(t.split("=", 1) for t in toks[1:3] if "=" in t)
        if d.get("property") == pid:
            out.append((d.get("key", ""), " ".join(toks[3:])))
    return out


def jdump(o):
    return json.dumps(o, sort_keys=True, default=str)


def bits(arr):
    """numpy 0/1 array (any shape) -> row-major 0/1 string"""
    import numpy as np

    return "".join("1" if v else "0" for v in np.asarray(arr).astype(int).ravel().tolist())


def unbits(s, shape):
    import numpy as np

    return np.array([1 if c == "1" else 0 for c in s], dtype=int).reshape(shape)


def err_class(e):
    """map a Python exception to the model's error enum"""
    if isinstance(e, AssertionError):
        return "assertion"
    if isinstance(e, IndexError):
        return "index"
    if isinstance(e, KeyError):
        return "key"
    if isinstance(e, ValueError):
        return "value"
    if isinstance(e, TypeError):
        return "type"
    if isinstance(e, AttributeError):
        return "attribute"
    if isinstance(e, Warning):
        return "warning"
    if isinstance(e, RuntimeError):
        return "runtime"
    return type(e).__name__


# --------------------------------------------------------------------------------------------------
# implementation exceptions on valid inputs (robustness net, kind (C) of the harness audit)
# --------------------------------------------------------------------------------------------------
def raised_in_repo(e):
    """True when the exception was raised while $REPO code was running on behalf of the harness: walking the traceback from the
    innermost frame outwards (frames of numpy / networkx / the standard library are skipped), the first frame that belongs either to
    $REPO or to the harness belongs to $REPO.  An exception raised by harness code itself (or by the driver client) is not attributed to
    the implementation and stays an infrastructure failure."""
    import traceback

    repo = os.path.realpath(REPO) + os.sep
    verif = os.path.realpath(VERIF) + os.sep
    try:
        frames = traceback.extract_tb(e.__traceback__)
    except Exception:  # noqa: BLE001
        return False
    for fs in reversed(frames):
        fn = os.path.realpath(fs.filename)
        if fn.startswith(repo):  # first: a scratch copy of the repository may live below the verification directory
            return True
        if fn.startswith(verif):
            return False
    return False


def where_raised(e):
    """'file.py:line function' of the innermost $REPO frame of the traceback (for the report)"""
    import traceback

    repo = os.path.realpath(REPO) + os.sep
    try:
        for fs in reversed(traceback.extract_tb(e.__traceback__)):
            fn = os.path.realpath(fs.filename)
            if fn.startswith(repo):
                return f"{fn[len(repo):]}:{fs.lineno} {fs.name}"
    except Exception:  # noqa: BLE001
        pass
    return "?"


class impl_guard:
    """`with impl_guard(res, "stream"):` around a stream of VALID generated inputs.  An exception that graphiq raises there and that no
    call site handled used to leave run() and end as exit 2 ("INFRA: harness crashed"), which is not a detection.  It is the
    implementation failing on a valid input: reported as `res.violation("<stream>:raises:<class>")` when `promise` (the property
    promises a result on these inputs) else as `res.exact_break("<stream>:raises:<class>")`; the rest of that stream is abandoned, the
    following streams still run.  Exceptions raised by harness code or the driver are re-raised unchanged (infrastructure).
    Nothing changes for a run in which nothing raises."""

    def __init__(self, res, stream, promise=False, input=None, also=()):
        # also: harness exception classes that mean "the implementation produced something outside the modelled domain" (e.g.
        # wireutil.OutOfModel): attributed to the implementation although they are raised by harness code
        self.res, self.stream, self.promise, self.input, self.also = res, stream, promise, input, tuple(also)
        self.raised = None

    def __enter__(self):
        return self

    def __exit__(self, et, e, tb):
        if e is None or not isinstance(e, Exception):
            return False
        out_of_domain = bool(self.also) and isinstance(e, self.also)
        if not out_of_domain and not raised_in_repo(e):
            return False
        self.raised = e
        key = f"{self.stream}:out-of-model" if out_of_domain else f"{self.stream}:raises:{err_class(e)}"
        what = f"{type(e).__name__}: {e}"[:300] + ("" if out_of_domain else f" [at {where_raised(e)}]")
        inp = self.input if self.input is not None else {"stream": self.stream}
        self.res.count("errors", key)
        ab = self.res.extra.setdefault("streams_aborted", {})
        ab[self.stream] = ab.get(self.stream, 0) + 1
        if out_of_domain:
            self.res.exact_break(key, input=inp, impl=what, model="every object the implementation produces on these inputs lies in the modelled domain")
        elif self.promise:
            self.res.violation(key, "the implementation raised on a valid generated input (no call site of the harness expects an error there)",
                               input=inp, impl=what)
        else:
            self.res.exact_break(key, input=inp, impl=what, model="no error expected on a valid generated input")
        return True


def coverage_floor(res, stream, done, planned, floor=0.5, what="cases"):
    """kind (D): a stream that silently skips most of its valid cases no longer checks anything.  Records the executed fraction in the
    evidence and reports an exact_break when fewer than `floor` of the planned valid cases were actually compared."""
    res.extra.setdefault("stream_coverage", {})[stream] = f"{done}/{planned}"
    if planned > 0 and done < floor * planned:
        res.exact_break(f"coverage collapsed: {stream}", input={"stream": stream},
                        impl=f"only {done} of {planned} generated valid {what} were compared", model=f"at least {floor:.0%} are compared")
        return False
    return True
