"""
C13 — circuit rewrites preserve the state; library calls do not mutate their inputs.

Part A (rewrites; exact correspondence + direct oracle).  Random circuits (all op classes of ops.py that the compilers
accept, wrappers, two-register and classically controlled operations, built through `add` and `insert_at`) and solver
circuits are rewritten by the real `copy`, `unwrap_nodes`, `group_one_qubit_gates`, `remove_identity` and
`assign_noise(<empty map>)`; the result must equal the Lean model's result exactly (wires, node ids, classes, wrapped
gate lists, registers, labels) and `flat` of input and output must agree (model and an independent Python `flat`).
Direct oracle: the compiled state is unchanged.  Because forced measurement outcomes make the *order* of independent
measurements observable, states are compared branch by branch: the original is compiled with scripted desired outcomes,
the outcomes that actually occurred are then forced on the rewritten circuit, which must reproduce them and end in the
same stabilizer state (canonical signed form, `tabutil.stab_canon`); small circuits also through the density-matrix
backend.

Part A' (topological order; direct oracle of the Lean theorem `compiled_tableau_independent_of_topological_order` on the real
compiler).  The real `StabilizerCompiler.compile` is run on a duck-typed view of the circuit whose `sequence()` follows a
*random linear extension* of the DAG (random Kahn order) instead of the order `networkx.topological_sort` returns; the
outcomes that occurred in the default order are forced operation by operation; the recorded outcomes and the final
stabilizer state (canonical signed form) must be the same (for small circuits also through the DensityMatrixCompiler).  The model must accept the order as a linear extension
(`assign_noise` of the model rejects anything else).  Testing only (the theorem is about the model `stabRun`).

Part A'' (the bridge of the refinement theorems).  `compile_loop_refines_stabilizer_semantics` speaks about
`stabRun … ((c.sops seq).map toCOp)`.  That `(c.sops seq).map toCOp` *is* the sequence of operations the real compiler executes
is checked here: the Lean definitions themselves are evaluated (a generated script, `lake env lean`, prints
`(c.sops seq).map Commute.toCOp` for the wire snapshot of each real circuit and node order, and whether `Commute.decode` accepts
every operation), the result must equal the real `sequence(unwrapped=True)` (identities and I/O nodes dropped) token for token,
and the model's `circ.stab` run on exactly that list must reproduce the real StabilizerCompiler's outcomes and state (both
forced-outcome settings).

Part B (aliasing; testing by nature — a functional model cannot exhibit Python object aliasing).  Random interleavings of
library calls on shared objects (compile with both backends and all determinism modes, every metric's `evaluate`,
`TimeReversedSolver`, `assign_noise`, `MonteCarloNoise`, `copy`, the rewrites on copies, `compare`, `to_openqasm`,
depth queries); before/after fingerprints of every live input: openQASM text, wire snapshot with labels, per-operation
noise descriptors, compiled state (both backends when small), target representation type and canonical data.
"""
import copy
import functools
import itertools
import os
import subprocess
import time
import warnings

import networkx as nx
import numpy as np

from harness import tabutil as tu
from harness import wireutil as wu
from harness import common
from harness.common import Driver, Result, coverage_floor, err_class, impl_guard

LEVEL = "proof"
TRUSTED_BASE = [
    "Lean 4.33 kernel",
    "hand-written model GraphiqModel/Model/Wire.lean (copy, unwrap_nodes, remove_identity, group_one_qubit_gates, assign_noise, flat) tied to circuit_dag.py / circuit_base.py by this correspondence run",
    "networkx topological_sort returns a linear extension (checked on every observed call by the model: assign_noise rejects a sequence that is not one)",
    "stabilizer semantics of the compile sequence: the commutation of operations on disjoint quantum registers is PROVED (Properties/C13 §2b, Proofs/Commute*.lean) on C07's group transformers and tied to the compile loop stabRun by refinement and completeness theorems (§2c); trusted there: that stabRun models StabilizerCompiler.compile_one_gate (C01 correspondence) and that (c.sops seq).map toCOp is the sequence the real compiler executes (part A'': the Lean definitions are evaluated on the snapshot of every sampled real circuit/order and compared token for token with the real sequence(unwrapped=True); the model run on that list is compared with the real compile), that the floating-point density-matrix backend computes the density-matrix semantics (compared per circuit and branch; commutation of that semantics on disjoint registers is proved too, Properties/C13 §2g)",
    "part A'': `lake env lean` evaluates a generated script that imports Driver.CmdWire (snapshot parser) and Proofs/CommuteRefine (toCOp, decode)",
    "aliasing half: differential testing only — Python object aliasing is outside a functional model (DESIGN §4 C13, §7.6)",
    "harness: wire snapshot, scripted-outcome compilers (subclasses of the public compilers), stab_canon",
]
ASSUMPTIONS = [
    "a target's representation may be converted in place by a solver (allowed by the property's wording: behaviour, not representation)",
    "compiler objects' own flags (noise_simulation, _monte_carlo) set by solvers / MonteCarloNoise are not inputs in the sense of the property; fingerprints use fresh compilers",
    "edge attributes added to the DAG by circuit comparison are not behaviour",
    "parameterised gates are outside the wire model",
]

EMPTY_MAP = {"e": {}, "p": {}, "ee": {}, "ep": {}, "pe": {}, "pp": {}}
G1 = ["Identity", "Hadamard", "Phase", "PhaseDagger", "SigmaX", "SigmaY", "SigmaZ"]
MEASURING = ("ClassicalCNOT", "ClassicalCZ", "MeasurementCNOTandReset", "MeasurementZ")


# ------------------------------------------------------------------------------------------------------------ generators
def rand_reg(rng, ne, n_p, exclude=None):
    regs = [("e", i) for i in range(ne)] + [("p", i) for i in range(n_p)]
    if exclude is not None:
        regs = [r for r in regs if r != exclude]
    return rng.choice(regs)


def rand_op(rng, ne, n_p, nc, allow_mz, allow_meas):
    import graphiq.circuit.ops as ops

    w = rng.random()
    if w < 0.30:
        t, r = rand_reg(rng, ne, n_p)
        return getattr(ops, rng.choice(G1))(register=r, reg_type=t)
    if w < 0.55:
        t, r = rand_reg(rng, ne, n_p)
        k = rng.randint(1, 4)
        gl = [getattr(ops, rng.choice(G1 if rng.random() < 0.7 else ["Identity", "Hadamard", "Phase"])) for _ in range(k)]
        return ops.OneQubitGateWrapper(gl, register=r, reg_type=t)
    if ne + n_p >= 2 and w < 0.80:
        a = rand_reg(rng, ne, n_p)
        b = rand_reg(rng, ne, n_p, exclude=a)
        cls = ops.CNOT if rng.random() < 0.6 else ops.CZ
        return cls(control=a[1], control_type=a[0], target=b[1], target_type=b[0])
    if ne + n_p >= 2 and allow_meas and nc > 0 and w < 0.93:
        a = rand_reg(rng, ne, n_p)
        b = rand_reg(rng, ne, n_p, exclude=a)
        cls = rng.choice([ops.ClassicalCNOT, ops.ClassicalCZ, ops.MeasurementCNOTandReset])
        return cls(control=a[1], control_type=a[0], target=b[1], target_type=b[0], c_register=rng.randrange(nc))
    if allow_mz and nc > 0:
        t, r = rand_reg(rng, ne, n_p)
        return ops.MeasurementZ(register=r, reg_type=t, c_register=rng.randrange(nc))
    t, r = rand_reg(rng, ne, n_p)
    return getattr(ops, rng.choice(G1))(register=r, reg_type=t)


def n_measuring(circ):
    return sum(1 for n in circ.dag.nodes if type(circ.dag.nodes[n]["op"]).__name__ in MEASURING)


def gen_circuit(rng, allow_mz=False, max_ops=14, max_meas=4):
    import graphiq.circuit.ops as ops
    from graphiq.circuit.circuit_dag import CircuitDAG

    ne = rng.randint(1, 3)
    n_p = rng.randint(0, 3)
    nc = rng.randint(1, 2)
    circ = CircuitDAG(n_emitter=ne, n_photon=n_p, n_classical=nc)
    for _ in range(rng.randint(1, max_ops)):
        op = rand_op(rng, ne, n_p, nc, allow_mz, n_measuring(circ) < max_meas)
        w_hist = rng.random()
        if w_hist < 0.15 and type(op).__name__ in G1 and type(op).__name__ != "Identity":
            # reached through `replace_op`: an Identity placeholder is added first and then exchanged for the real gate (a node whose class
            # changed after it was indexed — what the rewrites look up by class must follow)
            circ.add(ops.Identity(register=op.register, reg_type=op.reg_type))
            circ.replace_op(max(n for n in circ.dag.nodes if isinstance(n, int)), op)
        elif w_hist < 0.22 and type(op).__name__ in G1 and type(op).__name__ != "Identity":
            # … or a real gate exchanged for an Identity (which `remove_identity` must then find)
            circ.add(op)
            circ.replace_op(max(n for n in circ.dag.nodes if isinstance(n, int)), ops.Identity(register=op.register, reg_type=op.reg_type))
        elif rng.random() < 0.75:
            circ.add(op)
        else:
            # insert on a random edge of each of its quantum registers; keep the DAG acyclic
            edges = []
            ok = True
            for r, t in zip(op.q_registers, op.q_registers_type):
                cands = [e for e in circ.edge_dict[t] if e[2] == f"{t}{r}"]
                if edges:
                    bad = circ.find_incompatible_edges(edges[0])
                    cands = [e for e in cands if e not in bad]
                if not cands:
                    ok = False
                    break
                edges.append(rng.choice(cands))
            if ok:
                circ.insert_at(op, edges)
            else:
                circ.add(op)
    return circ


def solver_circuit(rng):
    from harness.c04 import trs_circuit, random_connected_graph

    n = rng.randint(2, 6)
    g = random_connected_graph(rng, n)
    return trs_circuit(g)[0]


# ------------------------------------------------------------------------------------------------------------ semantics
def make_scripted(base_cls):
    class Scripted(base_cls):
        """forces a desired outcome per measuring operation (default otherwise) and records what occurred"""

        def __init__(self, want, default):
            super().__init__()
            self.want = dict(want)
            self.default = default
            self.got = {}
            self.got_list = []
            self._seen = {}

        def compile_one_gate(self, *args, **kwargs):
            # arguments are forwarded exactly as given (a signature-extending refactor of CompilerBase must not raise inside this subclass);
            # the operation is the 2nd, the classical record the 5th positional argument, or the keywords `op` / `classical_registers`
            op = kwargs.get("op", args[1] if len(args) > 1 else None)
            classical_registers = kwargs.get("classical_registers", args[4] if len(args) > 4 else None)
            name = type(op).__name__
            if name in MEASURING:
                sig = (name, tuple(op.q_registers), tuple(op.q_registers_type), tuple(op.c_registers))
                k = self._seen.get(sig, 0)
                self._seen[sig] = k + 1
                key = sig + (k,)
                self.measurement_determinism = self.want.get(key, self.default)
                super().compile_one_gate(*args, **kwargs)
                self.got[key] = int(classical_registers[op.c_registers[0]])
                self.got_list.append(self.got[key])
            else:
                super().compile_one_gate(*args, **kwargs)

    return Scripted


_SCRIPTED = {}


def scripted(backend):
    if backend not in _SCRIPTED:
        if backend == "stab":
            from graphiq.backends.stabilizer.compiler import StabilizerCompiler as B
        else:
            from graphiq.backends.density_matrix.compiler import DensityMatrixCompiler as B
        _SCRIPTED[backend] = make_scripted(B)
    return _SCRIPTED[backend]


def run_sem(circ, want, default, backend="stab"):
    """-> (outcomes that occurred {key: bit}, canonical final state)"""
    comp = scripted(backend)(want, default)
    with warnings.catch_warnings():
        warnings.simplefilter("ignore")
        st = comp.compile(circ)
    if backend == "stab":
        canon = tu.stab_canon(st.rep_data.data)
    else:
        canon = tuple(np.round(np.asarray(st.rep_data.data).ravel(), 8).tolist())
    return comp.got, canon


def sem_equal(ctx, orig, new, backend="stab", max_exh=3):
    """compare two circuits branch by branch; -> None or a description of the difference"""
    m = n_measuring(orig)
    if m != n_measuring(new):
        return f"{m} measuring operations became {n_measuring(new)}"
    scripts = []
    if m == 0:
        scripts = [({}, 0)]
    else:
        scripts = [({}, 0), ({}, 1)]
        got0, _ = run_sem(orig, {}, 0, backend)
        keys = sorted(got0)
        if m <= max_exh:
            for bits in itertools.product((0, 1), repeat=m):
                scripts.append((dict(zip(keys, bits)), 0))
        else:
            for _ in range(4):
                scripts.append(({k: ctx.rng.randrange(2) for k in keys}, 0))
    for want, default in scripts:
        got, st = run_sem(orig, want, default, backend)
        got2, st2 = run_sem(new, got, default, backend)
        if got2 != got:
            return f"forcing the outcomes {sorted(got.items())} that occurred in the original gives {sorted(got2.items())}"
        same = (st == st2) if backend == "stab" else bool(np.allclose(np.array(st), np.array(st2), atol=1e-7))
        if not same:
            return f"different final state for outcomes {sorted(got.items())} ({backend})"
    return None


def py_flat(snap):
    """independent Python version of `flat`: per register, base gates of wrappers in application order with identities
    dropped, multi-register / measuring nodes as (kind, q, c)"""
    out = {}
    for r, w in snap["wires"].items():
        if r[0] == "c":
            continue
        items = []
        for n in w:
            kind, gates, q, c, fixed = snap["nodes"][n]
            if kind == "W":
                items.extend(g for g in reversed(gates) if g != "I")
            elif kind == "G":
                items.extend(g for g in gates if g != "I")
            else:
                items.append((kind, q, c))
        out[r] = tuple(items)
    return (snap["ne"], snap["np"], snap["nc"], tuple(sorted(out.items())))


def flat_from_reply(rep):
    return rep.get("flat", "")


# ------------------------------------------------------------------------------------------------------------ part A
REWRITES = ["copy", "unwrap_nodes", "remove_identity", "group_one_qubit_gates", "assign_noise"]


def apply_rewrite(name, circ):
    """apply to a deep copy (or derive a new circuit); -> (result circuit, driver command suffix) ; raises"""
    if name == "copy":
        return circ.copy(), None
    if name == "assign_noise":
        seq = [n for n in nx.topological_sort(circ.dag) if not isinstance(n, str)]
        new = circ.assign_noise(EMPTY_MAP)
        return new, "wire.assign seq=" + (",".join(map(str, seq)) or "-")
    cp = circ.copy()
    if name == "unwrap_nodes":
        order = list(cp.node_dict.get("OneQubitGateWrapper", []))
        cp.unwrap_nodes()
        return cp, "wire.unwrap order=" + (",".join(map(str, order)) or "-")
    if name == "remove_identity":
        order = list(cp.node_dict.get("Identity", []))
        cp.remove_identity()
        return cp, "wire.rmid order=" + (",".join(map(str, order)) or "-")
    if name == "group_one_qubit_gates":
        order = [o[:-4] for o in cp.node_dict.get("Output", [])]
        cp.group_one_qubit_gates()
        return cp, "wire.group order=" + (",".join(order) or "-")
    raise ValueError(name)


def check_rewrites(ctx, res, drv, circ, tag, with_dm):
    before = wu.snapshot(circ)
    enc = wu.encode(before)
    qasm_before = circ.to_openqasm()
    for name in REWRITES:
        inp = {"circuit": enc, "rewrite": name, "gen": tag}
        res.evaluations += 1
        res.branch([f"rewrite:{name}"])
        try:
            new, cmd = apply_rewrite(name, circ)
        except Exception as e:  # noqa: BLE001
            res.violation(f"rewrite:{name}:raised", "the rewrite returns a circuit compiling to the same state", input=inp,
                          impl=f"{type(e).__name__}: {e}"[:300])
            continue
        if before["nodes"]:
            res.nontrivial(wu.shape(before), name)
        # the original must be untouched by a rewrite of its copy
        try:
            now_orig, qasm_now = wu.snapshot(circ), circ.to_openqasm()
        except Exception as e:  # noqa: BLE001 — the original could be read before the rewrite: it was changed
            now_orig, qasm_now = None, f"unreadable after the rewrite: {type(e).__name__}: {e}"[:200]
        if now_orig != before or qasm_now != qasm_before:
            res.violation(f"alias:{name}:original-changed", "a rewrite of a copy / a derived circuit leaves the original unchanged", input=inp,
                          impl=wu.encode(now_orig) if now_orig is not None else qasm_now)
            continue
        # direct oracle: same state, branch by branch.  Structure first: the wire walk of snapshot() raises on a rewrite that breaks a
        # wire (it used to run before structure_problems and ended the run as a harness crash instead of this violation)
        probs = wu.structure_problems(new)
        if probs:
            res.violation(f"rewrite:{name}:invalid-circuit", "the rewritten circuit is a valid circuit", input=inp, impl=probs[:4])
            continue
        after = wu.snapshot(new)
        try:
            diff = sem_equal(ctx, circ, new, "stab")
            if diff is None and with_dm:
                diff = sem_equal(ctx, circ, new, "dm", max_exh=2)
        except Exception as e:  # noqa: BLE001 — the original compiles (fingerprints, other streams); a rewritten circuit that does not is not "the same state"
            res.violation(f"rewrite:{name}:compile-raises:{err_class(e)}", "the rewritten circuit compiles to the same state as the original", input=inp,
                          impl=f"{type(e).__name__}: {e}"[:300], rewritten=wu.encode(after))
            continue
        if diff is not None:
            res.violation(f"rewrite:{name}:state-changed", "the rewrite does not change the state the circuit compiles to", input=inp,
                          impl=diff, rewritten=wu.encode(after))
            continue
        if py_flat(after) != py_flat(before):
            res.exact_break(f"flat:{name}", input=inp, impl=str(py_flat(after))[:400], model="flat(before) " + str(py_flat(before))[:400])
            continue
        # correspondence with the model
        if name == "copy":
            if after != before:
                res.exact_break("copy", input=inp, impl=wu.encode(after), model=enc)
            continue
        r, rf0, rf1 = drv.batch([f"{cmd} {enc}", f"wire.flat {enc}", f"wire.flat {wu.encode(after)}"])
        if r["_status"] != "ok":
            res.exact_break(cmd.split(" ")[0], input=inp, impl=wu.encode(after), model=r["_raw"][:300])
            continue
        got = wu.decode(r)
        if got != after:
            res.exact_break(cmd.split(" ")[0], input=inp, impl=wu.encode(after), model=r["_raw"][:900])
            continue
        if rf0.get("flat") != rf1.get("flat"):
            res.exact_break("wire.flat:" + name, input=inp, impl=rf1["_raw"][:300], model=rf0["_raw"][:300])
            continue
        res.sample(f"{cmd} {enc} -> {r['_raw']}"[:590])


# ------------------------------------------------------------------------------------------------------------ part A'
class Reordered:
    """duck-typed view of a circuit whose `sequence()` follows a given order of all DAG nodes (everything else is delegated)"""

    def __init__(self, circ, order):
        self._c = circ
        self._order = list(order)

    def __getattr__(self, name):
        return getattr(self._c, name)

    def sequence(self, unwrapped=False, *args, **kwargs):
        # extra arguments of a refactored caller are accepted (they cannot change the order this view stands for)
        op_list = [self._c.dag.nodes[n]["op"] for n in self._order]
        if not unwrapped:
            return op_list
        return functools.reduce(lambda x, y: x + y.unwrap(), op_list, [])


def random_linear_extension(rng, dag):
    """random Kahn order of a (multi)digraph; nodes are visited in a reproducible base order"""
    indeg = {n: 0 for n in dag.nodes}
    for u, v in dag.edges():
        indeg[v] += 1
    ready = [n for n in dag.nodes if indeg[n] == 0]
    out = []
    while ready:
        n = ready.pop(rng.randrange(len(ready)))
        out.append(n)
        for _, v in dag.out_edges(n):
            indeg[v] -= 1
            if indeg[v] == 0:
                ready.append(v)
    return out


def check_orders(ctx, res, drv, circ, tag, n_orders=2, with_dm=False):
    snap = wu.snapshot(circ)
    if len(snap["nodes"]) < 2:
        return
    enc = wu.encode(snap)
    default = [n for n in nx.topological_sort(circ.dag)]
    default_ops = [n for n in default if not isinstance(n, str)]
    m = n_measuring(circ)
    for _ in range(n_orders):
        order = random_linear_extension(ctx.rng, circ.dag)
        op_order = [n for n in order if not isinstance(n, str)]
        inp = {"circuit": enc, "order": ",".join(map(str, op_order)), "gen": tag}
        res.evaluations += 1
        res.branch(["order:same" if op_order == default_ops else "order:different"])
        if op_order != default_ops:
            res.nontrivial(wu.shape(snap), "order", tuple(op_order))
        # the model accepts the order as a linear extension (and re-adding along it keeps flat)
        r, rf0 = drv.batch([f"wire.assign seq={','.join(map(str, op_order))} {enc}", f"wire.flat {enc}"])
        if r["_status"] != "ok":
            res.exact_break("isLinearExtension", input=inp, impl="a Kahn order of circ.dag", model=r["_raw"][:300])
            continue
        view = Reordered(circ, order)
        scripts = [({}, 0), ({}, 1)]
        if m:
            got0, _ = run_sem(circ, {}, 0, "stab")
            keys = sorted(got0)
            for _k in range(2):
                scripts.append(({k: ctx.rng.randrange(2) for k in keys}, 0))
        for want, dflt in scripts:
            try:
                got, st = run_sem(circ, want, dflt, "stab")
                got2, st2 = run_sem(view, got, dflt, "stab")
            except Exception as e:  # noqa: BLE001
                res.violation("order:raised", "compile along any topological order returns the state", input=inp,
                              impl=f"{type(e).__name__}: {e}"[:300])
                break
            if got2 != got:
                res.violation("order:outcomes-changed", "the same outcomes are possible along every topological order", input=inp,
                              impl=f"forcing {sorted(got.items())} gives {sorted(got2.items())}")
                break
            if st != st2:
                res.violation("order:state-changed", "the compiled state does not depend on the topological order", input=inp,
                              impl=f"different final state for outcomes {sorted(got.items())}")
                break
            if with_dm:
                # the density-matrix backend (not covered by the Lean theorem) along the same two orders
                try:
                    gd, sd = run_sem(circ, got, dflt, "dm")
                    gd2, sd2 = run_sem(view, got, dflt, "dm")
                except Exception as e:  # noqa: BLE001
                    res.violation("order:dm:raised", "compile along any topological order returns the state", input=inp,
                                  impl=f"{type(e).__name__}: {e}"[:300])
                    break
                res.branch(["order:dm"])
                if gd2 != gd or not np.allclose(np.array(sd), np.array(sd2), atol=1e-7):
                    res.violation("order:dm:state-changed", "the compiled state does not depend on the topological order (density-matrix backend)",
                                  input=inp, impl=f"outcomes {sorted(gd.items())} vs {sorted(gd2.items())}")
                    break


# ------------------------------------------------------------------------------------------------------------ part A''
LEAN_PRELUDE = """import Driver.CmdWire
import GraphiqModel.Proofs.CommuteRefine
open Graphiq Graphiq.Proto

def showQ (q : QReg) : String := (match q.ty with | .e => "e" | .p => "p") ++ toString q.idx

def showCOp : COp → String
  | .gate1 .I q => s!"I:{showQ q}" | .gate1 .H q => s!"H:{showQ q}" | .gate1 .P q => s!"P:{showQ q}"
  | .gate1 .X q => s!"X:{showQ q}" | .gate1 .Y q => s!"Y:{showQ q}" | .gate1 .Z q => s!"Z:{showQ q}"
  | .pdag q => s!"PD:{showQ q}"
  | .cnot c t => s!"CX:{showQ c}:{showQ t}" | .cz c t => s!"CZ:{showQ c}:{showQ t}"
  | .ccx c t r => s!"CCX:{showQ c}:{showQ t}:c{r}" | .ccz c t r => s!"CCZ:{showQ c}:{showQ t}:c{r}"
  | .mcr c t r => s!"MCR:{showQ c}:{showQ t}:c{r}" | .measz q r => s!"MZ:{showQ q}:c{r}"
  | .wrap _ q => s!"W:{showQ q}"

def seqLine (enc seq : String) : String :=
  match CmdWire.circuitOf (parseLine ("x " ++ enc)).2 with
  | none => "err parse"
  | some c =>
    let l := c.sops (natsOf ',' seq)
    let ok := l.all fun a => (Commute.decode c.ne c.np a).isSome && decide a.regs.Nodup
    s!"ok dec={b01 ok} lin={b01 (c.isLinearExtension (natsOf ',' seq))} ops=" ++
      (if l.isEmpty then "-" else String.intercalate "," ((l.map Commute.toCOp).map showCOp))

"""

PY_TOK1 = {"Hadamard": "H", "Phase": "P", "PhaseDagger": "PD", "SigmaX": "X", "SigmaY": "Y", "SigmaZ": "Z"}


def py_cops(seq_ops):
    """the real `sequence(unwrapped=True)` as `circ.stab` tokens: identities and I/O nodes dropped (both compilers skip them)"""
    out = []
    for op in seq_ops:
        name = type(op).__name__
        if name in ("Input", "Output", "Identity"):
            continue
        if name in PY_TOK1:
            out.append(f"{PY_TOK1[name]}:{op.reg_type}{op.register}")
        elif name == "CNOT":
            out.append(f"CX:{op.control_type}{op.control}:{op.target_type}{op.target}")
        elif name == "CZ":
            out.append(f"CZ:{op.control_type}{op.control}:{op.target_type}{op.target}")
        elif name in ("ClassicalCNOT", "ClassicalCZ", "MeasurementCNOTandReset"):
            tok = {"ClassicalCNOT": "CCX", "ClassicalCZ": "CCZ", "MeasurementCNOTandReset": "MCR"}[name]
            out.append(f"{tok}:{op.control_type}{op.control}:{op.target_type}{op.target}:c{op.c_register}")
        elif name == "MeasurementZ":
            out.append(f"MZ:{op.reg_type}{op.register}:c{op.c_register}")
        else:
            raise wu.OutOfModel(name)
    return ",".join(out) or "-"


def lean_eval(lines):
    """evaluate `seqLine enc seq` for every (enc, seq) with the Lean definitions themselves; -> list of reply strings"""
    path = os.path.join(common.VERIF, "scratch", f"c13_seq_{os.getpid()}.lean")
    os.makedirs(os.path.dirname(path), exist_ok=True)

    def q(x):
        return '"' + x.replace("\\", "\\\\").replace('"', '\\"') + '"'

    with open(path, "w") as f:
        f.write(LEAN_PRELUDE)
        for enc, seq in lines:
            f.write(f"#eval IO.println (seqLine {q(enc)} {q(seq)})\n")
    try:
        p = subprocess.run(["lake", "env", "lean", path], cwd=common.LEAN_DIR, capture_output=True, text=True, timeout=600)
    finally:
        try:
            os.remove(path)
        except OSError:
            pass
    out = [ln for ln in p.stdout.splitlines() if ln.startswith("ok ") or ln.startswith("err ")]
    if p.returncode != 0 or len(out) != len(lines):
        raise RuntimeError("lean script for (c.sops seq).map toCOp failed: " + (p.stdout + p.stderr)[-600:])
    return out


def check_model_compile(ctx, res, drv, cases):
    """cases: list of (circuit, full node order or None, tag)"""
    from graphiq.backends.stabilizer.compiler import StabilizerCompiler

    todo = []
    for circ, order, tag in cases:
        snap = wu.snapshot(circ)
        if order is None:
            order = list(nx.topological_sort(circ.dag))
        op_order = [n for n in order if not isinstance(n, str)]
        view = Reordered(circ, order)
        try:
            want_ops = py_cops(view.sequence(unwrapped=True))
        except wu.OutOfModel:
            continue
        todo.append((circ, view, wu.encode(snap), ",".join(map(str, op_order)) or "-", want_ops, tag))
    if not todo:
        return
    replies = lean_eval([(t[2], t[3]) for t in todo])
    lines, items = [], []
    for (circ, view, enc, seq, want_ops, tag), raw in zip(todo, replies):
        rep = common.parse_reply(raw)
        inp = {"circuit": enc, "order": seq, "gen": tag, "cops": 1}
        res.evaluations += 1
        res.branch(["cops:" + ("empty" if want_ops == "-" else "nonempty")])
        if rep["_status"] != "ok" or rep.get("lin") != "1":
            res.exact_break("isLinearExtension", input=inp, impl="order of the real sequence()", model=raw[:300])
            continue
        if rep.get("ops") != want_ops:
            res.exact_break("sops.map toCOp", input=inp, impl=want_ops[:600], model=rep.get("ops", "")[:600])
            continue
        if rep.get("dec") != "1":
            res.exact_break("decode (hypothesis of compile_loop_refines_stabilizer_semantics)", input=inp, impl="a circuit built from valid operations",
                            model=raw[:300])
            continue
        if want_ops != "-":
            res.nontrivial("cops", want_ops)
        for det in (0, 1):
            comp = scripted("stab")({}, det)
            try:
                with warnings.catch_warnings():
                    warnings.simplefilter("ignore")
                    st = comp.compile(view)
            except Exception as e:  # noqa: BLE001
                res.violation("compile:raised", "compile returns the state", input=inp, impl=f"{type(e).__name__}: {e}"[:300])
                break
            lines.append(f"circ.stab ne={circ.n_emitters} np={circ.n_photons} nc={circ.n_classical} det={det} script=- ops={rep['ops']}")
            items.append((inp, det, tu.stab_canon(st.rep_data.data), list(comp.got_list)))
    for r, (inp, det, canon, outs) in zip(drv.batch(lines), items):
        if r["_status"] != "ok":
            res.exact_break("circ.stab:error", input=dict(inp, det=det), model=r["_raw"][:200])
            continue
        m_outs = [int(ch) for ch in r["outs"]] if r.get("outs", "-") != "-" else []
        if tu.canon_from_reply(r) != canon or m_outs != outs:
            res.violation("compile:stab:differs-from-model-on-sops", "the stabilizer backend computes the state / outcomes of the verified model run on the "
                          "compile sequence", input=dict(inp, det=det), impl=f"outs={outs}", model=r["_raw"][:900])
        else:
            res.traces_validated += 1


# ------------------------------------------------------------------------------------------------------------ part B
def noise_desc(x):
    if isinstance(x, (list, tuple)):
        return tuple(noise_desc(y) for y in x)
    pars = getattr(x, "noise_parameters", None)
    return (type(x).__name__, repr(sorted(pars.items(), key=str)) if isinstance(pars, dict) else repr(pars))


def fp_circuit(circ, small):
    """fingerprint of everything that is behaviour of a circuit object"""
    snap = wu.snapshot(circ)
    noise = tuple((n, noise_desc(circ.dag.nodes[n]["op"].noise)) for n in sorted(snap["nodes"]))
    labels = tuple((n, tuple(circ.dag.nodes[n]["op"].labels)) for n in sorted(snap["nodes"]))
    nd = tuple(sorted((k, tuple(sorted(map(str, v)))) for k, v in circ.node_dict.items()))
    ed = tuple(sorted((k, tuple(sorted(map(str, v)))) for k, v in circ.edge_dict.items()))
    sems = []
    for default in (0, 1):
        got, st = run_sem(circ, {}, default, "stab")
        sems.append((tuple(sorted(got.items())), st))
    if small:
        got, st = run_sem(circ, {}, 1, "dm")
        sems.append((tuple(sorted(got.items())), st))
    return {"qasm": circ.to_openqasm(), "wires": wu.freeze(snap), "noise": noise, "labels": labels, "node_dict": nd, "edge_dict": ed,
            "state": tuple(sems), "regs": (circ.n_emitters, circ.n_photons, circ.n_classical)}


def fp_target(t):
    c = t.copy()
    rep = c.rep_type
    if rep != "s":
        c.convert_representation("s")
    data = c.rep_data.data
    if hasattr(data, "to_stabilizer") and not hasattr(data, "destabilizer"):
        canon = tu.span_canon(np.asarray(data.x_matrix), np.asarray(data.z_matrix), np.asarray(data.phase))
    else:
        canon = tu.stab_canon(data)
    return {"rep": rep, "state": canon, "n": t.n_qubits}


def diff_fp(a, b, ignore=()):
    return [k for k in a if k not in ignore and a[k] != b[k]]


def make_noise_map(rng):
    """mostly non-branching noise (PauliError); depolarizing only on rare gates so that stabilizer mixtures stay small"""
    import graphiq.noise.noise_models as nm

    m = {"e": {}, "p": {}, "ee": {}, "ep": {}, "pe": {}, "pp": {}}
    if rng.random() < 0.8:
        m["e"]["Hadamard"] = nm.PauliError("X")
    if rng.random() < 0.6:
        m["p"]["Phase"] = nm.PauliError("Z")
    if rng.random() < 0.6:
        m["e"]["SigmaX"] = nm.DepolarizingNoise(0.02)
    if rng.random() < 0.6:
        m["ee"]["CNOT"] = nm.PauliError("Y")
    if rng.random() < 0.7:
        # different placements for control and target: exercises the temporary noise swap inside compile()
        before = nm.PauliError("Z")
        before.noise_parameters["After gate"] = False
        m["ep"]["CNOT"] = [nm.PauliError("X"), before] if rng.random() < 0.5 else [before, nm.PauliError("X")]
    if rng.random() < 0.3:
        m["ep"]["MeasurementCNOTandReset"] = nm.DepolarizingNoise(0.01)
    return m


def branching_gates(circ, m):
    """number of operations of `circ` that would receive a branching (depolarizing) noise from map `m`"""
    k = 0
    for n in circ.dag.nodes:
        op = circ.dag.nodes[n]["op"]
        name = type(op).__name__
        types = "".join(getattr(op, "q_registers_type", ()))
        names = [g.__name__ for g in op.operations] if name == "OneQubitGateWrapper" else [name]
        for nm_ in names:
            v = m.get(types, {}).get(nm_)
            for x in (v if isinstance(v, list) else [v]):
                if type(x).__name__ == "DepolarizingNoise":
                    k += 1
    return k


def fp_noise_map(m):
    return {"map": tuple(sorted((k, tuple(sorted((g, noise_desc(v)) for g, v in d.items()))) for k, d in m.items()))}


# (call, exception class, substring of the message) of raises that are justified on the unchanged repository: documented not-implemented
# paths.  Every other exception of a library call inside an interleaving is reported (it used to be counted in `errors` only).
ALLOWED_RAISES = [
    # DensityMatrixCompiler._apply_additional_noise: additive noise on MeasurementCNOTandReset / classically controlled gates is not implemented
    (("compile", "compile_noisy"), ValueError, "Noise model not implemented for operation type"),
]


def has_noise(circ):
    """does some operation of the circuit carry a noise model other than NoNoise?"""
    import graphiq.noise.noise_models as nm

    def noisy(x):
        if isinstance(x, (list, tuple)):
            return any(noisy(y) for y in x)
        return x is not None and not isinstance(x, nm.NoNoise)

    return any(noisy(getattr(circ.dag.nodes[n]["op"], "noise", None)) for n in circ.dag.nodes)


def alias_world(ctx, res, tag_seed):
    """one random interleaving of library calls on shared objects"""
    from graphiq.backends.density_matrix.compiler import DensityMatrixCompiler
    from graphiq.backends.stabilizer.compiler import StabilizerCompiler
    from graphiq.noise.monte_carlo_noise import McNoiseMap, MonteCarloNoise
    from graphiq.solvers.time_reversed_solver import TimeReversedSolver
    from graphiq.state import QuantumState
    import graphiq.metrics as gm
    import graphiq.noise.noise_models as nm

    rng = ctx.rng
    # live objects
    if rng.random() < 0.5:
        circ = solver_circuit(rng)
        kind = "solver"
    else:
        circ = gen_circuit(rng, allow_mz=False, max_ops=10, max_meas=3)
        kind = "random"
    small = circ.n_quantum <= 4
    ng = rng.randint(2, 4)
    from harness.c04 import random_connected_graph

    g = random_connected_graph(rng, ng)
    target = QuantumState(g, rep_type="g")
    if rng.random() < 0.5:
        target.convert_representation("s")
    # a target matching the circuit's photons for the state metrics
    own_state = None
    if circ.n_photons > 0:
        c0 = StabilizerCompiler()
        c0.measurement_determinism = 1
        own_state = c0.compile(circ)
        own_state.partial_trace(keep=list(range(circ.n_photons)), dims=(circ.n_quantum) * [2])
    nmap = make_noise_map(rng)
    live = {"circuit": circ, "target": target, "noise_map": nmap}
    derived = []  # circuits derived from `circ` that later calls also use

    def fps():
        out = {"circuit": fp_circuit(circ, small), "target": fp_target(target), "noise_map": fp_noise_map(nmap)}
        for k, d in enumerate(derived):
            out[f"derived{k}"] = fp_circuit(d, small)
        return out

    base = fps()
    compilers = {"stab": StabilizerCompiler(), "dm": DensityMatrixCompiler()}
    history = []
    n_calls = rng.randint(6, 14 if ctx.quick else 30)
    for step in range(n_calls):
        subject = circ if (not derived or rng.random() < 0.7) else rng.choice(derived)
        subj_small = subject.n_quantum <= 4
        call = rng.choice(["compile", "compile", "metric", "metric", "trs", "assign_noise", "mc", "copy+rewrite", "compare",
                           "qasm+depth", "compile_noisy", "double_compile"])
        if call in ("compile", "double_compile", "compile_noisy") and not subj_small and rng.random() < 0.5:
            backend = "stab"
        else:
            backend = rng.choice(["stab", "dm"]) if subj_small else "stab"
        if call == "mc" and has_noise(subject):
            # MonteCarloNoise takes the noise-free circuit (its `ideal_state` is the compiled input; the only caller in the library,
            # AlternateTargetSolver, passes the solver's circuit; the noise of every sample is drawn from the McNoiseMap and *replaces*
            # op.noise): a circuit that already carries additive noise is outside its domain (with `_monte_carlo` the compiler holds a pure
            # state, DepolarizingNoise.apply cannot store its mixture: TypeError).  Not generated; counted.
            res.count("errors", "mc:noisy-subject-outside-domain(replaced by the noise-free original)")
            subject = circ
        history.append(call)
        detail = ""
        calls = res.extra.setdefault("alias_calls", {})
        calls.setdefault(call, [0, 0])[0] += 1
        try:
            with warnings.catch_warnings():
                warnings.simplefilter("ignore")
                if call == "compile":
                    comp = compilers[backend]
                    comp.measurement_determinism = rng.choice([0, 1, "probabilistic"])
                    comp.noise_simulation = rng.random() < 0.3
                    comp.compile(subject)
                elif call == "double_compile":
                    comp = compilers[backend]
                    comp.measurement_determinism = rng.choice([0, 1])
                    comp.noise_simulation = False
                    s1 = comp.compile(subject)
                    s2 = comp.compile(subject)
                    if backend == "stab":
                        same = tu.stab_canon(s1.rep_data.data) == tu.stab_canon(s2.rep_data.data)
                    else:
                        same = bool(np.allclose(s1.rep_data.data, s2.rep_data.data, atol=1e-9))
                    if not same:
                        res.violation("alias:compile:repeat-differs", "repeating a deterministic compile returns the same state",
                                      input={"circuit": wu.encode(wu.snapshot(subject)), "backend": backend, "history": history}, impl="two compiles differ")
                        return
                elif call == "metric":
                    comp = compilers["stab"]
                    comp.measurement_determinism = 1
                    comp.noise_simulation = False
                    st = comp.compile(subject)
                    ms = [gm.CircuitDepth(), gm.CircuitCnotCount(), gm.CircuitUnitaryCount(), gm.CircuitMaxEmitDepth(),
                          gm.CircuitMaxEmitResetDepth(), gm.CircuitMaxEmitEffDepth(), gm.CircuitMeasureCount(), gm.CircuitEmitterCount()]
                    if subject.n_photons > 0 and own_state is not None and subject is circ:
                        ms += [gm.Infidelity(own_state)]
                        if circ.n_photons <= 3:
                            dm_t = own_state.copy()
                            dm_t.convert_representation("dm")
                            ms += [gm.TraceDistance(dm_t)]
                    m = rng.choice(ms)
                    detail = type(m).__name__
                    if isinstance(m, (gm.Infidelity, gm.TraceDistance)):
                        st.partial_trace(keep=list(range(subject.n_photons)), dims=(subject.n_quantum) * [2])
                    m.evaluate(st, subject)
                elif call == "trs":
                    comp = compilers["stab"]
                    comp.measurement_determinism = 1
                    metric = gm.Infidelity(target)
                    s = TimeReversedSolver(target=target, metric=metric, compiler=comp,
                                           noise_model_mapping=nmap if (rng.random() < 0.3 and ng <= 3) else None)
                    s.solve()
                elif call == "assign_noise":
                    noisy = subject.assign_noise(nmap if rng.random() < 0.7 else EMPTY_MAP)
                    if len(derived) < 3:
                        derived.append(noisy)
                elif call == "compile_noisy":
                    noisy = subject.assign_noise(nmap)
                    if branching_gates(subject, nmap) > 3:
                        backend = "dm" if subj_small else None
                    if backend is None:
                        res.count("errors", "compile_noisy:skipped(more than 3 branching gates on more than 4 qubits)")
                        continue
                    comp = compilers[backend]
                    comp.measurement_determinism = 1
                    comp.noise_simulation = True
                    # the compiled circuit itself is an input too ("compiling never changes the circuit passed in"): the noisy circuit is a
                    # fresh object that no fingerprint of the world covers, so its noise assignment is compared around the compile here
                    # (this is what the dropped `mc`-on-a-noisy-circuit calls used to reach by accident: seeded C13-m1)
                    noise_before = tuple((n, noise_desc(noisy.dag.nodes[n]["op"].noise)) for n in sorted(noisy.dag.nodes, key=str) if not isinstance(n, str))
                    try:
                        comp.compile(noisy)
                    finally:
                        comp.noise_simulation = False
                        noise_after = tuple((n, noise_desc(noisy.dag.nodes[n]["op"].noise)) for n in sorted(noisy.dag.nodes, key=str) if not isinstance(n, str))
                        if noise_after != noise_before:
                            res.violation("alias:compile_noisy:compiled-circuit-changed:noise",
                                          "a library call never changes the behaviour of the circuit, target or noise-free original passed in",
                                          input={"kind": kind, "circuit": wu.encode(wu.snapshot(circ)), "history": list(history), "call": call, "backend": backend,
                                                 "seed": tag_seed},
                                          impl=str([x for x, y in zip(noise_after, noise_before) if x != y])[:300],
                                          model=str([y for x, y in zip(noise_after, noise_before) if x != y])[:300])
                            return
                elif call == "mc":
                    mcm = McNoiseMap()
                    mcm.add_gate_noise("e", "Hadamard", [(nm.PauliError("X"), 0.3), (nm.NoNoise(), 0.7)])
                    mcm.add_gate_noise("ep", "CNOT", [(nm.PauliError("Z"), 0.2), (nm.NoNoise(), 0.8)])
                    mcm.mapping.setdefault("pe", {})
                    mcm.mapping.setdefault("pp", {})
                    mc = MonteCarloNoise(subject, n_sample=2, mc_noise_model=mcm, compiler=StabilizerCompiler(), seed=rng.randrange(1000))
                    if rng.random() < 0.5:
                        mc.n_noisy_gates = 0
                        mc.assign_noise()
                    else:
                        mc.run()
                elif call == "copy+rewrite":
                    cp = subject.copy()
                    rw = rng.choice(["unwrap_nodes", "remove_identity", "group_one_qubit_gates"])
                    detail = rw
                    getattr(cp, rw)()
                elif call == "compare":
                    other = subject.copy() if rng.random() < 0.5 else rng.choice(derived + [circ])
                    subject.compare(other)
                elif call == "qasm+depth":
                    subject.to_openqasm()
                    subject.depth
                    subject.register_depth
                    subject.sequence(unwrapped=True)
                    subject.validate()
        except Exception as e:  # noqa: BLE001
            # an exception is not what this property is about; the inputs must still be intact — but it is not silent either: unless it
            # is a documented not-implemented path (ALLOWED_RAISES) the library raised on an input of its domain
            res.count("errors", f"{call}:{type(e).__name__}")
            detail += f" raised {type(e).__name__}"
            calls[call][1] += 1
            if not any(call in cs and isinstance(e, cls) and sub in str(e) for cs, cls, sub in ALLOWED_RAISES):
                res.exact_break(f"alias:{call}:raises:{err_class(e)}",
                                input={"kind": kind, "circuit": wu.encode(wu.snapshot(circ)), "history": list(history), "call": call, "seed": tag_seed},
                                impl=f"{type(e).__name__}: {e}"[:300] + f" [at {common.where_raised(e)}]", model="the library call returns (no documented error path applies)")
        res.evaluations += 1
        res.branch([f"alias:{call}"])
        now = fps()
        for name, fp in base.items():
            changed = diff_fp(fp, now[name], ignore=("rep",))
            if changed:
                res.violation(f"alias:{call}:{name}-changed:{'+'.join(changed)}",
                              "a library call never changes the behaviour of the circuit, target or noise-free original passed in",
                              input={"kind": kind, "circuit": wu.encode(wu.snapshot(circ)), "history": list(history), "call": call, "detail": detail,
                                     "seed": tag_seed},
                              impl={k: str(now[name][k])[:300] for k in changed}, model={k: str(fp[k])[:300] for k in changed})
                return
        for name in now:
            if name not in base:
                base[name] = now[name]
        if base["target"]["rep"] != now["target"]["rep"]:
            res.count("errors", f"target-representation-converted-by:{call}")
            base["target"] = now["target"]
    res.nontrivial("alias", tuple(history), wu.shape(wu.snapshot(circ)))
    res.traces_validated += 1


# ------------------------------------------------------------------------------------------------------------ entry
def run(ctx):
    res = Result()
    res.rule = ("one evaluation = one rewrite applied to one circuit, one compile along a random linear extension, or one library "
                "call inside an interleaving; non-trivial rewrites: the circuit contains at least one operation; non-trivial orders: "
                "the order differs from the default one; distinct by (circuit shape, rewrite) resp. (circuit shape, order) resp. "
                "(call history, circuit shape)")
    drv = Driver()
    t0 = time.time()
    try:
        n_a = 220 if ctx.quick else 1500
        budget_a = 70 if ctx.quick else 600
        cop_cases = []
        n_cop = 40 if ctx.quick else 300
        # every case runs under common.impl_guard (+ wu.OutOfModel = the implementation produced an operation outside the wire model): the
        # generators (add / insert_at / find_incompatible_edges, TimeReversedSolver), snapshot(), to_openqasm(), compile of the fingerprints
        # call graphiq outside the `try` blocks; an exception there is reported (exit 1) instead of ending run() as exit 2
        done_a = 0
        for k in range(n_a):
            with impl_guard(res, "rewrites", promise=True, input={"case": k}, also=(wu.OutOfModel,)):
                mz = ctx.rng.random() < 0.12
                tag = "random+MZ" if mz else "random"
                if not mz and ctx.rng.random() < 0.15:
                    circ = solver_circuit(ctx.rng)
                    tag = "solver"
                else:
                    circ = gen_circuit(ctx.rng, allow_mz=mz)
                res.count("sizes", f"ops<={5 * ((len(wu.snapshot(circ)['nodes']) + 4) // 5)}")
                check_rewrites(ctx, res, drv, circ, tag, with_dm=circ.n_quantum <= 4 and ctx.rng.random() < 0.4)
                if ctx.rng.random() < 0.5:
                    check_orders(ctx, res, drv, circ, tag, with_dm=circ.n_quantum <= 4 and ctx.rng.random() < 0.5)
                if len(cop_cases) < n_cop and len(wu.snapshot(circ)["nodes"]) >= 1:
                    cop_cases.append((circ, None, tag))
                    cop_cases.append((circ, random_linear_extension(ctx.rng, circ.dag), tag + "+order"))
                done_a += 1
            if time.time() - t0 > budget_a or len(res.violations) > 20:
                break
        # the loop above stops on a wall-clock budget: how far it got is evidence (a much slower implementation executes fewer cases)
        res.extra.setdefault("stream_coverage", {})["rewrites (time budget %ds)" % budget_a] = f"{done_a}/{n_a}"
        with impl_guard(res, "model-compile", promise=True, also=(wu.OutOfModel,)):
            check_model_compile(ctx, res, drv, cop_cases)
        # exhaustive: all circuits of two operations over a small alphabet on (1 emitter, 1 photon)
        with impl_guard(res, "rewrites:exhaustive", promise=True, also=(wu.OutOfModel,)):
            exhaustive_small(ctx, res, drv)
        n_b = 60 if ctx.quick else 300
        budget_b = 75 if ctx.quick else 700
        t1 = time.time()
        tried_b = out_of_model = 0
        for k in range(n_b):
            seed = ctx.rng.getrandbits(30)
            tried_b += 1
            try:
                with impl_guard(res, "alias", input={"seed": seed}):
                    alias_world(ctx, res, seed)
            except wu.OutOfModel:
                # a generated world left the wire model (parameterised gate / foreign label): skipped — counted, and most worlds must not be
                out_of_model += 1
                res.count("errors", "alias:world-outside-wire-model")
                continue
            if time.time() - t1 > budget_b or len(res.violations) > 20:
                break
        res.extra["stream_coverage"]["alias worlds (time budget %ds)" % budget_b] = f"{tried_b}/{n_b}"
        coverage_floor(res, "alias worlds inside the wire model", tried_b - out_of_model, tried_b, what="interleavings")
        for call, (tried, raised) in sorted(res.extra.get("alias_calls", {}).items()):
            if tried >= 6 and raised > 0.5 * tried:
                res.exact_break(f"coverage collapsed: alias:{call}", input={"call": call}, impl=f"{raised} of {tried} calls raised (only their inputs' integrity was checked)",
                                model="most library calls of an interleaving return")
    finally:
        res.extra["driver_lines"] = drv.n_lines
        drv.close()
    return res


def exhaustive_small(ctx, res, drv):
    """every circuit of up to `depth` operations over a small alphabet on one emitter and one photon"""
    import graphiq.circuit.ops as ops
    from graphiq.circuit.circuit_dag import CircuitDAG

    alphabet = [
        lambda: ops.Hadamard(register=0, reg_type="e"),
        lambda: ops.Identity(register=0, reg_type="e"),
        lambda: ops.Phase(register=0, reg_type="p"),
        lambda: ops.OneQubitGateWrapper([ops.Hadamard, ops.Phase], register=0, reg_type="e"),
        lambda: ops.OneQubitGateWrapper([ops.Identity, ops.SigmaX], register=0, reg_type="p"),
        lambda: ops.CNOT(control=0, control_type="e", target=0, target_type="p"),
        lambda: ops.MeasurementCNOTandReset(control=0, control_type="e", target=0, target_type="p", c_register=0),
    ]
    depth = 2 if ctx.quick else 3
    n = 0
    for d in range(1, depth + 1):
        for combo in itertools.product(range(len(alphabet)), repeat=d):
            circ = CircuitDAG(n_emitter=1, n_photon=1, n_classical=1)
            for k in combo:
                circ.add(alphabet[k]())
            check_rewrites(ctx, res, drv, circ, f"exhaustive:{combo}", with_dm=(d <= 2))
            n += 1
    res.exhaustive = True
    res.notes.append(f"exhaustive: all {n} circuits of <= {depth} operations over a 7-letter alphabet on (e0, p0, c0), every rewrite")


def search(ctx, res, proof_broken):
    drv = Driver()
    try:
        for k in range(300):
            circ = gen_circuit(ctx.rng, allow_mz=False)
            check_rewrites(ctx, res, drv, circ, "search", with_dm=False)
            if res.violations:
                return
    finally:
        drv.close()


def replay(ctx, data):
    v = data.get("violation") or {}
    inp = v.get("input") or {}
    res = Result()
    if "rewrite" in inp:
        toks = dict(t.split("=", 1) for t in inp["circuit"].split(" "))
        circ = wu.build(wu.decode(toks))
        drv = Driver()
        try:
            REW = [inp["rewrite"]]
            global REWRITES
            old = REWRITES
            REWRITES = REW
            try:
                check_rewrites(ctx, res, drv, circ, "replay", with_dm=circ.n_quantum <= 4)
            finally:
                REWRITES = old
        finally:
            drv.close()
        for vv in res.violations:
            print("replay:", vv["key"], vv.get("impl"))
        return not res.violations
    if inp.get("cops"):
        toks = dict(t.split("=", 1) for t in inp["circuit"].split(" "))
        circ = wu.build(wu.decode(toks))
        drv = Driver()
        try:
            cases = [(circ, None, "replay")] + [(circ, random_linear_extension(ctx.rng, circ.dag), "replay") for _ in range(8)]
            check_model_compile(ctx, res, drv, cases)
        finally:
            drv.close()
        for vv in res.violations:
            print("replay:", vv["key"], vv.get("impl"))
        for bb in res.exact_breaks:
            print("replay: correspondence", bb.get("correspondence"))
        return not res.violations
    if "order" in inp and "rewrite" not in inp:
        toks = dict(t.split("=", 1) for t in inp["circuit"].split(" "))
        circ = wu.build(wu.decode(toks))
        drv = Driver()
        try:
            for _ in range(40):
                check_orders(ctx, res, drv, circ, "replay", n_orders=4)
                if res.violations:
                    break
        finally:
            drv.close()
        for vv in res.violations:
            print("replay:", vv["key"], vv.get("impl"))
        return not res.violations
    if "history" in inp:
        import random

        ctx.rng = random.Random(f"replay:{inp.get('seed')}")
        for _ in range(20):
            alias_world(ctx, res, inp.get("seed"))
            if res.violations:
                print("replay:", res.violations[0]["key"])
                return False
        return True
    return None
