"""
tabutil.py — helpers around CliffordTableau / StabilizerTableau for the correspondence harness:
protocol encoding, random generation, an independent dense reference simulator (numpy, n <= 6) and an
independent GF(2) canonicaliser of signed stabilizer groups (used for the relation R "same state").
"""
import numpy as np

from harness.common import bits, unbits  # noqa: F401

I2 = np.eye(2, dtype=complex)
X = np.array([[0, 1], [1, 0]], dtype=complex)
Z = np.array([[1, 0], [0, -1]], dtype=complex)
Y = 1j * X @ Z
H = np.array([[1, 1], [1, -1]], dtype=complex) / np.sqrt(2)
S = np.array([[1, 0], [0, 1j]], dtype=complex)
PAULI = {(0, 0): I2, (1, 0): X, (0, 1): Z, (1, 1): Y}


# ----------------------------------------------------------------------------------------------- protocol
def tab_args(tab, pfx=""):
    n = tab.n_qubits
    t = np.asarray(tab.table).astype(int)
    return (f"{pfx}n={n} {pfx}x={bits(t[:, :n])} {pfx}z={bits(t[:, n:])} "
            f"{pfx}r={bits(tab.phase)} {pfx}i={bits(tab.iphase)}")


def tab_tuple(tab):
    return (tab.n_qubits, bits(np.asarray(tab.table)[:, : tab.n_qubits]), bits(np.asarray(tab.table)[:, tab.n_qubits:]),
            bits(tab.phase), bits(tab.iphase))


def reply_tuple(rep):
    return (int(rep["n"]), rep["x"], rep["z"], rep["r"], rep["i"])


def is_binary(tab):
    ok = True
    for a in (tab.table, tab.phase, tab.iphase):
        a = np.asarray(a)
        ok = ok and bool(np.all((a == 0) | (a == 1)))
    n = tab.n_qubits
    ok = ok and np.asarray(tab.table).shape == (2 * n, 2 * n) and len(tab.phase) == 2 * n and len(tab.iphase) == 2 * n
    return ok


def is_valid(tab):
    """independent check of the symplectic pairing (does not call graphiq)"""
    n = tab.n_qubits
    t = np.asarray(tab.table).astype(int) % 2
    x, z = t[:, :n], t[:, n:]
    m = (x @ z.T + z @ x.T) % 2
    want = np.zeros((2 * n, 2 * n), dtype=int)
    for i in range(n):
        want[i, i + n] = want[i + n, i] = 1
    return bool(np.array_equal(m, want))


# ----------------------------------------------------------------------------------------------- random tableaux
def random_tableau(rng, n, depth=None, signs=True):
    """random Clifford tableau built with graphiq's own gate functions from |0..0> (so it is a reachable state),
    then random destabilizer/stabilizer signs; measurement steps create odd i-phases on destabilizers."""
    from graphiq.backends.stabilizer.clifford_tableau import CliffordTableau
    from graphiq.backends.stabilizer.functions import transformation as tr

    t = CliffordTableau(n)
    depth = depth if depth is not None else 4 * n + 4
    for _ in range(depth):
        k = rng.randrange(4 if n > 1 else 2)
        a = rng.randrange(n)
        if k == 0:
            t = tr.hadamard_gate(t, a)
        elif k == 1:
            t = tr.phase_gate(t, a)
        else:
            b = rng.randrange(n - 1)
            b = b if b < a else b + 1
            t = tr.cnot_gate(t, a, b) if k == 2 else tr.control_z_gate(t, a, b)
    if signs:
        ph = np.array([rng.randrange(2) for _ in range(2 * n)], dtype=int)
        t.phase = ph
    return t


# ----------------------------------------------------------------------------------------------- dense reference
def pauli_matrix(xrow, zrow, r=0, ip=0):
    m = np.array([[1]], dtype=complex)
    for a, b in zip(xrow, zrow):
        m = np.kron(m, PAULI[(int(a), int(b))])
    return m * ((-1) ** int(r)) * (1j ** int(ip))


def dense_rho(tab):
    """density matrix stabilized by the stabilizer half of a CliffordTableau (i-phases of stabilizers must be 0)"""
    n = tab.n_qubits
    t = np.asarray(tab.table).astype(int)
    rho = np.eye(2 ** n, dtype=complex) / 2 ** n
    for k in range(n, 2 * n):
        g = pauli_matrix(t[k, :n], t[k, n:], tab.phase[k], tab.iphase[k])
        rho = rho @ (np.eye(2 ** n) + g)
    return rho


def op_on(n, q, m):
    out = np.array([[1]], dtype=complex)
    for k in range(n):
        out = np.kron(out, m if k == q else I2)
    return out


def cnot_matrix(n, c, t):
    p0 = op_on(n, c, np.diag([1, 0]).astype(complex))
    p1 = op_on(n, c, np.diag([0, 1]).astype(complex))
    return p0 + p1 @ op_on(n, t, X)


def cz_matrix(n, c, t):
    p0 = op_on(n, c, np.diag([1, 0]).astype(complex))
    p1 = op_on(n, c, np.diag([0, 1]).astype(complex))
    return p0 + p1 @ op_on(n, t, Z)


def swap_matrix(n, a, b):
    if a == b:
        return np.eye(2 ** n, dtype=complex)
    return cnot_matrix(n, a, b) @ cnot_matrix(n, b, a) @ cnot_matrix(n, a, b)


def conj(u, rho):
    return u @ rho @ u.conj().T


def project(rho, n, q, outcome):
    p = op_on(n, q, np.diag([1 - outcome, outcome]).astype(complex))
    r = p @ rho @ p
    return r, float(np.real(np.trace(r)))


def trace_out(rho, n, q):
    r = rho.reshape([2] * (2 * n))
    r = np.trace(r, axis1=q, axis2=n + q)
    return r.reshape(2 ** (n - 1), 2 ** (n - 1))


def insert_ket0(rho, n, p):
    """rho on n qubits -> rho' on n+1 qubits with |0><0| at position p"""
    r = rho.reshape([2] * (2 * n))
    k0 = np.array([1, 0], dtype=complex)
    proj = np.outer(k0, k0)
    # build by tensoring at the end then moving axes
    big = np.tensordot(r, proj, axes=0)  # axes: rows(n), cols(n), newrow, newcol
    order_rows = list(range(n))
    order_cols = list(range(n, 2 * n))
    order_rows.insert(p, 2 * n)
    order_cols.insert(p, 2 * n + 1)
    big = np.transpose(big, order_rows + order_cols)
    return big.reshape(2 ** (n + 1), 2 ** (n + 1))


# ----------------------------------------------------------------------------------------------- signed span canonicaliser
def _g(x1, z1, x2, z2):
    if x1 == 0 and z1 == 0:
        return 0
    if x1 == 1 and z1 == 1:
        return z2 - x2
    if x1 == 1 and z1 == 0:
        return z2 * (2 * x2 - 1)
    return x2 * (1 - 2 * z2)


def _mul(a, b):
    """(x,z,phase4) * (x,z,phase4) with Hermitian-Y convention; phase4 = exponent of i"""
    xa, za, pa = a
    xb, zb, pb = b
    g = sum(_g(int(x1), int(z1), int(x2), int(z2)) for x1, z1, x2, z2 in zip(xa, za, xb, zb))
    return (xa ^ xb, za ^ zb, (pa + pb + g) % 4)


def span_canon(x, z, r):
    """canonical generating set (reduced row echelon over columns x0,z0,x1,z1,…) of the signed group generated by the
    rows; returns a hashable tuple, or None if some product of generators has an odd i-phase / is -1 (not a stabilizer group)"""
    x = np.asarray(x).astype(int) % 2
    z = np.asarray(z).astype(int) % 2
    m, n = x.shape
    rows = [(x[i].copy(), z[i].copy(), 2 * int(r[i]) % 4) for i in range(m)]
    piv = 0
    cols = [(j, w) for j in range(n) for w in (0, 1)]
    for j, w in cols:
        sel = None
        for i in range(piv, m):
            if (rows[i][0][j] if w == 0 else rows[i][1][j]) == 1:
                sel = i
                break
        if sel is None:
            continue
        rows[piv], rows[sel] = rows[sel], rows[piv]
        for i in range(m):
            if i != piv and (rows[i][0][j] if w == 0 else rows[i][1][j]) == 1:
                rows[i] = _mul(rows[piv], rows[i])
        piv += 1
    out = []
    for xr, zr, p in rows:
        if p % 2 == 1:
            return None
        if not xr.any() and not zr.any():
            if p != 0:
                return None
            continue
        out.append((tuple(xr.tolist()), tuple(zr.tolist()), p // 2))
    return tuple(out)


def stab_canon(tab):
    n = tab.n_qubits
    t = np.asarray(tab.table).astype(int)
    return span_canon(t[n:, :n], t[n:, n:], np.asarray(tab.phase)[n:])


def canon_from_reply(rep):
    n = int(rep["n"])
    x = unbits(rep["x"], (2 * n, n))
    z = unbits(rep["z"], (2 * n, n))
    r = unbits(rep["r"], (2 * n,))
    return span_canon(x[n:], z[n:], r[n:])
