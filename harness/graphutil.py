"""
graphutil.py — helpers for the graph / LC-equivalence harnesses (C09, C16): protocol encoding, graph generators,
an independent numpy implementation of local complementation and of the Van den Nest system (direct oracles),
and access to the driver's LC-orbit oracle (BFS over the verified `localComp`).
"""
import itertools
import signal

import numpy as np

from harness.common import bits, unbits  # noqa: F401


# ----------------------------------------------------------------------------------------------- encoding
def adj_args(A, key="a", with_n=True):
    A = np.asarray(A)
    n = A.shape[0]
    return (f"n={n} " if with_n else "") + f"{key}={bits(A != 0) if n else '-'}"


def adj_from_bits(s, n):
    if n == 0:
        return np.zeros((0, 0), dtype=int)
    return unbits(s, (n, n))


def to_adj(g):
    import networkx as nx

    return nx.to_numpy_array(g).astype(int) if g.number_of_nodes() else np.zeros((0, 0), dtype=int)


def to_graph(A):
    import networkx as nx

    return nx.from_numpy_array(np.asarray(A).astype(int))


def seq_str(seq):
    return ",".join(str(int(v)) for v in seq) if len(seq) else "-"


def lists_str(ll):
    if len(ll) == 0:
        return "-"
    return ";".join(".".join(str(int(v)) for v in l) if len(l) else "e" for l in ll)


# ----------------------------------------------------------------------------------------------- graphs by edge mask
def pair_list(n):
    return list(itertools.combinations(range(n), 2))


def graph_of_mask(n, mask):
    A = np.zeros((n, n), dtype=int)
    for k, (i, j) in enumerate(pair_list(n)):
        if mask >> k & 1:
            A[i, j] = A[j, i] = 1
    return A


def mask_of(A):
    A = np.asarray(A)
    n = A.shape[0]
    m = 0
    for k, (i, j) in enumerate(pair_list(n)):
        if A[i, j]:
            m |= 1 << k
    return m


def n_graphs(n):
    return 1 << (n * (n - 1) // 2)


def is_connected(A):
    n = len(A)
    if n == 0:
        return True
    seen = {0}
    stack = [0]
    while stack:
        u = stack.pop()
        for v in range(n):
            if A[u, v] and v not in seen:
                seen.add(v)
                stack.append(v)
    return len(seen) == n


# ----------------------------------------------------------------------------------------------- independent oracles
def lc_ref(A, v):
    """local complementation by its definition: toggle every pair of distinct neighbours of v"""
    A = np.array(A, dtype=int)
    nb = [i for i in range(len(A)) if A[v, i] and i != v]
    for a, b in itertools.combinations(nb, 2):
        A[a, b] ^= 1
        A[b, a] ^= 1
    return A


def apply_seq_ref(A, seq):
    A = np.array(A, dtype=int)
    for v in seq:
        A = lc_ref(A, int(v))
    return A


def q_solves(A, B, Q):
    """does the block-diagonal Q = [[a,b],[c,d]]_i satisfy S^T Q^T P S' = 0 with S = [A; I], S' = [B; I]?
    (computed from the matrix identity, independently of _coeff_maker) and is every block invertible?"""
    A = np.asarray(A).astype(int)
    B = np.asarray(B).astype(int)
    Q = np.asarray(Q).astype(int)
    n = len(A)
    if Q.shape != (n, 2, 2):
        return False, False
    a, b, c, d = (np.diag(Q[:, 0, 0]), np.diag(Q[:, 0, 1]), np.diag(Q[:, 1, 0]), np.diag(Q[:, 1, 1]))
    I = np.eye(n, dtype=int)
    S = np.vstack([A, I])
    S2 = np.vstack([B, I])
    Qm = np.block([[a, b], [c, d]])
    P = np.block([[np.zeros((n, n), dtype=int), I], [I, np.zeros((n, n), dtype=int)]])
    lin = not ((S.T @ Qm.T @ P @ S2) % 2).any()
    det = all((Q[i, 0, 0] * Q[i, 1, 1] + Q[i, 0, 1] * Q[i, 1, 0]) % 2 == 1 for i in range(n))
    return bool(lin), bool(det)


def is_iso_map(A, B, m):
    """m: dict node->node; is it an isomorphism A -> B (bijection preserving adjacency and non-adjacency)?"""
    n = len(A)
    try:
        img = [m[u] for u in range(n)]
    except Exception:  # noqa: BLE001
        return False
    if sorted(img) != list(range(n)):
        return False
    return all(bool(A[u, v]) == bool(B[img[u], img[v]]) for u in range(n) for v in range(n))


# ----------------------------------------------------------------------------------------------- generators
def random_graph(rng, n, p=None):
    p = rng.choice([0.2, 0.35, 0.5, 0.65, 0.8]) if p is None else p
    A = np.zeros((n, n), dtype=int)
    for i, j in pair_list(n):
        if rng.random() < p:
            A[i, j] = A[j, i] = 1
    return A


def path_graph(n):
    A = np.zeros((n, n), dtype=int)
    for i in range(n - 1):
        A[i, i + 1] = A[i + 1, i] = 1
    return A


def cycle_graph(n):
    A = path_graph(n)
    if n > 2:
        A[0, n - 1] = A[n - 1, 0] = 1
    return A


def star_graph(n, centre=0):
    A = np.zeros((n, n), dtype=int)
    for i in range(n):
        if i != centre:
            A[i, centre] = A[centre, i] = 1
    return A


def complete_graph(n):
    return np.ones((n, n), dtype=int) - np.eye(n, dtype=int)


def repeater_graph(m):
    """complete graph on m core vertices 0..m-1, one leaf m+i attached to core i (graphiq.benchmarks order is checked in c16)"""
    A = np.zeros((2 * m, 2 * m), dtype=int)
    for i, j in itertools.combinations(range(m), 2):
        A[i, j] = A[j, i] = 1
    for i in range(m):
        A[i, m + i] = A[m + i, i] = 1
    return A


def disjoint_union(A, B):
    n, m = len(A), len(B)
    C = np.zeros((n + m, n + m), dtype=int)
    C[:n, :n] = A
    C[n:, n:] = B
    return C


def permute(A, p):
    """independent relabelling: result[p[u], p[v]] = A[u, v]"""
    A = np.asarray(A)
    n = len(A)
    R = np.zeros((n, n), dtype=int)
    for u in range(n):
        for v in range(n):
            R[p[u], p[v]] = A[u, v]
    return R


def random_perm(rng, n):
    p = list(range(n))
    rng.shuffle(p)
    return p


def structured_graph(rng, n):
    """mostly-valid structured inputs: named families, unions (disconnected), relabelled copies"""
    k = rng.randrange(8)
    if k == 0 or n < 3:
        A = random_graph(rng, n)
    elif k == 1:
        A = path_graph(n)
    elif k == 2:
        A = cycle_graph(n)
    elif k == 3:
        A = star_graph(n, rng.randrange(n))
    elif k == 4:
        A = complete_graph(n)
    elif k == 5:
        a = rng.randrange(1, n)
        A = disjoint_union(structured_graph(rng, a), structured_graph(rng, n - a))
    elif k == 6 and n % 2 == 0:
        A = repeater_graph(n // 2)
    else:
        A = random_graph(rng, n)
    if rng.random() < 0.5:
        A = permute(A, random_perm(rng, n))
    return A


def random_lc_walk(rng, A, steps):
    seq = [rng.randrange(len(A)) for _ in range(steps)]
    return apply_seq_ref(A, seq), seq


# ----------------------------------------------------------------------------------------------- orbit oracle (driver)
class OrbitOracle:
    """orbit representative of every graph on n <= 6 vertices, computed once per n by the driver (BFS over the verified
    localComp); other graphs are answered by an explicit `graph.orbit` query"""

    def __init__(self, drv):
        self.drv = drv
        self.reps = {}

    def table(self, n):
        if n not in self.reps:
            rep = self.drv.ask(f"graph.orbits n={n}")
            assert rep["_status"] == "ok", rep
            self.reps[n] = [int(t) for t in rep["reps"].split(",")]
        return self.reps[n]

    def same_orbit(self, A, B):
        n = len(A)
        if n <= 6:
            t = self.table(n)
            return t[mask_of(A)] == t[mask_of(B)]
        rep = self.drv.ask(f"graph.orbit {adj_args(A)}")
        return mask_of(B) in set(int(t) for t in rep["masks"].split(","))

    def orbit_masks(self, A):
        rep = self.drv.ask(f"graph.orbit {adj_args(A)}")
        return set(int(t) for t in rep["masks"].split(","))


# ----------------------------------------------------------------------------------------------- misc
class Timeout(Exception):
    pass


class time_limit:
    """raise Timeout in the main thread after `seconds` (used around implementation calls that may not terminate)"""

    def __init__(self, seconds):
        self.seconds = seconds

    def _h(self, *a):
        raise Timeout()

    def __enter__(self):
        import time

        self.old = signal.signal(signal.SIGALRM, self._h)
        # ITIMER_REAL is also the watchdog of `check` (signal.alarm): remember what was left of it and re-arm it on exit, otherwise the
        # first use of time_limit would switch the run's time budget off for good
        self.t_in = time.time()
        self.outer = signal.setitimer(signal.ITIMER_REAL, self.seconds)[0]

    def __exit__(self, *a):
        import time

        signal.setitimer(signal.ITIMER_REAL, 0)
        signal.signal(signal.SIGALRM, self.old)
        if self.outer > 0:
            signal.setitimer(signal.ITIMER_REAL, max(self.outer - (time.time() - self.t_in), 0.01))
        return False


def gates_str(gates):
    return ",".join(f"{g[0]}:{int(g[1])}" for g in gates) if gates else "-"


def graph_state_generators(A):
    """(x, z, r) of the stabilizer generators K_q = X_q Z_N(q) of the graph state"""
    A = np.asarray(A).astype(int)
    n = len(A)
    return np.eye(n, dtype=int), A.copy(), np.zeros(n, dtype=int)


def viol(res, key, clause, **kw):
    """res.violation with at most 3 stored cases per key (the Result keeps 50 in total; a flood of one known finding must
    not crowd out a different violation); the full count per key goes to the evidence"""
    cnt = res.extra.setdefault("violation_counts", {})
    cnt[key] = cnt.get(key, 0) + 1
    if cnt[key] <= 3:
        res.violation(key, clause, **kw)


def merge_results(res, sub):
    """fold the Result of a worker process into the main Result"""
    res.evaluations += sub.evaluations
    res.distinct |= sub.distinct
    res.traces_validated += sub.traces_validated
    for table in ("branches", "sizes", "errors"):
        d = getattr(res, table)
        for k, v in getattr(sub, table).items():
            d[k] = d.get(k, 0) + v
    cnt = res.extra.setdefault("violation_counts", {})
    for k, v in sub.extra.get("violation_counts", {}).items():
        cnt[k] = cnt.get(k, 0) + v
    have = {}
    for v in res.violations:
        have[v["key"]] = have.get(v["key"], 0) + 1
    for v in sub.violations:
        if have.get(v["key"], 0) < 3 and len(res.violations) < 50:
            res.violations.append(v)
            have[v["key"]] = have.get(v["key"], 0) + 1
    for b in sub.exact_breaks:
        if len(res.exact_breaks) < 50:
            res.exact_breaks.append(b)
    for s_ in sub.samples:
        res.sample(s_)
    res.extra["driver_lines_workers"] = res.extra.get("driver_lines_workers", 0) + sub.extra.get("driver_lines", 0)


class RDriver:
    """model-driver client that survives the death of the driver process (another check on the same machine may
    `pkill -x driver`): the process is restarted and the batch re-sent, up to three times"""

    def __init__(self):
        from harness.common import Driver

        self._mk = Driver
        self.d = Driver()
        self.n_prev = 0
        self.restarts = 0

    @property
    def n_lines(self):
        return self.n_prev + self.d.n_lines

    def batch(self, lines):
        for attempt in range(4):
            try:
                return self.d.batch(lines)
            except RuntimeError:
                if attempt == 3:
                    raise
                self.n_prev += self.d.n_lines
                try:
                    self.d.close()
                except Exception:  # noqa: BLE001
                    pass
                self.d = self._mk()
                self.restarts += 1

    def ask(self, line):
        return self.batch([line])[0]

    def close(self):
        self.d.close()
