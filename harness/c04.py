"""
C04 — generated and mutated circuits respect the photonic emission constraints.

Correspondence (exact): the real `EvolutionarySolver` / `HybridEvolutionarySolver` mutation moves are applied to real
`CircuitDAG`s; the library RNG entry points (`np.random.randint`, `np.random.choice`) are intercepted; the move is
recovered by *diffing* the wire snapshot before/after (independent of how the move edits the DAG), and the Lean model
(`evo.step`) must (a) allow that choice and (b) produce exactly the same circuit (wires, node ids, classes, wrapped gate
lists, registers, Fixed labels, _node_id).  The size of the candidate list the implementation drew from (the argument of
`randint`) and the static candidate helpers (`_select_possible_*`) are compared with the model's candidate sets; on small
circuits every candidate index is scripted in turn so that the candidate *sets* are compared exactly.
`get_emission_assignment` and `initialization` are compared exactly (exhaustively over all draw sequences for small sizes).

Direct oracle (independent of the model): EmitInv evaluated on the implementation's DAG (`wireutil.emit_problems`),
structural validity + `validate()` + index consistency (`wireutil.structure_problems`), retention of the Fixed
CNOT / measure-and-reset nodes; also on `TimeReversedSolver`, `AlternateTargetSolver` and solver `solve()` outputs.
"""
import itertools
import random
import time
import traceback

import networkx as nx
import numpy as np

from harness import wireutil as wu
from harness.common import Driver, Result, coverage_floor, err_class, impl_guard

LEVEL = "proof"
TRUSTED_BASE = [
    "Lean 4.33 kernel",
    "hand-written model GraphiqModel/Model/{Wire,EvoMoves}.lean tied to circuit_dag.py / evolutionary_solver.py / hybrid_solvers.py by this correspondence run",
    "networkx ancestors/descendants = strict reachability (the model computes them by saturation; compared on every two-qubit insertion)",
    "harness (wire snapshot by walking the MultiDiGraph, move recovery by diffing), line protocol, driver parser/printer",
    "order of candidate lists (edge_dict order, set iteration in get_node_by_labels) is not modelled: the invariant does not depend on which candidate is drawn",
]
ASSUMPTIONS = [
    "np.random.randint / np.random.choice are the only sources of randomness in the moves",
    "targets with an isolated vertex are outside this check (known finding D3 of C02: TimeReversedSolver raises)",
    "n_emitter >= 1 and n_photon >= 1; parameterised gates and user-defined labels are outside the wire model",
]

TRANS = ["add_emitter_one_qubit_op", "add_photon_one_qubit_op", "replace_photon_one_qubit_op", "replace_emitter_one_qubit_op",
         "add_emitter_cnot", "remove_op", "add_measurement_cnot_and_reset"]


def guard(res, stream, **kw):
    """common.impl_guard for this harness: a circuit with an operation outside the wire model (wu.OutOfModel: parameterised gate, foreign
    label) produced by a move or a solver is the implementation leaving the modelled domain — a correspondence break, not a harness crash"""
    return impl_guard(res, stream, also=(wu.OutOfModel,), **kw)


# ---------------------------------------------------------------------------------------------------------------- RNG
class RngPatch:
    """intercepts np.random.randint / np.random.choice (library entry points)"""

    def __init__(self, rs, randint_script=None, choice_script=None, wrap_transformation=None):
        self.rs = rs
        self.randint_script = list(randint_script) if randint_script is not None else None
        self.choice_script = list(choice_script) if choice_script is not None else None
        self.wrap = wrap_transformation
        self.calls = []
        self.bad_script = False

    def __enter__(self):
        self._ri, self._ch = np.random.randint, np.random.choice
        np.random.randint = self.randint
        np.random.choice = self.choice
        return self

    def __exit__(self, *a):
        np.random.randint, np.random.choice = self._ri, self._ch

    def randint(self, low, high=None, size=None, **kw):
        if high is None and size is None:
            if self.randint_script:
                v = self.randint_script.pop(0)
                if not (0 <= v < low):
                    self.bad_script = True
                    v = 0
            else:
                v = int(self.rs.randint(low))
            self.calls.append(("randint", int(low), int(v)))
            return v
        v = self.rs.randint(low, high, size)
        self.calls.append(("randint*", (low, high, size), np.asarray(v).tolist()))
        return v

    def choice(self, a, size=None, replace=True, p=None, **kw):
        # extra keyword arguments of a refactored caller are accepted (they select nothing the scripted draw depends on)
        if isinstance(a, (int, np.integer)):
            if self.choice_script:
                v = self.choice_script.pop(0)
            else:
                v = int(self.rs.choice(a, p=p))
            self.calls.append(("choice", int(a), int(v)))
            return v
        idx = int(self.rs.choice(len(a), p=p))
        f = a[idx]
        self.calls.append(("trans", getattr(f, "__name__", str(f))))
        return self.wrap(f) if (self.wrap and callable(f)) else f


# ---------------------------------------------------------------------------------------------------------------- setup
def make_solver(n_photon, n_emitter):
    from graphiq.backends.stabilizer.compiler import StabilizerCompiler
    from graphiq.metrics import Infidelity
    from graphiq.solvers.evolutionary_solver import EvolutionarySolver
    from graphiq.state import QuantumState

    target = QuantumState(nx.path_graph(max(n_photon, 1)), rep_type="g")
    comp = StabilizerCompiler()
    comp.measurement_determinism = 1
    return EvolutionarySolver(target=target, metric=Infidelity(target), compiler=comp, n_emitter=n_emitter, n_photon=n_photon)


def random_connected_graph(rng, n):
    while True:
        p = rng.choice([0.3, 0.5, 0.7])
        g = nx.gnp_random_graph(n, p, seed=rng.getrandbits(30))
        if n == 1 or nx.is_connected(g):
            return g


def trs_circuit(graph):
    from graphiq.backends.stabilizer.compiler import StabilizerCompiler
    from graphiq.metrics import Infidelity
    from graphiq.solvers.time_reversed_solver import TimeReversedSolver
    from graphiq.state import QuantumState

    target = QuantumState(graph, rep_type="g")
    comp = StabilizerCompiler()
    comp.measurement_determinism = 1
    s = TimeReversedSolver(target=target, metric=Infidelity(target), compiler=comp)
    s.solve()
    return s.result[1], s.n_emitter


def ops_table():
    from graphiq.solvers.evolutionary_solver import EvolutionarySolver

    return [tuple(wu.G1_OF[g.__name__] for g in gl) for gl in EvolutionarySolver.one_qubit_ops]


# ---------------------------------------------------------------------------------------------------------------- diff
def recover_move(before, after, calls, table):
    """-> (choice token, gate index, kind) by diffing two snapshots; raises ValueError when the change is not one move"""
    bn, an = before["nodes"], after["nodes"]
    added = sorted(set(an) - set(bn))
    removed = sorted(set(bn) - set(an))
    changed = sorted(n for n in set(an) & set(bn) if an[n] != bn[n])
    if (before["ne"], before["np"]) != (after["ne"], after["np"]):
        raise ValueError("register counts changed")

    def gate_index(t):
        if t[0] != "W" or t[1] not in table:
            raise ValueError(f"inserted operation {t} is not a wrapper from one_qubit_ops")
        return table.index(t[1])

    if len(added) == 1 and not removed and not changed:
        k = added[0]
        t = an[k]
        toks = []
        for r in t[2]:
            w = after["wires"][r]
            if w.count(k) != 1:
                raise ValueError(f"new node {k} not exactly once on {r}")
            toks.append(f"{r}@{w.index(k)}")
        for r, w in after["wires"].items():
            if tuple(x for x in w if x != k) != before["wires"].get(r, ()):
                raise ValueError(f"wire {r} changed beyond the insertion")
            if r[0] != "c" and (k in w) != (r in t[2]):
                raise ValueError(f"new node on wire {r}")
        if len(toks) == 1:
            return toks[0], gate_index(t), "insert1"
        if len(toks) == 2:
            return "+".join(toks), 0, "insert2:" + t[0]
        raise ValueError("new node on no quantum wire")
    if len(removed) == 1 and not added and not changed:
        k = removed[0]
        for r, w in before["wires"].items():
            if tuple(x for x in w if x != k) != after["wires"].get(r, ()):
                raise ValueError(f"wire {r} changed beyond the removal")
        return str(k), 0, "remove"
    if len(changed) == 1 and not added and not removed:
        if before["wires"] != after["wires"]:
            raise ValueError("wires changed in a replacement")
        k = changed[0]
        return str(k), gate_index(an[k]), "replace"
    if not added and not removed and not changed:
        if before["wires"] != after["wires"] or before["nid"] != after["nid"]:
            raise ValueError("wires/_node_id changed without any node change")
        gate_draws = [c for c in calls if c[0] == "choice"]
        if gate_draws:
            # a replacement by an identical wrapper: any node that already equals the drawn wrapper
            g = gate_draws[-1][2]
            for n, t in sorted(bn.items()):
                if t[0] == "W" and t[1] == table[g]:
                    return f"same:{g}", g, "replace-same"
            raise ValueError("a Clifford was drawn but nothing changed")
        return "none", 0, "noop"
    raise ValueError(f"not a single move: added {added} removed {removed} changed {changed}")


# ---------------------------------------------------------------------------------------------------------------- oracle
def oracle(res, circuit, anchors, key_prefix, inp):
    """direct property oracle on one implementation circuit; returns True when it holds"""
    probs = wu.structure_problems(circuit)
    if probs:
        res.violation(f"{key_prefix}:invalid-circuit", "the circuit is a valid circuit (DAG, wires, indexes, validate())", input=inp, impl=probs[:5])
        return False
    probs = wu.emit_problems(circuit)
    if probs:
        res.violation(f"{key_prefix}:emission-constraint", "no photon-photon two-qubit op; first op of a photon is its Fixed emitter-controlled CNOT; later only one-qubit gates / classically controlled targets", input=inp, impl=probs[:5])
        return False
    if anchors is not None:
        now = wu.fixed_anchor(circuit, initial=True)
        lost = {n: v for n, v in anchors.items() if now.get(n) != v}
        if lost:
            res.violation(f"{key_prefix}:fixed-removed", "Fixed emission CNOTs / measure-and-reset operations are never removed", input=inp, impl=str(lost)[:300])
            return False
    return True


# ---------------------------------------------------------------------------------------------------------------- one move
def apply_move(solver, circuit, tname, patch):
    """returns exception or None"""
    import warnings

    try:
        with warnings.catch_warnings():
            warnings.simplefilter("ignore")
            with patch:
                getattr(solver, tname)(circuit)
        return None
    except Exception as e:  # noqa: BLE001
        return e


class MoveLog:
    """accumulates observed moves, then checks them against the model in one batch"""

    def __init__(self, res, table):
        self.res = res
        self.table = table
        self.items = []

    def add(self, before, tname, after, calls, note=""):
        try:
            tok, g, kind = recover_move(before, after, calls, self.table)
        except ValueError as e:
            self.res.exact_break("diff:" + tname, input={"before": wu.encode(before), "t": tname}, impl=wu.encode(after), model=f"not a single model move: {e}")
            return None
        first = [c for c in calls if c[0] == "randint"]
        n_obs = first[0][1] if first else 0
        self.items.append((before, tname, tok, g, kind, after, n_obs, note))
        return tok, g, kind

    def flush(self, drv):
        res = self.res
        lines = []
        for before, tname, tok, g, kind, after, n_obs, note in self.items:
            enc = wu.encode(before)
            if kind == "replace-same":
                lines.append(f"evo.cands t={tname} {enc}")  # choice resolved below from the candidate list
            else:
                lines.append(f"evo.step t={tname} ch={tok} g={g} {enc}")
            # the full pair-candidate list costs one reachability search per edge: on large circuits sample it
            if tname in ("add_emitter_cnot", "add_measurement_cnot_and_reset") and len(before["nodes"]) > 30 and (k_item := len(lines)) % 5 != 0:
                lines.append("evo.ops")
            else:
                lines.append(f"evo.cands t={tname} {enc}")
        reps = drv.batch(lines) if lines else []
        for k, (before, tname, tok, g, kind, after, n_obs, note) in enumerate(self.items):
            r_step, r_c = reps[2 * k], reps[2 * k + 1]
            inp = {"before": wu.encode(before), "t": tname, "choice": tok, "g": g}
            res.evaluations += 1
            res.branch([f"{tname}:{kind}"])
            if kind not in ("noop",):
                res.nontrivial(wu.shape(before), tname, tok, g)
            if kind == "replace-same":
                cands = [] if r_c.get("cands", "-") == "-" else r_c["cands"].split(",")
                same = [c for c in cands if c.isdigit() and before["nodes"][int(c)][0] == "W" and before["nodes"][int(c)][1] == self.table[g]]
                if r_c.get("kind") != "node" or not same:
                    res.exact_break("evo.step:" + tname, input=inp, impl="unchanged circuit after drawing Clifford %d" % g, model=r_c["_raw"][:300])
                    continue
                r_step = drv.ask(f"evo.step t={tname} ch={same[0]} g={g} {wu.encode(before)}")
                # the Fixed flag of the drawn wrapper may differ from the stored one; accept any identical candidate
                ok = False
                for cnd in same:
                    rr = drv.ask(f"evo.step t={tname} ch={cnd} g={g} {wu.encode(before)}")
                    if rr["_status"] == "ok" and wu.decode(rr) == after:
                        ok = True
                        break
                if not ok:
                    res.exact_break("evo.step:" + tname, input=inp, impl=wu.encode(after), model=r_step["_raw"][:600])
                continue
            if r_step["_status"] != "ok":
                res.exact_break("evo.step:" + tname, input=inp, impl=wu.encode(after), model=r_step["_raw"][:300])
                continue
            if wu.decode(r_step) != after:
                res.exact_break("evo.step:" + tname, input=inp, impl=wu.encode(after), model=r_step["_raw"][:900])
                continue
            n_model = int(r_c.get("n", -1))
            if "cands" in r_c and n_model != n_obs:
                res.exact_break("evo.cands:" + tname, input=inp, impl=f"randint drew from {n_obs} candidates", model=r_c["_raw"][:300])
                continue
            if len(res.samples) < 6 and kind != "noop":
                res.sample(f"evo.step t={tname} ch={tok} g={g} {wu.encode(before)} -> {r_step['_raw']}"[:590])
        self.items = []


def pick_transformation(rng, n_nodes, n_emitter, cap):
    w = {"add_emitter_one_qubit_op": 3, "add_photon_one_qubit_op": 2, "replace_photon_one_qubit_op": 2,
         "replace_emitter_one_qubit_op": 1, "add_emitter_cnot": 3 if n_emitter > 1 else 0.3, "remove_op": 3,
         "add_measurement_cnot_and_reset": 2}
    if n_nodes > cap:
        w["remove_op"] = 12
    names = list(w)
    return rng.choices(names, weights=[w[n] for n in names])[0]


def run_history(ctx, res, log, solver, circuit, n_moves, rs, tag, cap=70):
    """apply n_moves random moves to `circuit` (in place), oracle after each, log for the model"""
    anchors = wu.fixed_anchor(circuit, initial=True)
    before = wu.snapshot(circuit)
    for step in range(n_moves):
        tname = pick_transformation(ctx.rng, len(before["nodes"]), before["ne"], cap)
        patch = RngPatch(rs)
        exc = apply_move(solver, circuit, tname, patch)
        inp = {"before": wu.encode(before), "t": tname, "calls": [c for c in patch.calls if c[0] in ("randint", "choice")], "start": tag}
        if exc is not None:
            res.violation(f"move:{tname}:raised", "every move keeps the circuit a valid circuit", input=inp, impl=f"{type(exc).__name__}: {exc}"[:300])
            return False
        if not oracle(res, circuit, anchors, f"move:{tname}", inp):
            return False
        after = wu.snapshot(circuit)
        log.add(before, tname, after, patch.calls, tag)
        before = after
    res.count("sizes", f"final-nodes<={10 * ((len(before['nodes']) + 9) // 10)}")
    return True


# ---------------------------------------------------------------------------------------------------------------- parts
def check_table(res, drv, table):
    r = drv.ask("evo.ops")
    model = [tuple(x.split(".")) for x in r["ops"].split(",")]
    res.evaluations += 1
    if model != table:
        res.exact_break("one_qubit_ops", input="EvolutionarySolver.one_qubit_ops", impl=str(table), model=str(model))


def enumerate_draws(fn, max_paths=20000):
    """all executions of fn under scripted randint (DFS over draw sequences); yields (draws, bounds, result|exception)"""
    stack = [[]]
    n = 0
    while stack and n < max_paths:
        prefix = stack.pop()
        patch = RngPatch(None, randint_script=list(prefix) + [0] * 64)
        try:
            with patch:
                out = fn()
        except Exception as e:  # noqa: BLE001
            out = e
        calls = [c for c in patch.calls if c[0] == "randint"]
        draws = [c[2] for c in calls]
        bounds = [c[1] for c in calls]
        # extend: children differ at the first position beyond the prefix
        if len(calls) > len(prefix):
            j = len(prefix)
            for v in range(1, bounds[j]):
                stack.append(draws[:j] + [v])
        n += 1
        yield draws, bounds, out


def check_assignment(ctx, res, drv, solver_cls):
    """get_emission_assignment: exact + bound, exhaustively over all draw sequences for small sizes, sampled above"""
    lines, want = [], []
    sizes = [(p, e) for p in range(1, 7) for e in range(1, min(p, 4) + 1)] if ctx.quick else \
            [(p, e) for p in range(1, 9) for e in range(1, min(p, 5) + 1)]
    for (n_p, n_e) in sizes:
        for draws, bounds, out in enumerate_draws(lambda: solver_cls.get_emission_assignment(n_p, n_e), 3000 if ctx.quick else 40000):
            inp = {"fn": "get_emission_assignment", "np": n_p, "ne": n_e, "draws": draws}
            res.evaluations += 1
            res.count("sizes", f"ea:np={n_p}")
            if isinstance(out, Exception):
                res.violation("ea:raised", "get_emission_assignment returns an assignment", input=inp, impl=repr(out)[:200])
                continue
            try:
                out = list(out)
            except TypeError:  # not a sequence at all
                res.violation("ea:bound", "every photon is assigned an existing emitter (assignment[i] < n_emitter), one entry per photon", input=inp, impl=repr(out)[:200])
                continue
            if len(out) != n_p or any((not isinstance(x, (int, np.integer))) or x < 0 or x >= n_e for x in out):
                res.violation("ea:bound", "every photon is assigned an existing emitter (assignment[i] < n_emitter), one entry per photon", input=inp, impl=str(out))
                continue
            if len(draws) > 0:
                res.nontrivial("ea", n_p, n_e, tuple(draws))
            lines.append(f"evo.ea np={n_p} ne={n_e} draws={','.join(map(str, draws)) or '-'}")
            want.append((inp, [int(x) for x in out]))
    reps = drv.batch(lines)
    for (inp, out), r in zip(want, reps):
        got = None if r["_status"] != "ok" else ([] if r["ea"] == "-" else [int(x) for x in r["ea"].split(",")])
        if got != out:
            res.exact_break("get_emission_assignment", input=inp, impl=str(out), model=r["_raw"])
    res.exhaustive = True
    res.notes.append(f"get_emission_assignment: all draw sequences enumerated for {len(sizes)} (n_photon, n_emitter) sizes")


def check_initialization(ctx, res, drv, rs):
    lines, want = [], []
    n_cases = 60 if ctx.quick else 600
    for _ in range(n_cases):
        n_p = ctx.rng.randint(1, 8)
        n_e = ctx.rng.randint(1, min(n_p, 4))
        try:
            solver = make_solver(n_p, n_e)
            patch = RngPatch(rs)
            with patch:
                ea = solver.get_emission_assignment(n_p, n_e)
                ma = solver.get_measurement_assignment(n_p, n_e)
        except Exception as e:  # noqa: BLE001 — 1 <= n_emitter <= n_photon: the solver and its assignments exist
            res.violation("init:assignment-raised", "the solver constructor / get_emission_assignment / get_measurement_assignment return on 1 <= n_emitter <= n_photon",
                          input={"fn": "assignments", "np": n_p, "ne": n_e}, impl=repr(e)[:200])
            continue
        inp = {"fn": "initialization", "ea": list(map(int, ea)), "ma": list(map(int, ma))}
        try:
            circ = solver.initialization(ea, ma)
        except Exception as e:  # noqa: BLE001
            res.violation("init:raised", "initialization builds a circuit", input=inp, impl=repr(e)[:200])
            continue
        res.evaluations += 1
        res.nontrivial("init", tuple(ea), tuple(ma))
        res.count("sizes", f"init:np={n_p}")
        if not oracle(res, circ, None, "init", inp):
            continue
        lines.append(f"evo.init ea={','.join(map(str, ea))} ma={','.join(map(str, ma))}")
        lines.append("wire.check " + wu.encode(wu.snapshot(circ)))
        want.append((inp, wu.snapshot(circ)))
    reps = drv.batch(lines)
    for k, (inp, snap) in enumerate(want):
        r, rc = reps[2 * k], reps[2 * k + 1]
        if r["_status"] != "ok" or wu.decode(r) != snap:
            res.exact_break("initialization", input=inp, impl=wu.encode(snap), model=r["_raw"][:600])
        elif rc["_raw"].split(" n=")[0] != "ok wf=1 acyclic=1 emit=1":
            res.exact_break("wire.check", input=inp, impl="python oracle: EmitInv holds", model=rc["_raw"])


def start_circuits(ctx, res, rs, n_each):
    """-> list of (tag, solver, circuit)"""
    out = []
    for _ in range(n_each):
        n_p = ctx.rng.randint(1, 8)
        n_e = ctx.rng.randint(1, min(n_p, 4))
        try:
            solver = make_solver(n_p, n_e)
            with RngPatch(rs):
                ea = solver.get_emission_assignment(n_p, n_e)
                ma = solver.get_measurement_assignment(n_p, n_e)
            out.append((f"init:{ea}:{ma}", solver, solver.initialization(ea, ma)))
        except Exception as e:  # noqa: BLE001 — reported, not a harness crash (check_initialization covers the same calls with an oracle)
            res.violation("init:raised", "initialization builds a circuit", input={"fn": "start_circuits", "np": n_p, "ne": n_e}, impl=repr(e)[:200])
    for _ in range(n_each):
        n = ctx.rng.randint(2, 8)
        g = random_connected_graph(ctx.rng, n)
        try:
            circ, n_e = trs_circuit(g)
        except Exception as e:  # noqa: BLE001 — a connected target (no isolated vertex: D3 is excluded) has a circuit
            res.notes.append(f"TimeReversedSolver raised {type(e).__name__} on {sorted(g.edges())}")
            res.count("errors", f"solver:time-reversed:raises:{err_class(e)}")
            res.violation(f"solver:time-reversed:raises:{err_class(e)}", "TimeReversedSolver returns a circuit for every connected target graph",
                          input={"fn": "TimeReversedSolver", "edges": sorted(g.edges()), "n": n}, impl=f"{type(e).__name__}: {e}"[:300])
            continue
        res.evaluations += 1
        inp = {"fn": "TimeReversedSolver", "edges": sorted(g.edges()), "n": n}
        if not oracle(res, circ, None, "solver:time-reversed", inp):
            continue
        res.count("sizes", f"trs:n={n}")
        out.append((f"trs:{sorted(g.edges())}", make_solver(n, n_e), circ))
    return out


def check_cnot_helpers(res, drv, solver, circuit, tag):
    """the static candidate helpers against the model's candidate sets (exact, as sets)"""
    snap = wu.snapshot(circuit)
    enc = wu.encode(snap)
    for tname, fn in (("add_emitter_cnot", solver._select_possible_cnot_position),
                      ("add_measurement_cnot_and_reset", solver._select_possible_measurement_position)):
        try:
            pairs = list(fn(circuit))
        except Exception as e:  # noqa: BLE001 — the candidate helpers are total on valid circuits (the model's are)
            res.exact_break("cands:" + tname + ":raises:" + err_class(e), input={"before": enc, "start": tag}, impl=repr(e)[:300], model="a candidate list")
            continue
        impl = sorted(wu.edge_token(snap, a) + "+" + wu.edge_token(snap, b) for a, b in pairs)
        r = drv.ask(f"evo.cands t={tname} {enc}")
        model = sorted([] if r.get("cands", "-") == "-" else r["cands"].split(","))
        res.evaluations += 1
        res.branch([f"cands:{tname}"])
        if impl:
            res.nontrivial("cands", tname, wu.shape(snap))
        if impl != model:
            res.exact_break("cands:" + tname, input={"before": enc, "start": tag}, impl=str(impl)[:600], model=str(model)[:600])


def exhaustive_candidates(ctx, res, drv, table, solver, circuit, tag, depth, rs, gates, anchors=None):
    """script every candidate index of every transformation on copies of `circuit`; candidate sets must agree exactly"""
    before = wu.snapshot(circuit)
    enc = wu.encode(before)
    if anchors is None:
        anchors = wu.fixed_anchor(circuit, initial=True)  # top level: an initial solver circuit
    children = []
    for tname in TRANS:
        r_c = drv.ask(f"evo.cands t={tname} {enc}")
        model_c = [] if r_c.get("cands", "-") == "-" else r_c["cands"].split(",")
        seen = []
        idx = 0
        n_impl = None
        while n_impl is None or idx < n_impl:
            for g in gates:
                cp = circuit.copy()
                patch = RngPatch(rs, randint_script=[idx], choice_script=[g])
                exc = apply_move(solver, cp, tname, patch)
                inp = {"before": enc, "t": tname, "calls": [["randint", -1, idx], ["choice", 24, g]], "start": tag}
                if exc is not None:
                    res.violation(f"move:{tname}:raised", "every move keeps the circuit a valid circuit", input=inp, impl=repr(exc)[:300])
                    return
                first = [c for c in patch.calls if c[0] == "randint"]
                n_impl = first[0][1] if first else 0
                if not oracle(res, cp, anchors, f"move:{tname}", inp):
                    return
                after = wu.snapshot(cp)
                try:
                    tok, gi, kind = recover_move(before, after, patch.calls, table)
                except ValueError as e:
                    res.exact_break("diff:" + tname, input=inp, impl=wu.encode(after), model=str(e))
                    break
                res.evaluations += 1
                res.branch([f"exh:{tname}:{kind}"])
                if kind != "noop":
                    res.nontrivial(wu.shape(before), tname, tok, gi)
                if kind == "replace-same":
                    continue
                if kind != "noop":
                    if g == gates[0]:
                        seen.append(tok)
                    r = drv.ask(f"evo.step t={tname} ch={tok} g={gi} {enc}")
                    if r["_status"] != "ok" or wu.decode(r) != after:
                        res.exact_break("evo.step:" + tname, input=dict(inp, choice=tok, g=gi), impl=wu.encode(after), model=r["_raw"][:600])
                    elif depth > 1 and g == gates[0]:
                        children.append(cp)
                if not any(c[0] == "choice" for c in patch.calls):
                    break  # no Clifford drawn: one gate value suffices
            idx += 1
            if n_impl == 0:
                break
        # replacement by an identical wrapper is invisible to the diff: compare only when every index was recovered
        if len(seen) == (n_impl or 0) and sorted(seen) != sorted(model_c):
            res.exact_break("cands:" + tname, input={"before": enc, "t": tname, "start": tag}, impl=str(sorted(seen))[:600], model=str(sorted(model_c))[:600])
        elif len(set(seen)) != len(seen):
            res.exact_break("cands:" + tname, input={"before": enc, "t": tname}, impl="duplicate candidates " + str(sorted(seen))[:400], model=str(sorted(model_c))[:400])
    if depth > 1:
        for cp in children:
            exhaustive_candidates(ctx, res, drv, table, solver, cp, tag + ">", depth - 1, rs, gates[:1], anchors)


def check_solver_runs(ctx, res, log, rs):
    """real solve() runs: every transformation the solver applies is observed through np.random.choice"""
    from graphiq.backends.stabilizer.compiler import StabilizerCompiler
    from graphiq.metrics import Infidelity
    from graphiq.solvers.evolutionary_solver import EvolutionarySolver, EvolutionarySolverSetting
    from graphiq.solvers.hybrid_solvers import HybridEvolutionarySolver
    from graphiq.state import QuantumState
    import warnings

    runs = 2 if ctx.quick else 8
    for k in range(runs):
        hybrid = k % 2 == 1
        n = ctx.rng.randint(3, 5)
        g = random_connected_graph(ctx.rng, n)
        target = QuantumState(g, rep_type="g")
        target.convert_representation("s")
        comp = StabilizerCompiler()
        comp.measurement_determinism = 1
        setting = EvolutionarySolverSetting(n_hof=3, n_stop=6 if ctx.quick else 15, n_pop=4 if ctx.quick else 8)
        state = {"anchors": {}, "moves": 0}

        def wrap(f):
            def run(*a, **kw):
                circuit = a[0] if a else kw.get("circuit")  # the arguments themselves are forwarded exactly as given
                state["moves"] += 1
                before = wu.snapshot(circuit)
                anchors = state["anchors"].setdefault(id(circuit), wu.fixed_anchor(circuit, initial=True))
                mark = len(patch.calls)
                out = f(*a, **kw)
                inp = {"before": wu.encode(before), "t": f.__name__, "start": "solve()"}
                if oracle(res, circuit, anchors, f"move:{f.__name__}", inp):
                    log.add(before, f.__name__, wu.snapshot(circuit), patch.calls[mark:], "solve()")
                return out
            return run

        try:
            if hybrid:
                solver = HybridEvolutionarySolver(target=target, metric=Infidelity(target), compiler=comp, solver_setting=setting)
            else:
                n_e = ctx.rng.randint(1, 2)
                solver = EvolutionarySolver(target=target, metric=Infidelity(target), compiler=comp, n_emitter=n_e, n_photon=n, solver_setting=setting)
            patch = RngPatch(rs, wrap_transformation=wrap)
            with warnings.catch_warnings():
                warnings.simplefilter("ignore")
                with patch:
                    solver.solve()
        except Exception as e:  # noqa: BLE001 — a connected target, 1 <= n_emitter, n_hof <= n_pop: solve() has a result
            res.notes.append(f"solve() raised {type(e).__name__}: {e} (hybrid={hybrid}, edges={sorted(g.edges())})"[:300])
            res.count("errors", f"solver:solve:raises:{err_class(e)}")
            res.violation(f"solver:solve:raises:{err_class(e)}", "solve() of the evolutionary solvers terminates with a hall of fame on a well-formed configuration",
                          input={"fn": "HybridEvolutionarySolver" if hybrid else "EvolutionarySolver", "edges": sorted(g.edges()), "n": n},
                          impl=f"{type(e).__name__}: {e}"[:300])
            continue
        res.traces_validated += 1
        if state["moves"] == 0:
            # the moves of solve() are observed through np.random.choice over the transformation list: a solver that no longer draws
            # them there would run unobserved and this stream would compare nothing
            res.exact_break("coverage collapsed: solve() moves observed", input={"fn": type(solver).__name__, "edges": sorted(g.edges())},
                            impl="solve() returned but no transformation was drawn through np.random.choice", model="every generation applies moves")
        res.extra["solve_moves_observed"] = res.extra.get("solve_moves_observed", 0) + state["moves"]
        for score, circ in solver.hof:
            res.evaluations += 1
            oracle(res, circ, None, "solver:hof", {"fn": type(solver).__name__, "edges": sorted(g.edges())})


def check_alternate_target(ctx, res):
    """AlternateTargetSolver outputs through the oracle (no model involved)"""
    try:
        from graphiq.solvers.alternate_target_solver import AlternateTargetSolver, AlternateTargetSolverSetting
    except Exception as e:  # noqa: BLE001 — the module exists in the repository: not importable = the whole stream would be skipped
        res.notes.append(f"alternate_target_solver not importable: {e}")
        res.exact_break("alternate_target_solver:import:raises:" + err_class(e), input={"fn": "import graphiq.solvers.alternate_target_solver"},
                        impl=repr(e)[:300], model="the module imports")
        return
    n_runs = 3 if ctx.quick else 15
    done = 0
    solved = 0
    for _ in range(n_runs):
        n = ctx.rng.randint(3, 5)
        g = random_connected_graph(ctx.rng, n)
        try:
            setting = AlternateTargetSolverSetting(n_iso_graphs=2, n_lc_graphs=3)
            solver = AlternateTargetSolver(target=g, solver_setting=setting, noise_model_mapping=None, seed=ctx.rng.randrange(1000))
            solver.solve()
            circuits = [c for (c, _) in solver.result] if isinstance(solver.result, list) else []
            if not circuits and hasattr(solver, "result"):
                rr = solver.result
                circuits = list(getattr(rr, "_data", {}).get("circuit", [])) if hasattr(rr, "_data") else []
        except Exception as e:  # noqa: BLE001 — connected target on 3..5 vertices, n_iso_graphs=2 <= n!: the solver has a result
            res.notes.append(f"AlternateTargetSolver raised {type(e).__name__}: {e}"[:200])
            res.count("errors", f"solver:alternate-target:raises:{err_class(e)}")
            res.violation(f"solver:alternate-target:raises:{err_class(e)}", "AlternateTargetSolver.solve() returns circuits for a connected target graph",
                          input={"fn": "AlternateTargetSolver", "edges": sorted(g.edges())}, impl=f"{type(e).__name__}: {e}"[:300])
            continue
        solved += 1
        for circ in circuits:
            res.evaluations += 1
            done += 1
            oracle(res, circ, None, "solver:alternate-target", {"fn": "AlternateTargetSolver", "edges": sorted(g.edges())})
    res.extra["alternate_target_circuits_checked"] = done
    if n_runs and done == 0:
        # every run was skipped or the result object no longer exposes its circuits: the stream checked nothing
        coverage_floor(res, "alternate-target:circuits", done, n_runs, what="solver runs with at least one circuit")


# ---------------------------------------------------------------------------------------------------------------- builds
class BuildObserver:
    """records, per circuit object, the construction history of the deterministic solvers by diffing the wire snapshot
    around every circuit-editing helper of TimeReversedSolver and around CircuitDAG.add (AlternateTargetSolver)"""

    HELPERS = ["_add_one_qubit_gate", "_add_one_emitter_cnot", "_add_emitter_photon_cnot", "_add_measurement_cnot_and_reset"]

    def __init__(self):
        self.hist = {}  # id(circuit) -> {"circ": circuit, "ops": [...], "bad": None | str, "ne": .., "np": ..}
        self._saved = []

    def entry(self, circ):
        return self.hist.setdefault(id(circ), {"circ": circ, "ops": [], "bad": None, "ne": circ.n_emitters, "np": circ.n_photons,
                                               "nc": circ.n_classical})

    @staticmethod
    def classify(before, after):
        """-> op token or None (nothing changed); raises ValueError if the edit is not one construction step"""
        bn, an = before["nodes"], after["nodes"]
        added = sorted(set(an) - set(bn))
        removed = sorted(set(bn) - set(an))
        changed = sorted(n for n in set(an) & set(bn) if an[n] != bn[n])
        if not added and not removed and not changed:
            if before["wires"] != after["wires"]:
                raise ValueError("wires changed without node change")
            return None
        if len(added) == 1 and not removed and not changed:
            k = added[0]
            kind, gates, q, c, fixed = an[k]
            for r in q:
                w = after["wires"][r]
                if not w or w[0] != k:
                    # appended at the end? (AlternateTargetSolver conversion gates)
                    if kind == "G" and len(q) == 1 and q[0][0] == "p" and w and w[-1] == k and not fixed:
                        return f"ag:{q[0][1:]}:{gates[0]}"
                    raise ValueError(f"node {k} not directly after {r}_in")
            for r, w in after["wires"].items():
                if tuple(x for x in w if x != k) != before["wires"][r] or (r[0] == "c" and k in w):
                    raise ValueError(f"wire {r} changed beyond the insertion")
            if kind == "W" and not fixed:
                return f"fg:{q[0]}:{wu.dots(gates)}"
            if kind == "CNOT" and q[0][0] == "e" and q[1][0] == "e" and not fixed:
                return f"cx:{q[0][1:]}:{q[1][1:]}"
            if kind == "CNOT" and q[0][0] == "e" and q[1][0] == "p" and fixed:
                return f"em:{q[0][1:]}:{q[1][1:]}"
            if kind == "MCR" and q[0][0] == "e" and q[1][0] == "p" and fixed and c == (0,):
                return f"mcr:{q[0][1:]}:{q[1][1:]}"
            raise ValueError(f"unexpected new operation {an[k]}")
        if len(changed) == 1 and not added and not removed and before["wires"] == after["wires"]:
            k = changed[0]
            kind, gates, q, c, fixed = an[k]
            if kind != "W" or fixed or after["wires"][q[0]][0] != k:
                raise ValueError(f"replacement {an[k]} not of the first wrapper")
            return f"rf:{q[0]}:{wu.dots(gates)}"
        if len(removed) == 1 and not added and not changed:
            k = removed[0]
            kind, gates, q, c, fixed = bn[k]
            if kind != "W" or before["wires"][q[0]][0] != k:
                raise ValueError(f"removal of {bn[k]} which is not the first wrapper")
            for r, w in before["wires"].items():
                if tuple(x for x in w if x != k) != after["wires"][r]:
                    raise ValueError(f"wire {r} changed beyond the removal")
            return f"xf:{q[0]}"
        raise ValueError(f"not one construction step: +{added} -{removed} ~{changed}")

    def around(self, circ, call):
        ent = self.entry(circ)
        before = wu.snapshot(circ)
        out = call()
        try:
            tok = self.classify(before, wu.snapshot(circ))
            if tok is not None:
                ent["ops"].append(tok)
        except ValueError as e:
            if ent["bad"] is None:
                ent["bad"] = f"after {len(ent['ops'])} steps: {e}"
        return out

    def __enter__(self):
        from graphiq.circuit.circuit_dag import CircuitDAG
        from graphiq.solvers.time_reversed_solver import TimeReversedSolver

        obs = self
        for name in self.HELPERS:
            orig = getattr(TimeReversedSolver, name)
            self._saved.append((TimeReversedSolver, name, orig))

            def make(orig):
                def wrapped(solver, *a, **k):
                    # arguments are forwarded exactly as given; the circuit is the first positional argument or the `circuit` keyword
                    circuit = a[0] if a else k.get("circuit")
                    if circuit is None:
                        return orig(solver, *a, **k)
                    return obs.around(circuit, lambda: orig(solver, *a, **k))
                return wrapped

            setattr(TimeReversedSolver, name, make(orig))
        orig_add = CircuitDAG.add
        self._saved.append((CircuitDAG, "add", orig_add))

        def add(circ, *a, **k):
            # the arguments of CircuitDAG.add (positional or keyword, extra ones of a refactored signature) are handed through untouched
            if id(circ) in obs.hist:
                return obs.around(circ, lambda: orig_add(circ, *a, **k))
            return orig_add(circ, *a, **k)

        CircuitDAG.add = add
        return self

    def __exit__(self, *a):
        for cls, name, orig in self._saved:
            setattr(cls, name, orig)
        self._saved = []


def check_builds(ctx, res, drv):
    """construction order of TimeReversedSolver / AlternateTargetSolver against the model (`trs.build`): the recorded
    history must be accepted by the discipline of the model and produce exactly the returned circuit"""
    from graphiq.backends.stabilizer.compiler import StabilizerCompiler
    from graphiq.metrics import Infidelity
    from graphiq.solvers.time_reversed_solver import TimeReversedSolver
    from graphiq.state import QuantumState

    n_trs = 12 if ctx.quick else 120
    n_alt = 2 if ctx.quick else 10
    finals = []  # (tag, history entry, final circuit)
    n_built = 0
    for _ in range(n_trs):
        n = ctx.rng.randint(2, 7 if ctx.quick else 9)
        g = random_connected_graph(ctx.rng, n)
        target = QuantumState(g, rep_type="g")
        comp = StabilizerCompiler()
        comp.measurement_determinism = 1
        with BuildObserver() as obs:
            try:
                s = TimeReversedSolver(target=target, metric=Infidelity(target), compiler=comp)
                s.solve()
            except Exception as e:  # noqa: BLE001 — a connected target has a circuit
                res.notes.append(f"TimeReversedSolver raised {type(e).__name__} on {sorted(g.edges())}"[:200])
                res.count("errors", f"solver:time-reversed:raises:{err_class(e)}")
                res.violation(f"solver:time-reversed:raises:{err_class(e)}", "TimeReversedSolver returns a circuit for every connected target graph",
                              input={"fn": "TimeReversedSolver", "edges": sorted(g.edges()), "n": n}, impl=f"{type(e).__name__}: {e}"[:300])
                continue
        n_built += 1
        for ent in obs.hist.values():
            finals.append((f"trs:{sorted(g.edges())}", ent, s.result[1]))
    try:
        from graphiq.solvers.alternate_target_solver import AlternateTargetSolver, AlternateTargetSolverSetting
    except Exception:  # noqa: BLE001 — reported by check_alternate_target (exact_break …:import:raises)
        AlternateTargetSolver = None
    if AlternateTargetSolver is not None:
        for _ in range(n_alt):
            n = ctx.rng.randint(3, 5)
            g = random_connected_graph(ctx.rng, n)
            with BuildObserver() as obs:
                try:
                    solver = AlternateTargetSolver(target=g, solver_setting=AlternateTargetSolverSetting(n_iso_graphs=2, n_lc_graphs=3),
                                                   noise_model_mapping=None, seed=ctx.rng.randrange(1000))
                    solver.solve()
                except Exception as e:  # noqa: BLE001
                    res.notes.append(f"AlternateTargetSolver raised {type(e).__name__}: {e}"[:200])
                    res.count("errors", f"solver:alternate-target:raises:{err_class(e)}")
                    res.violation(f"solver:alternate-target:raises:{err_class(e)}", "AlternateTargetSolver.solve() returns circuits for a connected target graph",
                                  input={"fn": "AlternateTargetSolver", "edges": sorted(g.edges())}, impl=f"{type(e).__name__}: {e}"[:300])
                    continue
            for ent in obs.hist.values():
                finals.append((f"alt:{sorted(g.edges())}", ent, ent["circ"]))
    lines = []
    keep = []
    for tag, ent, final in finals:
        res.evaluations += 1
        res.branch(["build:" + tag.split(":")[0]])
        inp = {"fn": "construction", "start": tag, "ops": ent["ops"]}
        if not oracle(res, final, None, "solver:" + tag.split(":")[0], inp):
            continue
        if ent["bad"]:
            res.exact_break("trs.build:diff", input=inp, impl=ent["bad"], model="the edit is not a construction step of the model")
            continue
        res.nontrivial("build", tuple(ent["ops"]))
        lines.append(f"trs.build ne={ent['ne']} np={ent['np']} ops={','.join(ent['ops']) or '-'}")
        keep.append((inp, wu.snapshot(final)))
    reps = drv.batch(lines) if lines else []
    for (inp, snap), r in zip(keep, reps):
        if r["_status"] != "ok" or wu.decode(r) != snap:
            res.exact_break("trs.build", input=inp, impl=wu.encode(snap), model=r["_raw"][:600])
        else:
            res.traces_validated += 1
    res.extra["construction_histories_checked"] = len(keep)
    # every TimeReversedSolver run must have been observed through at least one circuit-editing helper: if the helpers were renamed /
    # bypassed the observer records nothing and the stream would compare nothing
    coverage_floor(res, "builds:histories", len([1 for tag, _, _ in finals if tag.startswith("trs:")]), n_built, what="TimeReversedSolver constructions (observed through the editing helpers)")


# ---------------------------------------------------------------------------------------------------------------- entry
def run(ctx):
    res = Result()
    res.rule = ("one evaluation = one mutation move applied by the implementation to one circuit (or one call of "
                "get_emission_assignment / initialization / a solver); non-trivial = the move changed the circuit; distinct by "
                "(circuit shape up to node ids, transformation, chosen candidate, Clifford index)")
    drv = Driver()
    rs = np.random.RandomState(ctx.rng.getrandbits(31))
    table = ops_table()
    from graphiq.solvers.evolutionary_solver import EvolutionarySolver

    # every stream runs under common.impl_guard: an exception of graphiq on a valid generated input that no call site handles is
    # reported (exit 1), it no longer leaves run() as a harness crash (exit 2)
    try:
        check_table(res, drv, table)
        with guard(res, "get_emission_assignment", promise=True):
            check_assignment(ctx, res, drv, EvolutionarySolver)
        with guard(res, "initialization", promise=True):
            check_initialization(ctx, res, drv, rs)
        log = MoveLog(res, table)
        starts = []
        with guard(res, "start-circuits", promise=True):
            starts = start_circuits(ctx, res, rs, 6 if ctx.quick else 12)
        coverage_floor(res, "start-circuits", len(starts), 2 * (6 if ctx.quick else 12), what="start circuits (initialization + TimeReversedSolver)")
        t_budget = 80 if ctx.quick else 540
        t0 = time.time()
        for k, (tag, solver, circ) in enumerate(starts):
            # quick: histories of 200 moves; thorough: two histories of 5000 moves, the others 1000
            per = 200 if ctx.quick else (5000 if k in (0, len(starts) // 2) else 600)
            with guard(res, "history", promise=True, input={"start": tag}):
                check_cnot_helpers(res, drv, solver, circ, tag)
                ok = run_history(ctx, res, log, solver, circ, per, rs, tag)
                log.flush(drv)
                if ok:
                    check_cnot_helpers(res, drv, solver, circ, tag + "+history")
                    res.traces_validated += 1
            if res.violations or time.time() - t0 > t_budget:
                break
        # hybrid randomize_circuit
        if not res.violations:
            with guard(res, "solver:solve", promise=True):
                check_solver_runs(ctx, res, log, rs)
            log.flush(drv)
        # exhaustive candidate enumeration on small solver circuits
        if not res.violations:
            graphs = [nx.path_graph(2), nx.path_graph(3), nx.complete_graph(3)] if ctx.quick else \
                [g for n in (2, 3, 4) for g in nx.graph_atlas_g() if g.number_of_nodes() == n and nx.is_connected(g)]
            t_exh = time.time()
            budget_exh = 40 if ctx.quick else 420
            done_exh = 0
            for g in graphs:
                if time.time() - t_exh > budget_exh:
                    break
                try:
                    circ, n_e = trs_circuit(g)
                except Exception as e:  # noqa: BLE001 — path / complete / atlas graphs are connected: the solver has a circuit
                    res.violation(f"solver:time-reversed:raises:{err_class(e)}", "TimeReversedSolver returns a circuit for every connected target graph",
                                  input={"fn": "TimeReversedSolver", "edges": sorted(g.edges()), "n": g.number_of_nodes()}, impl=f"{type(e).__name__}: {e}"[:300])
                    continue
                with guard(res, "exhaustive-candidates", promise=True, input={"start": f"trs:{sorted(g.edges())}"}):
                    exhaustive_candidates(ctx, res, drv, table, make_solver(g.number_of_nodes(), n_e), circ, f"trs:{sorted(g.edges())}",
                                          1 if ctx.quick else 2, rs, [0, 5] if ctx.quick else [0, 5, 23])
                    done_exh += 1
            for (n_p, n_e) in ([(2, 1), (2, 2)] if ctx.quick else [(1, 1), (2, 1), (2, 2), (3, 2), (3, 3)]):
                with guard(res, "exhaustive-candidates", promise=True, input={"start": f"init:np={n_p}:ne={n_e}"}):
                    solver = make_solver(n_p, n_e)
                    for ea in itertools.product(range(n_e), repeat=n_p):
                        if ea[0] != 0 or time.time() - t_exh > budget_exh:
                            continue
                        ma = [ctx.rng.randrange(n_p) for _ in range(n_e)]
                        circ = solver.initialization(list(ea), ma)
                        exhaustive_candidates(ctx, res, drv, table, solver, circ, f"init:{ea}:{ma}", 1 if ctx.quick else 2, rs, [0, 13])
                        done_exh += 1
            res.notes.append(f"exhaustive candidate enumeration ({1 if ctx.quick else 2} move(s) deep) completed on {done_exh} initial circuits "
                             f"({len(graphs)} solver graphs of <= {3 if ctx.quick else 4} vertices planned) within {budget_exh}s")
        if not res.violations:
            with guard(res, "builds", promise=True):
                check_builds(ctx, res, drv)
        if not res.violations:
            with guard(res, "solver:alternate-target", promise=True):
                check_alternate_target(ctx, res)
    finally:
        res.extra["driver_lines"] = drv.n_lines
        drv.close()
    return res


def search(ctx, res, proof_broken):
    """the proof or the correspondence broke without an oracle failure: a larger, oracle-only sample"""
    rs = np.random.RandomState(ctx.rng.getrandbits(31))

    class NoLog:
        def add(self, *a, **k):
            return None

    starts = start_circuits(ctx, res, rs, 10)
    for tag, solver, circ in starts:
        run_history(ctx, res, NoLog(), solver, circ, 400, rs, tag)
        if res.violations:
            return


def replay(ctx, data):
    """re-evaluate the oracle on the stored case: the stored before-circuit is rebuilt through the public API and every
    candidate of the stored transformation is tried"""
    v = data.get("violation") or {}
    inp = v.get("input") or {}
    res = Result()
    rs = np.random.RandomState(1)
    if inp.get("fn") == "get_emission_assignment":
        from graphiq.solvers.evolutionary_solver import EvolutionarySolver

        with RngPatch(None, randint_script=list(inp["draws"]) + [0] * 64):
            out = EvolutionarySolver.get_emission_assignment(inp["np"], inp["ne"])
        return len(out) == inp["np"] and all(0 <= x < inp["ne"] for x in out)
    if inp.get("fn") == "initialization":
        circ = make_solver(len(inp["ea"]), len(inp["ma"])).initialization(inp["ea"], inp["ma"])
        return oracle(res, circ, None, "init", inp)
    if inp.get("fn") == "TimeReversedSolver":
        g = nx.Graph()
        g.add_nodes_from(range(inp["n"]))
        g.add_edges_from(inp["edges"])
        circ, _ = trs_circuit(g)
        return oracle(res, circ, None, "solver:time-reversed", inp)
    if "before" in inp and "t" in inp:
        toks = dict(t.split("=", 1) for t in inp["before"].split(" "))
        snap = wu.decode(toks)
        circ = wu.build(snap)
        solver = make_solver(snap["np"], snap["ne"])
        anchors = wu.fixed_anchor(circ)
        idx, n_impl = 0, None
        while n_impl is None or idx < n_impl:
            for g in (0, 5, 13, 23):
                cp = circ.copy()
                patch = RngPatch(rs, randint_script=[idx], choice_script=[g])
                exc = apply_move(solver, cp, inp["t"], patch)
                first = [c for c in patch.calls if c[0] == "randint"]
                n_impl = first[0][1] if first else 0
                if exc is not None or not oracle(res, cp, anchors, "move:" + inp["t"], inp):
                    print("replay: fails with candidate index", idx, "Clifford", g, res.violations[-1:] or exc)
                    return False
            idx += 1
        return True
    return None
