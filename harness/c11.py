"""
C11 — the synthesised inverse circuit prepares exactly the given stabilizer state.

Correspondence: `inverse_circuit`, `canonical_form`, `clifford_from_stabilizer`, `get_clifford_tableau_from_graph` are run on
the real implementation and on the Lean model (`stab.inv`, `stab.canon`, `stab.cliff`) and compared exactly (tableau and gate list).
Completeness ("always ends in |0..0>", graphiq 74abae4) is a Lean theorem for every n (`C11.inverse_circuit_complete`); the run still
evaluates it on every input, on the implementation's result and on the model's (`zero=`), as a regression.
Direct oracle: (a) the tableau returned by `inverse_circuit` is |0..0> with all signs +; (b) the returned gate list, executed by the
*verified* gate semantics of the model (`stab.runtab rev=1`, gates proved to be Pauli-group automorphisms with the textbook generator
images) backwards from |0..0>, yields a valid Clifford tableau whose signed stabilizer group equals the input's (compared with an
independent Python canonicaliser; for n <= 5 additionally against a dense simulation of the gate list); (c) the Clifford tableaux
built by `clifford_from_stabilizer` / `get_clifford_tableau_from_graph` are valid and represent the same state.
"""
import os

import numpy as np

from harness import stabutil as su
from harness import tabutil as tu
from harness.common import Driver, Result, err_class, impl_guard

LEVEL = "proof"
TRUSTED_BASE = [
    "Lean 4.33 kernel",
    "hand-written model GraphiqModel/Model/StabTableau.lean tied to stabilizer.py/rep_conversion.py by this correspondence run",
    "completeness of the synthesis IS a theorem (C11.inverse_circuit_complete / inverse_circuit_ends_in_zero, all n): it speaks about the model; `isZero` is still evaluated on the implementation's result (oracle a) and on the model's (`zero=`) for every input as a regression of the correspondence",
    "harness, line protocol, independent Python canonicaliser and dense simulator",
]
ASSUMPTIONS = ["inputs are stabilizer tableaux of pure states (n independent commuting generators); dependent generators are the malformed stream"]

# regression input: the smallest witness of D42 (found by this harness, repaired in graphiq 74abae4): 5 qubits, generators
# -XIYXI, -IXXZZ, IIZZX, -ZIIZI, IZZZI; before the repair the returned tableau was not |0..0>; it must pass like any other input
D42_WITNESS = "n=5 x=1011001100000010000000000 z=0010000011001101001001110 r=11010"

DENSE_GATE = {"H": tu.H, "P": tu.S, "P_dag": tu.S.conj().T, "X": tu.X, "Y": tu.Y, "Z": tu.Z}


class LineCov:
    """Line coverage of the *real* functions (no hook in /repo: a `sys.settrace` collector that follows only the given code objects).
    `hits` = executed line numbers of the last `with` block per function; `total` accumulates over the run.  It is used to record which
    branches of `inverse_circuit` / `canonical_form` / `inner_product` the generated inputs reach (evidence `branches`) and to list
    the lines no input reached."""

    def __init__(self, *funcs):
        import inspect

        self.codes = {f.__code__: f.__name__ for f in funcs}
        self.src = {}
        for f in funcs:
            lines, first = inspect.getsourcelines(f)
            self.src[f.__code__] = (lines, first)
        self.total = {c: set() for c in self.codes}
        self.hits = {c: set() for c in self.codes}

    def __enter__(self):
        import sys

        self.prev = sys.gettrace()
        self.hits = {c: set() for c in self.codes}
        hits, codes = self.hits, self.codes

        def local(frame, event, arg):
            if event == "line":
                hits[frame.f_code].add(frame.f_lineno)
            return local

        def glob(frame, event, arg):
            return local if frame.f_code in codes else None

        sys.settrace(glob)
        return self

    def __exit__(self, *exc):
        import sys

        sys.settrace(self.prev)
        for c, h in self.hits.items():
            self.total[c] |= h
        return False

    def label(self, code, ln):
        lines, first = self.src[code]
        return f"{self.codes[code]}:+{ln - first}:{lines[ln - first].strip()[:56]}"

    def labels(self):
        return [self.label(c, ln) for c, h in self.hits.items() for ln in sorted(h)]

    def unreached(self):
        out = []
        for c in self.codes:
            allc = {ln for (_, _, ln) in c.co_lines() if ln is not None and ln != c.co_firstlineno}
            lines, first = self.src[c]
            for ln in sorted(allc - self.total[c]):
                txt = lines[ln - first].strip()
                if txt and not txt.startswith(('"""', "#", ":", "'")):
                    out.append(self.label(c, ln))
        return out


COV = None  # created in run(): LineCov over inverse_circuit and canonical_form of the implementation under test


def dense_run(rho, n, circ):
    for g in circ:
        if g[0] in DENSE_GATE:
            u = tu.op_on(n, g[1], DENSE_GATE[g[0]])
        elif g[0] == "CNOT":
            u = tu.cnot_matrix(n, g[1], g[2])
        elif g[0] == "CZ":
            u = tu.cz_matrix(n, g[1], g[2])
        elif g[0] == "I":
            continue
        else:
            raise ValueError(g)
        rho = tu.conj(u, rho)
    return rho



def low_x_rank_state(rng, n):
    """a state whose X block has low rank (few Hadamards, then only CNOT/CZ/P): many generators are pure Z strings, so the
    `z_list` branch of the first Hadamard block of inverse_circuit — filtered candidates, `z_list[-1]`, the clearing row sums
    and the Hadamard decision, i.e. the code repaired in graphiq 74abae4 — runs on most columns (generic random states almost
    never reach it); Z pivots may sit on X-pivot columns (Bell pair XX, ZZ)"""
    from graphiq.backends.stabilizer.clifford_tableau import CliffordTableau
    from graphiq.backends.stabilizer.functions import transformation as tr

    t = CliffordTableau(n)
    for q in rng.sample(range(n), rng.randrange(0, n // 2 + 1)):
        t = tr.hadamard_gate(t, q)
    for _ in range(3 * n + 3):
        k = rng.randrange(3 if n > 1 else 1)
        a = rng.randrange(n)
        if k == 0:
            t = tr.phase_gate(t, a)
        else:
            b = rng.randrange(n - 1)
            b = b if b < a else b + 1
            t = tr.cnot_gate(t, a, b) if k == 1 else tr.control_z_gate(t, a, b)
    t.phase = np.array([rng.randrange(2) for _ in range(2 * n)], dtype=int)
    return su.regauge_clifford(t, rng)


def check_one(res, drv, st, tag, pending):
    """st: StabilizerTableau (valid input). Queues the model requests; returns nothing"""
    from graphiq.backends.stabilizer.functions import rep_conversion as rc
    from graphiq.backends.stabilizer.functions import stabilizer as sfs

    inp = {"stab": su.stab_args(st), "case": tag}
    want = su.stab_canon_of(st)
    n = st.n_qubits
    res.evaluations += 1
    res.count("sizes", f"n={n}" if n <= 6 else ("n<=20" if n <= 20 else "n>20"))
    try:
        if COV is not None and n <= 24:
            with COV:
                tab0, circ = sfs.inverse_circuit(st.copy())
            res.branch(COV.labels())
        else:
            tab0, circ = sfs.inverse_circuit(st.copy())
        err = None
    except Exception as e:  # noqa: BLE001
        err = err_class(e)
        tab0, circ = None, None
    if err is not None:
        res.violation(f"inverse_circuit:raises:{err}", "inverse_circuit raised on a valid stabilizer tableau", input=inp)
        return
    try:
        circ = [tuple(int(a) if not isinstance(a, str) else a for a in g) for g in circ]
        t = np.asarray(tab0.table).astype(int)
        np.asarray(tab0.phase)
        unknown = [g for g in circ if g[0] not in DENSE_GATE and g[0] not in ("CNOT", "CZ", "I")]
    except Exception as e:  # noqa: BLE001 — not (tableau, list of gate tuples)
        res.violation("inverse_circuit:malformed-result", f"inverse_circuit must return (tableau, list of gate tuples): {err_class(e)}", input=inp)
        return
    if unknown:
        # a gate name outside the documented alphabet: neither the dense reference nor the verified semantics can run it
        res.violation("inverse_circuit:unknown-gate", f"the returned gate list contains {unknown[0]!r}", input=inp, circ=str(circ)[:300])
        return
    fails = []  # (key, clause, extra) found on the implementation; reported in flush() once the model's verdict is known
    # (a) ends in |0..0> with positive signs
    if not (np.array_equal(t[:, :n], np.zeros((n, n), dtype=int)) and np.array_equal(t[:, n:], np.eye(n, dtype=int)) and not np.any(tab0.phase)):
        fails.append(("inverse_circuit:not-zero-state", "the tableau returned by inverse_circuit is not |0..0> with all signs positive",
                      dict(impl=su.stab_args(tab0), circ=su.circ_token(circ))))
    # (b') dense check of the gate list for small n
    if n <= 5:
        rho0 = np.zeros((2 ** n, 2 ** n), dtype=complex)
        rho0[0, 0] = 1
        rho = dense_run(su.dense_rho_stab(st), n, circ)
        if not np.allclose(rho, rho0, atol=1e-9):
            fails.append(("inverse_circuit:wrong-circuit", "the returned gate list does not map the state to |0..0> (dense simulation)",
                          dict(circ=su.circ_token(circ))))
    # (c) Clifford tableau from the stabilizer tableau
    try:
        ct = rc.clifford_from_stabilizer(st.copy())
        if not (tu.is_binary(ct) and tu.is_valid(ct)):
            fails.append(("clifford_from_stabilizer:invalid", "clifford_from_stabilizer returned an invalid tableau", dict(impl=tu.tab_args(ct))))
        elif tu.stab_canon(ct) != want:
            fails.append(("clifford_from_stabilizer:wrong-state", "clifford_from_stabilizer does not represent the given state", dict(impl=tu.tab_args(ct))))
    except Exception as e:  # noqa: BLE001
        fails.append((f"clifford_from_stabilizer:raises:{err_class(e)}", "clifford_from_stabilizer raised", {}))
        ct = None
    lines = [f"stab.inv {su.stab_args(st)}",
             f"stab.runtab {tu.tab_args(_ket0(n))} circ={su.circ_token(circ)} rev=1",
             f"stab.cliff {su.stab_args(st)}"]
    pending.append((lines, inp, want, tab0, circ, ct, fails))


def stab_of_args(text):
    from graphiq.backends.stabilizer.tableau import StabilizerTableau

    kv = dict(t.split("=", 1) for t in text.split())
    n = int(kv["n"])
    return StabilizerTableau([tu.unbits(kv["x"], (n, n)), tu.unbits(kv["z"], (n, n))], tu.unbits(kv["r"], (n,)))


def _ket0(n):
    from graphiq.backends.stabilizer.clifford_tableau import CliffordTableau

    return CliffordTableau(n)


def flush(res, drv, pending):
    lines = [ln for p in pending for ln in p[0]]
    reps = drv.batch(lines)
    k = 0
    for (ls, inp, want, tab0, circ, ct, fails) in pending:
        r_inv, r_run, r_cl = reps[k], reps[k + 1], reps[k + 2]
        k += 3
        nontriv = any(c == "1" for c in inp["stab"].split(" r=")[1]) or True
        if nontriv:
            res.nontrivial(inp["stab"])
        # exact correspondence of inverse_circuit
        if r_inv["_status"] != "ok":
            res.exact_break("stab.inv:error-class", input=inp, impl="ok", model=r_inv["_raw"][:300])
        else:
            if su.reply_stab_tuple(r_inv) != su.stab_tuple(tab0) or r_inv.get("circ") != su.circ_token(circ):
                res.exact_break("stab.inv", input=inp, impl=su.stab_args(tab0) + " circ=" + su.circ_token(circ), model=r_inv["_raw"][:1500])
            if r_inv.get("zero") != "1":
                # the compiled model did not end in |0..0> on a valid state: contradicts the theorem `C11.inverse_circuit_complete`
                # (so the compiled code and the kernel definitions differ, or the input was not a valid state)
                res.exact_break("stab.inv:model-not-zero", input=inp, impl="valid state", model=r_inv["_raw"][:600])
        # oracle (b): verified semantics run the implementation's gate list backwards from |0..0>
        if r_run["_status"] != "ok" or r_run.get("valid") != "1":
            fails.append(("inverse_circuit:reverse-run-invalid", "running the returned gate list backwards (verified semantics) fails or gives an invalid tableau",
                          dict(circ=su.circ_token(circ), model=r_run["_raw"][:300])))
        elif tu.canon_from_reply(r_run) != want:
            fails.append(("inverse_circuit:reverse-run-wrong-state", "running the returned gate list backwards from |0..0> (verified semantics) does not reproduce the state",
                          dict(circ=su.circ_token(circ), model=r_run["_raw"][:600])))
        else:
            res.traces_validated += 1
        # D42 (repaired in graphiq 74abae4) used to be routed to a known finding here; every failure of the oracle is now an
        # ordinary violation under its own key
        for key, clause, extra in fails:
            res.violation(key, clause, input=inp, **extra)
        # exact correspondence of clifford_from_stabilizer
        if ct is not None and r_cl["_status"] == "ok":
            if tu.reply_tuple(r_cl) != tu.tab_tuple(ct):
                res.exact_break("stab.cliff", input=inp, impl=tu.tab_args(ct), model=r_cl["_raw"][:1500])
        elif ct is not None:
            res.exact_break("stab.cliff:error-class", input=inp, impl="ok", model=r_cl["_raw"][:300])
    pending.clear()


def malformed(res, drv, rng, count):
    """dependent / non-commuting generator sets: model and implementation must agree on ok vs error class"""
    from graphiq.backends.stabilizer.functions import stabilizer as sfs
    from graphiq.backends.stabilizer.tableau import StabilizerTableau

    lines, impls, inps = [], [], []
    for _ in range(count):
        n = rng.randrange(1, 5)
        st = su.random_state(rng, n).to_stabilizer()
        t = np.asarray(st.table).copy()
        if n >= 2 and rng.random() < 0.7:
            i, j = rng.sample(range(n), 2)
            t[i] = t[j]  # dependent generators
        else:
            t[rng.randrange(n)] = 0  # identity generator
        bad = StabilizerTableau(t, st.phase)
        try:
            tab0, circ = sfs.inverse_circuit(bad.copy())
            impl = "ok"
        except Exception as e:  # noqa: BLE001
            impl = "err " + err_class(e)
        res.evaluations += 1
        res.count("errors", impl)
        lines.append(f"stab.inv {su.stab_args(bad)}")
        impls.append(impl)
        inps.append(su.stab_args(bad))
    for rep, impl, inp in zip(drv.batch(lines), impls, inps):
        got = "ok" if rep["_status"] == "ok" else "err " + rep.get("_err", "")
        if got != impl:
            res.exact_break("stab.inv:error-class", input=inp, impl=impl, model=rep["_raw"][:200])


def graph_cases(res, drv, rng, graphs):
    import networkx as nx
    from graphiq.backends.stabilizer.functions import rep_conversion as rc

    lines, items = [], []
    for g in graphs:
        n = g.number_of_nodes()
        inp = {"graph_edges": sorted(map(tuple, map(sorted, g.edges()))), "n": n, "node_order": list(g.nodes())}
        res.evaluations += 1
        try:
            ct = rc.get_clifford_tableau_from_graph(g)
        except Exception as e:  # noqa: BLE001
            res.violation(f"get_clifford_tableau_from_graph:raises:{err_class(e)}", "raised on a graph", input=inp)
            continue
        # convention of the whole library: qubit k is the k-th node of the graph object (networkx insertion order)
        adj = nx.to_numpy_array(g, nodelist=list(g.nodes())).astype(int)
        want = tu.span_canon(np.eye(n, dtype=int), adj, np.zeros(n, dtype=int))
        rho_other = None
        if n <= 5:
            # … and graph_to_density, which builds the state independently (CZ per edge), must describe the same state
            from graphiq.backends.state_rep_conversion import graph_to_density

            try:
                rho_other = np.asarray(graph_to_density(g))
                if tu.is_binary(ct) and tu.is_valid(ct) and (np.shape(rho_other) != (2 ** n, 2 ** n) or not np.allclose(tu.dense_rho(ct), rho_other, atol=1e-8)):
                    res.violation("get_clifford_tableau_from_graph:disagrees-with-graph_to_density",
                                  "the Clifford tableau of a graph and graph_to_density of the same graph object describe different states", input=inp)
            except Exception as e:  # noqa: BLE001 — was `pass`: graph_to_density raising on a valid graph went unreported and uncounted
                res.count("errors", f"graph_to_density:{err_class(e)}")
                res.violation(f"graph_to_density:raises:{err_class(e)}", "graph_to_density raised on a valid graph", input=inp, impl=repr(e)[:200])
        if not (tu.is_binary(ct) and tu.is_valid(ct)):
            res.violation("get_clifford_tableau_from_graph:invalid", "invalid tableau for a graph", input=inp, impl=tu.tab_args(ct))
        elif tu.stab_canon(ct) != want:
            res.violation("get_clifford_tableau_from_graph:wrong-state", "the tableau does not represent the graph state", input=inp, impl=tu.tab_args(ct))
        try:
            st = rc.get_stabilizer_tableau_from_graph(g)
        except Exception as e:  # noqa: BLE001
            res.violation(f"get_stabilizer_tableau_from_graph:raises:{err_class(e)}", "raised on a graph", input=inp)
            continue
        # the theorems `C11.clifford_tableau_from_graph_exact` / `inverse_circuit_on_graph_state` pin the model's output on simple
        # graphs down completely: destabilizers Z_i, stabilizers X_i Z_N(i), all signs +, from the circuit "CZ per edge j<k, then H
        # on every qubit".  The implementation must agree (a correspondence matter, not the property: the property only asks for
        # *a* valid tableau of the graph state)
        if not any(adj[i, i] for i in range(n)):
            t_exp = np.block([[np.zeros((n, n), dtype=int), np.eye(n, dtype=int)], [np.eye(n, dtype=int), adj]])
            if tu.is_binary(ct) and (not np.array_equal(np.asarray(ct.table).astype(int), t_exp) or np.any(ct.phase)):
                res.exact_break("graph:textbook-tableau", input=inp, impl=tu.tab_args(ct), model="[Z_i | X_i Z_N(i)], signs +")
            from graphiq.backends.stabilizer.functions import stabilizer as sfs_g

            circ_exp = [("CZ", j, k) for j in range(n) for k in range(j + 1, n) if adj[j, k]] + [("H", j) for j in range(n)]
            try:
                _, circ_g = sfs_g.inverse_circuit(st.copy())
                circ_g = [tuple(int(a) if not isinstance(a, str) else a for a in x) for x in circ_g]
            except Exception as e:  # noqa: BLE001
                circ_g = None
                res.violation(f"inverse_circuit:raises:{err_class(e)}", "inverse_circuit raised on the stabilizer tableau of a graph state", input=inp)
            if circ_g is not None and circ_g != circ_exp:
                res.exact_break("graph:textbook-circuit", input=inp, impl=su.circ_token(circ_g), model=su.circ_token(circ_exp))
        lines.append(f"stab.cliff {su.stab_args(st)}")
        items.append((inp, ct))
        res.nontrivial("graph", tuple(inp["graph_edges"]), n)
    for rep, (inp, ct) in zip(drv.batch(lines), items):
        if rep["_status"] != "ok" or tu.reply_tuple(rep) != tu.tab_tuple(ct):
            res.exact_break("stab.cliff(graph)", input=inp, impl=tu.tab_args(ct), model=rep["_raw"][:1500])


def all_graphs(n):
    import itertools

    import networkx as nx

    pairs = list(itertools.combinations(range(n), 2))
    for mask in range(1 << len(pairs)):
        g = nx.Graph()
        g.add_nodes_from(range(n))
        g.add_edges_from(p for i, p in enumerate(pairs) if mask >> i & 1)
        yield g


def run(ctx, budget=1.0):
    import networkx as nx

    res = Result()
    res.rule = ("one evaluation = one stabilizer tableau (a state in one generating set) pushed through inverse_circuit, the reverse run and "
                "clifford_from_stabilizer, or one graph through get_clifford_tableau_from_graph; distinct by the full generator matrix with signs; "
                "every state is re-gauged so Y pivots, sign bits and non-canonical generator orders occur")
    drv = Driver()
    rng = ctx.rng
    pending = []
    global COV
    from graphiq.backends.stabilizer.functions import stabilizer as sfs_cov

    try:
        COV = LineCov(sfs_cov.inverse_circuit, sfs_cov.canonical_form)
    except Exception as e:  # noqa: BLE001 — coverage is an observation (a decorated / compiled function has no source lines): never a crash
        COV = None
        res.notes.append(f"line coverage of the real functions not available ({type(e).__name__}: {e})"[:200])
    # every stream runs under common.impl_guard: the generators (su.all_states, regauge_*, random_state, low_x_rank_state, to_stabilizer) call
    # graphiq outside the `try` of check_one; an exception there is reported (exit 1) instead of ending run() as exit 2
    with impl_guard(res, "inverse_circuit:corpus", promise=True):
        # corpus first: the witness of the repaired D42 (regression input, no special treatment)
        check_one(res, drv, stab_of_args(D42_WITNESS), "corpus:D42", pending)
        flush(res, drv, pending)
    # exhaustive small: all states n<=2 (quick) / n<=3 (thorough), several generating sets each
    nmax_ex = 2 if ctx.quick else 3
    regs = 3 if ctx.quick else 8
    with impl_guard(res, "inverse_circuit:all-states", promise=True):
        for n in range(1, nmax_ex + 1):
            pool = su.all_states(n)
            if len(pool) != {1: 6, 2: 60, 3: 1080}[n] or not all(tu.is_valid(t) for t in pool):
                # enumerated with graphiq's own gate functions: a changed gate would silently shrink the "all states" stream
                res.exact_break(f"coverage collapsed: all_states({n})", input={"n": n}, impl=f"{len(pool)} states enumerated through hadamard_gate / phase_gate / cnot_gate",
                                model=f"{ {1: 6, 2: 60, 3: 1080}[n]} stabilizer states, all symplectic")
            for t in pool:
                for k in range(regs):
                    st = su.regauge_clifford(t, rng).to_stabilizer()
                    if rng.random() < 0.5:
                        st = su.regauge_stab(st, rng)
                    check_one(res, drv, st, f"all-states-n{n}", pending)
            flush(res, drv, pending)
        if ctx.quick:
            for t in rng.sample(su.all_states(3), 150):
                check_one(res, drv, su.regauge_clifford(t, rng).to_stabilizer(), "sample-n3", pending)
            flush(res, drv, pending)
    with impl_guard(res, "inverse_circuit:random", promise=True):
        # random larger
        sizes = [rng.randrange(4, 9) for _ in range(int(60 * budget))] + [rng.randrange(9, 25) for _ in range(int(20 * budget))]
        if not ctx.quick:
            sizes += [rng.randrange(4, 12) for _ in range(400)] + [rng.randrange(12, 40) for _ in range(60)] + [60, 60]
        for n in sizes:
            check_one(res, drv, su.random_state(rng, n).to_stabilizer(), "random", pending)
            if len(pending) >= 40:
                flush(res, drv, pending)
        flush(res, drv, pending)
    with impl_guard(res, "inverse_circuit:low-x-rank", promise=True):
        # low X rank: the z_list branch of the first Hadamard block (the code of the D42 repair) on most columns
        for n in [rng.randrange(2, 10) for _ in range(int((120 if ctx.quick else 1500) * budget))] + [rng.randrange(10, 25) for _ in range(int((15 if ctx.quick else 100) * budget))]:
            check_one(res, drv, low_x_rank_state(rng, n).to_stabilizer(), "low-x-rank", pending)
            if len(pending) >= 40:
                flush(res, drv, pending)
        flush(res, drv, pending)
    # graphs
    graphs = [g for n in range(1, 5 if ctx.quick else 6) for g in all_graphs(n)]
    if not ctx.quick:
        graphs += [nx.gnp_random_graph(6, rng.random(), seed=rng.getrandbits(30)) for _ in range(300)]
    graphs += [nx.gnp_random_graph(rng.randrange(5, 12), rng.random(), seed=rng.getrandbits(30)) for _ in range(40)]
    # the same graphs as objects whose node insertion order differs from the sorted order of the labels
    scr = []
    for g in graphs[:: (3 if ctx.quick else 1)]:
        n = g.number_of_nodes()
        if n >= 3 and g.number_of_edges() > 0:
            order = rng.sample(range(n), n)
            h = nx.Graph()
            h.add_nodes_from(order)
            h.add_edges_from(g.edges())
            scr.append(h)
    graphs += scr
    with impl_guard(res, "graph-tableaux", promise=True):
        graph_cases(res, drv, rng, graphs)
    with impl_guard(res, "malformed"):
        malformed(res, drv, rng, 40)
    res.exhaustive = (not ctx.quick) and not res.extra.get("streams_aborted")
    res.notes.append(f"exhaustive over all stabilizer states for n<={nmax_ex} (x{regs} generating sets each) and all graphs on <= {4 if ctx.quick else 5} vertices")
    res.extra["driver_lines"] = drv.n_lines
    unreached = COV.unreached() if COV is not None else ["(line coverage not available)"]
    res.extra["unreached_lines"] = unreached
    res.notes.append("line coverage of the real inverse_circuit/canonical_form (sys.settrace, n<=24): per-line hit counts in `branches`; "
                     + ("every line was reached" if not unreached else "lines no generated input reached: " + " | ".join(unreached)))
    COV = None
    drv.close()
    return res


def search(ctx, res, proof_broken):
    drv = Driver()
    pending = []
    for n in (1, 2, 3):
        for t in su.all_states(n):
            for _ in range(4):
                check_one(res, drv, su.regauge_clifford(t, ctx.rng).to_stabilizer(), f"search-n{n}", pending)
        flush(res, drv, pending)
        if res.violations:
            break
    # a pivot-choice slip of inverse_circuit can agree with the property on every state of <= 4 qubits and fail on about one
    # random state in a thousand from n = 5 on (seed C11-r3m1: unfiltered z_list[0]): when the correspondence is broken and the
    # small states all pass, keep drawing larger states (generic and low-X-rank, re-gauged) until the oracle fails or the budget ends
    big = int(os.environ.get("VERIF_C11_SEARCH", "6000"))
    k = 0
    while not res.violations and k < big:
        for _ in range(250):
            n = ctx.rng.randrange(4, 9)
            mk = low_x_rank_state if k % 2 else su.random_state
            with impl_guard(res, "inverse_circuit:search-big", promise=True):
                st = mk(ctx.rng, n).to_stabilizer()
                if k % 3 == 0:
                    st = su.regauge_stab(st, ctx.rng)
                check_one(res, drv, st, f"search-big-n{n}", pending)
            k += 1
        flush(res, drv, pending)
    drv.close()


def replay(ctx, data):
    v = data.get("violation") or {}
    inp = v.get("input") or {}
    if "stab" not in inp:
        return None
    st = stab_of_args(inp["stab"])
    res = Result()
    drv = Driver()
    pending = []
    check_one(res, drv, st, "replay", pending)
    flush(res, drv, pending)
    drv.close()
    for x in res.violations:
        print(x["key"], x["clause"])
    return not res.violations
