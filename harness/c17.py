"""
C17 — density-matrix fidelity, trace distance and partial trace are computed correctly; Infidelity agrees across
representations.

Correspondence (exact rational model, tolerance 1e-9 on the float side):
  * `partial_trace(rho, keep, dims)` on entangled rational states for *every* non-empty subset (n <= 4 qubits exhaustively,
    plus non-qubit dimension lists) against the model's string construction + mini-einsum;
  * `fidelity`: branch taken (pure shortcut / Uhlmann / AssertionError) and, on the pure branch, the value; on commuting
    mixed pairs with rational fidelity (eigenvalues k_i^2/S rotated by random Cliffords) the value of the Uhlmann branch and
    of `trace_distance` against the model's closed forms;
  * `Infidelity.evaluate` in the representation combinations (s,s), (dm,dm), (dm target, s state).
Direct oracle (independent of the model and of graphiq's helpers): textbook partial trace by explicit index loops;
symmetry, range, F(rho,rho)=1, Re tr(rho sigma) on pure pairs, Uhlmann fidelity through singular values, trace distance
through singular values, metric axioms on triples, Fuchs-van de Graaf; overlap of stabilizer states through an own
stabilizer->matrix converter that honours the signs.
NON-COMMUTING MIXED PAIRS: the model has no exact value (irrational spectra); on them only the direct oracle runs — this
is testing, not proof, and is labelled partial in the manifest and the evidence.
"""
import copy
import itertools
import math
from fractions import Fraction as Fr

import numpy as np

from harness import dmutil as du
from harness import tabutil as tu
from harness.common import Driver, Result, err_class, impl_guard

LEVEL = "proof"
TRUSTED_BASE = [
    "Lean 4.33 kernel",
    "hand-written model GraphiqModel/Model/{Gauss,DMSem}.lean tied to density_matrix/functions.py, metrics.py, state_rep_conversion.py by this correspondence run",
    "numpy.einsum semantics as specified by the model's mini-einsum (checked on every observed call against explicit loops)",
    "for commuting pairs rho = U diag(p) U†, sigma = U diag(q) U† the Uhlmann fidelity is (sum sqrt(p_i q_i))^2 and the trace distance "
    "is 1/2 sum |p_i - q_i|: PROVED (C17.commuting_closed_forms_are_uhlmann_and_trace_distance, Mathlib CFC.sqrt), as are range, F=1 iff p=q, metric and Fuchs-van de Graaf of the closed forms",
    "PARTIAL: Uhlmann fidelity / trace distance of non-commuting mixed pairs are evaluated by the direct oracle only (numpy SVD reference), not proved",
    "sfm.fidelity (stabilizer inner product) is C05's subject; its specification stabOverlap = tr(rho_a rho_b) used here is PROVED equal to the value C05's model of inner_product reports (C17.stab_overlap_is_stabilizer_fidelity) and is still checked on every observed call",
    "that the exact matrix of every valid tableau passes is_density_matrix / is_pure and that the overlap lies in [0,1] are theorems now (C17.stabilizer_density_is_pure_density_matrix, stab_overlap_in_unit_interval), no longer hypotheses; the driver still evaluates them on every input",
    "harness, line protocol, numpy reference routines",
]
ASSUMPTIONS = [
    "inputs are exactly Hermitian rational matrices; purity either exactly 1 or <= 1 - 1e-6",
    "negative / non-integer `keep` entries (numpy wrap-around) are outside the quantifier",
    "eigen-solver and Cholesky rounding (is_psd, sqrtm_psd, eigh) cannot be exhibited by the exact model",
]

def _g(fn):
    return du.guarded(fn)


F_D9 = "stabilizer_to_density:nonzero-signs"
F_NEARPURE = "fidelity:near-pure-shortcut"


def dmf():
    import graphiq.backends.density_matrix.functions as f

    return f


# ------------------------------------------------------------------------------------------------------ partial trace
def subsets(n):
    for r in range(1, n + 1):
        for c in itertools.combinations(range(n), r):
            yield list(c)


@_g
def check_ptrace(res, drv, rho_x, keep, dims, tag):
    f = dmf()
    rho = rho_x.to_complex()
    line = f"dm.ptrace {rho_x.args()} dims={','.join(map(str, dims))} keep={','.join(map(str, keep)) or '-'}"
    rep = drv.ask(line)
    res.evaluations += 1
    res.sample(line[:300] + " -> " + rep["_raw"][:120])
    inp = dict(tag=tag, dims=dims, keep=keep, rho=rho_x.args())
    try:
        out = f.partial_trace(rho.copy(), keep, dims)
        err = None
    except Exception as e:  # noqa: BLE001
        out, err = None, err_class(e)
    if err is not None:
        res.count("errors", f"partial_trace:{err}")
        if rep["_status"] != "err" or rep.get("_err") != err:
            res.exact_break("partial_trace:error-class", input=inp, impl=err, model=rep["_raw"][:200])
        return
    ref = du.textbook_partial_trace(rho, keep, dims)
    # the property speaks of *subsets*: an unsorted `keep` is compared with the model only (the code ignores the order of `keep`)
    if keep == sorted(set(keep)) and not du.mat_close(out, ref):
        res.violation("partial_trace:not-reduced-state", "partial_trace differs from the textbook reduced state sum_b rho[(a,b),(a',b)]",
                      input=inp, impl=str(np.round(out, 6).tolist())[:300], expected=str(np.round(ref, 6).tolist())[:300])
    if rep["_status"] != "ok":
        res.exact_break("partial_trace:error-class", input=inp, impl="ok", model=rep["_raw"][:200])
        return
    if not du.mat_close(out, du.parse_mat(rep).to_complex()):
        res.exact_break("partial_trace:value", input=inp, impl=str(np.round(out, 6).tolist())[:300], model=rep["m"][:300])
    # the same call through DensityMatrix.partial_trace / QuantumState.partial_trace (argument plumbing)
    if tag == "all-subsets" and abs(np.trace(rho).real - 1) < 1e-9 and du.min_eig(rho) > -1e-12:
        from graphiq.state import QuantumState

        try:
            qs = QuantumState(rho.copy(), rep_type="dm")
            qs.partial_trace(keep, dims)
            via = np.asarray(qs.rep_data.data)
            res.evaluations += 1
            if not du.mat_close(via, ref, 1e-9):
                res.violation("partial_trace:wrapper", "QuantumState.partial_trace differs from the textbook reduced state", input=inp)
        except Exception as e:  # noqa: BLE001
            res.violation("partial_trace:wrapper", "QuantumState.partial_trace raised on a valid call", input=inp, error=repr(e)[:200])
    res.branch([f"ptrace:keep{len(keep)}of{len(dims)}"])
    res.count("sizes", f"dims={'x'.join(map(str, dims))}")
    res.nontrivial("pt", rho_x.key(), tuple(keep), tuple(dims))


# ------------------------------------------------------------------------------------------------------ fidelity etc.
def impl_fid(a, b):
    f = dmf()
    try:
        return float(f.fidelity(a.copy(), b.copy())), None
    except Exception as e:  # noqa: BLE001
        return None, err_class(e)


def purity(x):
    return float(np.trace(x @ x).real)


def uhl_tol(a, b):
    """tolerance for values of the Uhlmann branch: graphiq takes square roots of eigenvalues, so an eigenvalue that is 0 up to rounding
    (1e-16) contributes up to 1e-8 — rank-deficient inputs limit the branch to ~1e-7; full-rank inputs are held to 1e-9"""
    return 1e-9 if min(du.min_eig(a), du.min_eig(b)) > 1e-3 else 1e-6


@_g
def check_pair(res, drv, ax, bx, tag, exact_f=None, exact_t=None):
    """fidelity + trace distance of one pair: correspondence with the model's branch/value and the direct oracle"""
    f = dmf()
    a, b = ax.to_complex(), bx.to_complex()
    inp = dict(tag=tag, a=ax.args("a"), b=bx.args("b"))
    rep = drv.ask(f"dm.fidelity {ax.args('a')} {bx.args('b')}")
    res.evaluations += 1
    v, err = impl_fid(a, b)
    v2, err2 = impl_fid(b, a)
    if err is not None:
        res.count("errors", f"fidelity:{err}")
        if rep["_status"] != "err" or rep.get("_err") != err:
            res.exact_break("fidelity:error-class", input=inp, impl=err, model=rep["_raw"][:200])
        if all(du.mat_close(x, x.conj().T) and du.min_eig(x) >= -1e-12 and abs(np.trace(x).real - 1) <= 1e-9 for x in (a, b)):
            res.violation("fidelity:raises", "fidelity raised on two valid density matrices", input=inp, error=err)
        return
    if rep["_status"] != "ok":
        res.exact_break("fidelity:error-class", input=inp, impl=f"ok {v}", model=rep["_raw"][:200])
        return
    pa, pb = purity(a), purity(b)
    both_mixed = abs(pa - 1) > 1e-9 and abs(pb - 1) > 1e-9      # is_pure: np.allclose(purity, 1, rtol=0, atol=1e-10); inputs are exactly pure or far from it
    tol = uhl_tol(a, b) if both_mixed else 1e-9
    branch = "uhlmann" if "uhlmann" in rep["_raw"].split(" ")[:2] else "pure"
    res.branch([f"fidelity:{branch}:{tag}"])
    res.nontrivial("fid", ax.key(), bx.key())
    # ---- correspondence
    if branch == "pure":
        mv = float(Fr(rep["val"]))
        if abs(mv - v) > 1e-9:
            res.exact_break("fidelity:pure-branch-value", input=inp, impl=v, model=rep["val"])
    if exact_f is not None and abs(float(exact_f) - v) > tol:
        res.exact_break("fidelity:commuting-pair-value", input=inp, impl=v, model=str(exact_f))
    # ---- direct oracle
    if err2 is not None or abs(v - v2) > tol:
        res.violation("fidelity:not-symmetric", "fidelity(rho, sigma) != fidelity(sigma, rho)", input=inp, fwd=v, bwd=v2 if err2 is None else err2)
    if not (-1e-12 <= v <= 1 + 1e-12):
        res.violation("fidelity:out-of-range", "fidelity outside [0,1]", input=inp, value=v)
    ref = du.uhlmann_fidelity(a, b)
    if abs(ref - v) > max(tol, 1e-7):      # SVD reference: its own square roots limit it to ~1e-8
        res.violation("fidelity:wrong-value", "fidelity differs from the Uhlmann fidelity (singular-value reference)" if both_mixed else
                      "fidelity differs from the overlap tr(rho sigma)", input=inp, value=v, expected=ref)
    if not both_mixed:
        ov = float(np.trace(a @ b).real)
        if abs(min(max(ov, 0.0), 1.0) - v) > 1e-9:
            res.violation("fidelity:wrong-value", "fidelity with a pure state differs from the overlap tr(rho sigma)", input=inp, value=v, expected=ov)
    # trace distance
    try:
        t = float(f.trace_distance(a.copy(), b.copy()))
        t2 = float(f.trace_distance(b.copy(), a.copy()))
    except Exception as e:  # noqa: BLE001
        res.violation("trace_distance:raises", "trace_distance raised on two density matrices", input=inp, error=repr(e)[:200])
        return
    res.evaluations += 1
    if exact_t is not None and abs(float(exact_t) - t) > 1e-9:
        res.exact_break("trace_distance:commuting-pair-value", input=inp, impl=t, model=str(exact_t))
    tref = du.trace_distance_ref(a, b)
    if abs(t - tref) > 1e-9:
        res.violation("trace_distance:wrong-value", "trace distance differs from half the nuclear norm of the difference", input=inp, value=t, expected=tref)
    if abs(t - t2) > 1e-9:
        res.violation("trace_distance:not-symmetric", "trace distance not symmetric", input=inp, fwd=t, bwd=t2)
    if not (-1e-12 <= t <= 1 + 1e-9):
        res.violation("trace_distance:out-of-range", "trace distance outside [0,1]", input=inp, value=t)
    # Fuchs - van de Graaf (tolerance 1e-7: the upper bound is tight on pure pairs and sqrt amplifies rounding)
    if not (1 - math.sqrt(max(v, 0.0)) <= t + 1e-7 and t <= math.sqrt(max(1 - v, 0.0)) + 1e-7):
        res.violation("fuchs-van-de-graaf", "1 - sqrt(F) <= T <= sqrt(1 - F) violated", input=inp, F=v, T=t)
    return v, t


@_g
def check_self(res, ax, tag):
    """F(rho, rho) = 1, T(rho, rho) = 0"""
    f = dmf()
    a = ax.to_complex()
    v, err = impl_fid(a, a)
    res.evaluations += 1
    if err is not None:
        res.violation("fidelity:raises", "fidelity raised on a density matrix paired with itself", input=dict(tag=tag, a=ax.args("a")), error=err)
        return
    if abs(v - 1) > (1e-9 if purity(a) > 1 - 1e-9 else uhl_tol(a, a)):
        res.violation("fidelity:equal-states-not-1", "fidelity of a state with itself is not 1", input=dict(tag=tag, a=ax.args("a")), value=v)
    t = float(f.trace_distance(a.copy(), a.copy()))
    if abs(t) > 1e-9:
        res.violation("trace_distance:equal-states-not-0", "trace distance of a state with itself is not 0", input=dict(tag=tag, a=ax.args("a")), value=t)


@_g
def check_triangle(res, xs, tag):
    f = dmf()
    a, b, c = (x.to_complex() for x in xs)
    tab, tbc, tac = f.trace_distance(a, b), f.trace_distance(b, c), f.trace_distance(a, c)
    res.evaluations += 1
    if tac > tab + tbc + 1e-9:
        res.violation("trace_distance:triangle", "triangle inequality violated", input=dict(tag=tag, a=xs[0].args("a"), b=xs[1].args("b"), c=xs[2].args("c")))


# commuting pairs ---------------------------------------------------------------------------------------------------
def equal_norm_vectors(rng, d, tries=400):
    """two non-negative integer vectors of length d with the same sum of squares S (so that F = (k.l)^2 / S^2 is rational)"""
    buckets = {}
    for _ in range(tries):
        pz = 0.3 if rng.random() < 0.5 else 0.0          # half of the pairs full rank (tight tolerance)
        k = tuple(0 if rng.random() < pz else rng.randint(1, 5) for _ in range(d))
        s = sum(x * x for x in k)
        if s == 0:
            continue
        if s in buckets and buckets[s] != k and rng.random() < 0.5:
            return list(buckets[s]), list(k), s
        buckets[s] = k
    k = [rng.randint(1, 4) for _ in range(d)]
    l = k[:]
    rng.shuffle(l)
    return k, l, sum(x * x for x in k)


def clifford_tokens(rng, n, depth):
    toks = []
    for _ in range(depth):
        if n >= 2 and rng.random() < 0.4:
            a, b = rng.sample(range(n), 2)
            toks.append(f"{rng.choice(['cnot', 'cz'])}:{a}:p:{b}:p:0:N:N")
        else:
            toks.append(f"{rng.choice(['h', 's', 'sdg', 'x', 'y', 'z'])}:{rng.randrange(n)}:p:0:e:0:N:N")
    return ",".join(toks)


def commuting_pair(rng, drv, n):
    d = 2 ** n
    k, l, s = equal_norm_vectors(rng, d)
    toks = clifford_tokens(rng, n, rng.randint(2, 4 * n))
    mats = []
    for v in (k, l):
        diag = du.XMat([[Fr(v[i] * v[i], s) if i == j else 0 for j in range(d)] for i in range(d)])
        rep = drv.ask(f"dm.evolve {diag.args()} nq={n} ops={toks}")
        mats.append(du.parse_mat(rep))
    rep = drv.ask(f"dm.comm ka={','.join(map(str, k))} kb={','.join(map(str, l))} s={s}")
    return mats[0], mats[1], Fr(rep["f"]), Fr(rep["t"])


# Infidelity across representations ------------------------------------------------------------------------------------
def all_stabilizer_states(n):
    """one tableau for each of the 6 (n=1) / 60 (n=2) stabilizer states: breadth-first over H, P on every qubit and CNOT in both
    directions from |0..0>, states identified by their density matrix (own converter, signs honoured)"""
    from graphiq.backends.stabilizer.clifford_tableau import CliffordTableau
    from graphiq.backends.stabilizer.functions import transformation as tr

    start = CliffordTableau(n)
    seen = {np.round(du.stab_density(start), 6).tobytes(): start}
    frontier = [start]
    while frontier:
        nxt = []
        for t in frontier:
            cands = []
            for q in range(n):
                cands.append(tr.hadamard_gate(copy.deepcopy(t), q))
                cands.append(tr.phase_gate(copy.deepcopy(t), q))
            for a in range(n):
                for b in range(n):
                    if a != b:
                        cands.append(tr.cnot_gate(copy.deepcopy(t), a, b))
            for c in cands:
                k = np.round(du.stab_density(c), 6).tobytes()
                if k not in seen:
                    seen[k] = c
                    nxt.append(c)
        frontier = nxt
    return list(seen.values())


@_g
def check_infidelity(res, drv, rng, n, signs, pair=None):
    import random as _r
    from graphiq.metrics import Infidelity, TraceDistance
    from graphiq.state import QuantumState

    if pair is not None:
        ta, tb = copy.deepcopy(pair[0]), copy.deepcopy(pair[1])
    else:
        ta = tu.random_tableau(_r.Random(rng.getrandbits(30)), n, signs=signs)
        tb = tu.random_tableau(_r.Random(rng.getrandbits(30)), n, signs=signs) if rng.random() < 0.7 else copy.deepcopy(ta)
        if rng.random() < 0.3:
            # a state at overlap 1/2^k: apply a few gates to a copy
            from graphiq.backends.stabilizer.functions import transformation as tr

            tb = copy.deepcopy(ta)
            for _ in range(rng.randint(1, 2)):
                tb = rng.choice([tr.hadamard_gate, tr.phase_gate, tr.x_gate, tr.z_gate])(tb, rng.randrange(n))
    ra, rb = du.stab_density(ta), du.stab_density(tb)
    truth = 1 - float(np.trace(ra @ rb).real)
    has_sign_b = bool(np.any(np.asarray(tb.phase)[n:]))
    inp = dict(n=n, target=tu.tab_args(ta, "t"), state=tu.tab_args(tb, "s"))
    vals = {}
    for trep, srep in (("s", "s"), ("dm", "dm"), ("dm", "s")):
        target = QuantumState(copy.deepcopy(ta), rep_type="s") if trep == "s" else QuantumState(ra.copy(), rep_type="dm")
        state = QuantumState(copy.deepcopy(tb), rep_type="s") if srep == "s" else QuantumState(rb.copy(), rep_type="dm")
        res.evaluations += 1
        try:
            v = float(Infidelity(target).evaluate(state, None))
            err = None
        except Exception as e:  # noqa: BLE001
            v, err = None, err_class(e)
        targs = tu.tab_args(ta, "t") if trep == "s" else du.XMat(np.round(ra.real * 2 ** n).astype(int).tolist(), np.round(ra.imag * 2 ** n).astype(int).tolist()).scale(Fr(1, 2 ** n)).args("t")
        sargs = tu.tab_args(tb, "s") if srep == "s" else du.XMat(np.round(rb.real * 2 ** n).astype(int).tolist(), np.round(rb.imag * 2 ** n).astype(int).tolist()).scale(Fr(1, 2 ** n)).args("s")
        rep = drv.ask(f"dm.infid trep={trep} srep={srep} {targs} {sargs}")
        key = f"{trep}<-{srep}"
        res.branch([f"infidelity:{key}"])
        if err is not None:
            res.count("errors", f"infidelity:{key}:{err}")
            if rep["_status"] != "err" or rep.get("_err") != err:
                res.exact_break(f"Infidelity[{key}]:error-class", input=inp, impl=err, model=rep["_raw"][:200])
            continue
        vals[key] = v
        if rep["_status"] != "ok" or "val" not in rep:
            res.exact_break(f"Infidelity[{key}]:error-class", input=inp, impl=v, model=rep["_raw"][:200])
        elif abs(float(Fr(rep["val"])) - v) > 1e-9:
            res.exact_break(f"Infidelity[{key}]:value", input=inp, impl=v, model=rep["val"])
        if abs(v - truth) > 1e-9:
            if key == "dm<-s" and has_sign_b:
                res.violation(F_D9, "Infidelity of a stabilizer state with negative generators against a density-matrix target ignores the signs",
                              input=inp, value=v, expected=truth)
            else:
                res.violation(f"infidelity:{key}:wrong-value", "Infidelity differs from 1 - |<target|state>|^2", input=inp, value=v, expected=truth)
    res.nontrivial("inf", tu.tab_tuple(ta), tu.tab_tuple(tb))
    # TraceDistance metric object, dm target
    try:
        t1 = float(TraceDistance(QuantumState(ra.copy(), rep_type="dm")).evaluate(QuantumState(rb.copy(), rep_type="dm"), None))
        res.evaluations += 1
        if abs(t1 - math.sqrt(max(truth, 0.0))) > 1e-7:
            res.violation("TraceDistance:wrong-value", "TraceDistance of two pure states is not sqrt(1 - F)", input=inp, value=t1, expected=math.sqrt(max(truth, 0.0)))
    except Exception as e:  # noqa: BLE001
        res.violation("TraceDistance:raises", "TraceDistance.evaluate raised on two density-matrix states", input=inp, error=repr(e)[:200])
    try:
        t2 = float(TraceDistance(QuantumState(ra.copy(), rep_type="dm")).evaluate(QuantumState(copy.deepcopy(tb), rep_type="s"), None))
        res.evaluations += 1
        if abs(t2 - math.sqrt(max(truth, 0.0))) > 1e-7:
            if has_sign_b:
                res.violation(F_D9, "TraceDistance of a stabilizer state with negative generators against a density-matrix target ignores the signs",
                              input=inp, value=t2, expected=math.sqrt(max(truth, 0.0)))
            else:
                res.violation("TraceDistance:dm<-s:wrong-value", "TraceDistance (stabilizer state, density-matrix target) is not sqrt(1 - F)", input=inp,
                              value=t2, expected=math.sqrt(max(truth, 0.0)))
    except Exception as e:  # noqa: BLE001
        res.violation("TraceDistance:raises", "TraceDistance.evaluate raised on a stabilizer state", input=inp, error=repr(e)[:200])


@_g
def near_pure_probe(res):
    """a visibly mixed state (purity 1 - 4e-6) must not take the pure-state shortcut (it did while is_pure used np.allclose's default
    relative tolerance 1e-5; repaired)"""
    f = dmf()
    eps = 2e-6
    rho = np.diag([1 - eps, eps]).astype(complex)
    half = np.eye(2, dtype=complex) / 2
    res.evaluations += 2
    v_self = float(f.fidelity(rho, rho))
    v_half = float(f.fidelity(rho, half))
    want_half = (math.sqrt((1 - eps) / 2) + math.sqrt(eps / 2)) ** 2
    if abs(v_self - 1) > 1e-6 or abs(v_half - want_half) > 1e-6:      # Uhlmann branch on a nearly rank-deficient input: sqrt-of-rounding accuracy
        res.violation(F_NEARPURE, "a mixed state with purity within 1e-5 of 1 takes the pure-state shortcut: F(rho,rho) != 1 and F(rho, I/2) is not "
                      "the Uhlmann fidelity", input=dict(rho="diag(1-2e-6, 2e-6)"), f_self=v_self, f_half=v_half, uhlmann_half=want_half)


# ---------------------------------------------------------------------------------------------------------------------- run
def _limit_known(res, keys, cap=3):
    """known-finding violations are recorded at most `cap` times each, so that they can never fill the violation list and hide a new one"""
    orig = res.violation
    seen = {}

    def violation(key, clause, **kw):
        if key in keys:
            seen[key] = seen.get(key, 0) + 1
            res.extra.setdefault("known_finding_hits", {})[key] = seen[key]
            if seen[key] > cap:
                return
        orig(key, clause, **kw)

    res.violation = violation


def run(ctx):
    res = Result()
    _limit_known(res, (F_D9,))
    res.rule = ("one evaluation = one call of partial_trace / fidelity / trace_distance / Infidelity.evaluate; non-trivial = entangled or mixed "
                "rational input (never a product |0> ancilla); distinct by (input matrices / tableaux, arguments)")
    drv = Driver()
    rng = ctx.rng
    # ---- 1. partial trace: every subset, entangled inputs
    reps = 6 if ctx.quick else 30
    for n in (1, 2, 3, 4) if ctx.quick else (1, 2, 3, 4, 5):
        for r in range(reps if n < 4 else max(1, reps // (3 if n == 4 else 10))):
            rho = du.rand_pure(rng, n) if r % 2 == 0 else du.rand_mixed(rng, n)
            for keep in subsets(n):
                check_ptrace(res, drv, rho, keep, [2] * n, "all-subsets")
    res.notes.append("partial trace: all non-empty subsets of n<=4 qubits enumerated for every generated state")
    for dims in ([4, 2], [2, 4], [2, 2, 4], [3, 2], [2, 3], [3, 3], [2, 3, 2]):
        d = int(np.prod(dims))
        # random Hermitian rational matrix of that size (a state up to normalisation is not needed for partial trace)
        re = [[0] * d for _ in range(d)]
        im = [[0] * d for _ in range(d)]
        for i in range(d):
            for j in range(i, d):
                a, b = rng.randint(-3, 3), (rng.randint(-3, 3) if i != j else 0)
                re[i][j] = re[j][i] = Fr(a, 7)
                im[i][j] = Fr(b, 7)
                im[j][i] = -Fr(b, 7)
        rho = du.XMat(re, im)
        for keep in subsets(len(dims)):
            check_ptrace(res, drv, rho, keep, dims, "mixed-dims")
    # malformed / unusual keep
    rho3 = du.rand_mixed(rng, 3)
    for keep, dims in (([], [2, 2, 2]), ([3], [2, 2, 2]), ([0, 0], [2, 2, 2]), ([0], [2, 2]), ([1, 0], [2, 2, 2]), ([2, 0], [2, 2, 2]), ([0, 1, 2], [2, 2, 2]),
                       ([0], [8]), ([0, 1], [2, 4])):
        check_ptrace(res, drv, rho3, keep, dims, "malformed")
    # ---- 2. fidelity / trace distance
    n_pairs = 32 if ctx.quick else 300
    for n in (1, 2, 3) if ctx.quick else (1, 2, 3, 4):
        for r in range(n_pairs // (1 if n < 3 else 2)):
            kind = r % 4
            if kind == 0:
                a, b = du.rand_pure(rng, n), du.rand_pure(rng, n)
            elif kind == 1:
                a, b = du.rand_pure(rng, n), du.rand_mixed(rng, n)
            elif kind == 2:
                a, b = du.rand_mixed(rng, n), du.rand_pure(rng, n)
            else:
                a, b = du.rand_mixed(rng, n), du.rand_mixed(rng, n)      # non-commuting: oracle only
                if r % 8 == 7:                                           # full-rank variants (tight tolerance)
                    eye = du.XMat.eye(2 ** n).scale(Fr(1, 2 ** n))
                    a, b = a.scale(Fr(2, 3)) + eye.scale(Fr(1, 3)), b.scale(Fr(1, 2)) + eye.scale(Fr(1, 2))
            check_pair(res, drv, a, b, ["pure-pure", "pure-mixed", "mixed-pure", "mixed-mixed-noncommuting"][kind])
            if r % 3 == 0:
                check_self(res, a, "self")
                check_self(res, b, "self")
            if r % 4 == 3:
                check_triangle(res, (a, b, du.rand_mixed(rng, n)), "triangle")
        for r in range(n_pairs // 2):
            a, b, fx, tx = commuting_pair(rng, drv, n)
            check_pair(res, drv, a, b, "commuting", exact_f=fx, exact_t=tx)
            res.count("sizes", f"commuting:n={n}")
    # not density matrices
    bad = du.XMat([[Fr(3, 4), 0], [0, Fr(3, 4)]])
    neg = du.XMat([[Fr(3, 2), 0], [0, Fr(-1, 2)]])
    good = du.rand_pure(rng, 1)
    for a, b in ((bad, good), (good, bad), (neg, good), (good, neg)):
        check_pair(res, drv, a, b, "not-a-state")
    near_pure_probe(res)
    # purity just outside np.allclose's tolerance: must take the Uhlmann branch (model threshold is exact)
    for eps in (Fr(1, 10 ** 4), Fr(1, 10 ** 3), Fr(1, 100)):
        for n in (1, 2):
            a = du.rand_pure(rng, n).scale(1 - eps) + du.rand_pure(rng, n).scale(eps)
            b = du.rand_mixed(rng, n)
            check_pair(res, drv, a, b, "near-threshold")
            check_self(res, a, "near-threshold-self")
    # ---- 3. Infidelity across representations
    n_inf = 60 if ctx.quick else 600
    for k in range(n_inf):
        check_infidelity(res, drv, rng, rng.randint(1, 3 if ctx.quick else 4), signs=(k % 2 == 0))
    # exhaustive: every ordered pair of one-qubit stabilizer states (6 x 6) on every run; every ordered pair of the 60 two-qubit
    # stabilizer states in the thorough tier (a seeded sample of 200 pairs in the quick tier)
    # the enumeration runs graphiq's own gate functions (BFS from |0..0>): an exception there is reported, not a harness crash; and the
    # pools must have the known sizes (6, 60) — a changed gate function could otherwise shrink the "every ordered pair" streams silently
    s1, s2 = [], []
    with impl_guard(res, "infidelity:enumeration"):
        s1 = all_stabilizer_states(1)
        s2 = all_stabilizer_states(2)
    if (len(s1), len(s2)) != (6, 60):
        res.exact_break("coverage collapsed: all_stabilizer_states", input={"n": [1, 2]}, impl=f"{len(s1)} one-qubit and {len(s2)} two-qubit states enumerated through hadamard_gate / phase_gate / cnot_gate",
                        model="6 and 60 stabilizer states")
    for a in s1:
        for b in s1:
            check_infidelity(res, drv, rng, 1, True, pair=(a, b))
    res.extra["stabilizer_states_enumerated"] = {"n=1": len(s1), "n=2": len(s2)}
    pairs2 = [(a, b) for a in s2 for b in s2]
    if ctx.quick:
        pairs2 = rng.sample(pairs2, min(200, len(pairs2)))
    for a, b in pairs2:
        check_infidelity(res, drv, rng, 2, True, pair=(a, b))
    res.notes.append(f"Infidelity across representations: all {len(s1) ** 2} ordered pairs of 1-qubit stabilizer states; "
                     f"{len(pairs2)} of the {len(s2) ** 2} ordered pairs of 2-qubit stabilizer states")
    drv.close()
    res.extra["driver_lines"] = drv.n_lines
    res.extra["oracle_only"] = "non-commuting mixed pairs (tag mixed-mixed-noncommuting): direct oracle only, no exact model value"
    return res


def replay(ctx, data):
    v = data.get("violation") or {}
    inp = v.get("input") or {}
    print("replay input:", str(inp)[:600])
    res = Result()
    drv = Driver()
    try:
        if "keep" in inp:
            args = dict(t.split("=", 1) for t in inp["rho"].split(" "))
            n = int(args["n"])
            re = [Fr(x) for x in args["re"].split(",")]
            im = [Fr(x) for x in args["im"].split(",")]
            rho = du.XMat([re[i * n:(i + 1) * n] for i in range(n)], [im[i * n:(i + 1) * n] for i in range(n)])
            check_ptrace(res, drv, rho, inp["keep"], inp["dims"], "replay")
        elif "a" in inp and "b" in inp:
            def mat(s, p):
                args = dict(t.split("=", 1) for t in s.split(" "))
                n = int(args[p + "n"])
                re = [Fr(x) for x in args[p + "re"].split(",")]
                im = [Fr(x) for x in args[p + "im"].split(",")]
                return du.XMat([re[i * n:(i + 1) * n] for i in range(n)], [im[i * n:(i + 1) * n] for i in range(n)])

            check_pair(res, drv, mat(inp["a"], "a"), mat(inp["b"], "b"), "replay")
        else:
            near_pure_probe(res)
            return None
    finally:
        drv.close()
    from harness.common import load_known_findings

    known = [k for k, _ in load_known_findings("C17")]
    fresh = [w for w in res.violations if w["key"] not in known]
    for w in res.violations:
        print("replay:", "(known finding)" if w["key"] in known else "", w["key"], "-", w["clause"])
    for b in res.exact_breaks[:3]:
        print("replay: model/implementation differ:", b.get("correspondence"))
    return not fresh and not res.exact_breaks


def search(ctx, res, proof_broken):
    """proof/correspondence broke without an oracle failure: run the oracle on a larger sample, all subsets up to n = 4"""
    drv = Driver()
    rng = ctx.rng
    for n in (2, 3, 4):
        for _ in range(6):
            rho = du.rand_mixed(rng, n)
            for keep in subsets(n):
                check_ptrace(res, drv, rho, keep, [2] * n, "search")
    for _ in range(150):
        n = rng.randint(1, 3)
        check_pair(res, drv, du.rand_mixed(rng, n), du.rand_mixed(rng, n) if rng.random() < 0.5 else du.rand_pure(rng, n), "search")
    drv.close()
