"""
C07 — a Clifford tableau stays valid and tracks the right state under any history.

Correspondence: every operation of the tableau API (clifford.py + transformation.py, including the X / Y measurements
`measure_x`, `measure_y`, `x_measurement_gate` and the wrapper `Stabilizer.apply_x_measurement`) is run on the real
implementation and on the Lean model (`tab.run` / `tab.tensor`) from the *implementation's* current state; outputs are
compared exactly (table, phase, iphase, n, outcomes, error class).
Direct oracle (independent of the model): the tableau stays binary and symplectic, stabilizer i-phases stay 0, and for
n <= 5 the stabilizer half equals the dense density-matrix obtained by applying the same operation (with the observed
outcome) to the previous state; forced outcomes are honoured exactly when possible — also inside a reset: a reset whose inner
measurement is random must leave the other qubits in the branch of the forced (0/1) resp. drawn ("p", scripted) outcome.
"""
import copy

import numpy as np

from harness import tabutil as tu
from harness.common import Driver, Result, err_class, impl_guard

LEVEL = "proof"
TRUSTED_BASE = [
    "Lean 4.33 kernel",
    "hand-written model GraphiqModel/Model/{Pauli,Tableau}.lean tied to clifford.py/transformation.py/linalg.py by this correspondence run",
    "Hilbert-space reading (gates, measurement, and since deep-c07h also insert/remove/partial trace/tensor: Properties/C07.lean sections 6-7) is about Mathlib matrices indexed by bit strings, proved to be Kronecker products; that numpy evaluates np.kron chains as these matrices is compared numerically (dense reference, n<=5), not proved",
    "harness, line protocol, numpy dense reference simulator (n<=5)",
]
ASSUMPTIONS = [
    "negative qubit indices (numpy wrap-around) and CNOT/CZ/swap with equal arguments are outside the quantifier",
    "np.random.randint is the only source of measurement randomness (patched to script outcomes)",
]

GATES1 = ["h", "s", "sdg", "x", "y", "z"]
GATES2 = ["cnot", "cz", "swap", "cy"]
# X / Y measurements: op tuple (name, q, determinism, scripted_bit); driver token of the model
XYMEAS = {"measure_x": "measx", "measure_y": "measy", "x_measurement_gate": "xmeas", "apply_x_measurement": "xmeas"}


class Scripted:
    """scripts np.random.randint(0,2) so that 'probabilistic' measurements take a chosen outcome"""

    def __init__(self):
        self.queue = []
        self.used = 0

    def __call__(self, *a, **k):
        self.used += 1
        return self.queue.pop(0) if self.queue else 0


def gen_op(rng, n, nmax, malformed=False):
    """-> op tuple"""
    if malformed:
        k = rng.choice(["h", "cnot", "meas", "insert", "remove", "swap", "resetz", "xy"])
        bad = n + rng.randrange(3)
        if k == "h":
            return ("h", bad)
        if k == "xy":
            return (rng.choice(sorted(XYMEAS)), bad, rng.choice([0, 1, "p"]), 0)
        if k == "cnot":
            return ("cnot", bad, 0) if rng.random() < 0.5 else ("cnot", 0, bad)
        if k == "meas":
            return ("meas", bad, rng.choice([0, 1, "p"]), 0)
        if k == "insert":
            return ("insert", bad + 1)
        if k == "remove":
            return ("remove", bad, 0, 0)
        if k == "swap":
            return ("swap", 0, bad)
        return ("resetz", bad, 0, 0, 0)
    w = rng.random()
    if w < 0.30:
        return (rng.choice(GATES1), rng.randrange(n))
    if w < 0.50 and n >= 2:
        a = rng.randrange(n)
        b = rng.randrange(n - 1)
        b = b if b < a else b + 1
        return (rng.choice(GATES2), a, b)
    if w < 0.61:
        return ("meas" if rng.random() < 0.85 else "measure_z", rng.randrange(n), rng.choice([0, 1, "p"]), rng.randrange(2))
    if w < 0.68:
        return (rng.choice(sorted(XYMEAS)), rng.randrange(n), rng.choice([0, 1, "p"]), rng.randrange(2))
    if w < 0.78:
        return (rng.choice(["resetz", "resetz", "resetx", "resety"]), rng.randrange(n), rng.randrange(2), rng.choice([0, 1, "p"]), rng.randrange(2))
    if w < 0.86 and n < nmax:
        return ("insert", rng.randrange(n + 1)) if rng.random() < 0.8 else ("add",)
    if w < 0.93 and n >= 2:
        return ("remove", rng.randrange(n), rng.choice([0, 1, "p"]), rng.randrange(2))
    if w < 0.96 and n >= 2:
        keep = [q for q in range(n) if rng.random() < 0.7]
        if len(keep) == n:
            keep = keep[:-1]
        if not keep:
            keep = [rng.randrange(n)]
        return ("ptrace", tuple(keep), rng.choice([0, 1, "p"]), tuple(rng.randrange(2) for _ in range(n)))
    if w < 0.975 and n >= 2:
        # Stabilizer / MixedStabilizer wrapper: trace OUT the listed qubits (a non-empty proper subset)
        pos = [q for q in range(n) if rng.random() < 0.35]
        if not pos:
            pos = [rng.randrange(n)]
        if len(pos) == n:
            pos = pos[:-1]
        rng.shuffle(pos)
        return ("trace_out_qubits", tuple(pos), rng.choice([0, 1, "p"]), tuple(rng.randrange(2) for _ in range(n)),
                rng.choice(["Stabilizer", "MixedStabilizer"]))
    if n + 1 <= nmax:
        # tensor([current, f1, ..., fk]) with k = 1..4 further factors of 1-3 qubits each (as many as fit)
        sizes = []
        room = nmax - n
        for _ in range(rng.randrange(1, 5)):
            if room <= 0:
                break
            sz = min(rng.randrange(1, 4), room)
            sizes.append(sz)
            room -= sz
        return ("tensor", tuple(sizes), rng.getrandbits(30))
    return (rng.choice(GATES1), rng.randrange(n))


def det_of(d):
    return "probabilistic" if d == "p" else d


def tensor_factors(op):
    """the further factors of a tensor op (sizes op[1], seed op[2]): random reachable tableaux with random sign bits on all rows
    and random i-phase bits on the destabilizer rows (stabilizer i-phases stay 0)"""
    import random as _r

    sizes = op[1] if isinstance(op[1], tuple) else (op[1],)
    out = []
    for i, sz in enumerate(sizes):
        r = _r.Random(op[2] * 7 + i)
        t = tu.random_tableau(r, sz)
        ip = np.array(t.iphase).astype(int)
        for k in range(sz):
            ip[k] = r.randrange(2)
        t.iphase = ip
        out.append(t)
    return out


def apply_impl(tab, op, scripted, rng_mod):
    """run one op on the real implementation; returns (tab, outs, extra) ; raises on error"""
    from graphiq.backends.stabilizer.functions import clifford as cl
    from graphiq.backends.stabilizer.functions import transformation as tr

    k = op[0]
    outs = []
    extra = None
    if k in GATES1:
        f = {"h": tr.hadamard_gate, "s": tr.phase_gate, "sdg": tr.phase_dagger_gate, "x": tr.x_gate, "y": tr.y_gate, "z": tr.z_gate}[k]
        tab = f(tab, op[1])
    elif k == "cnot":
        tab = tr.cnot_gate(tab, op[1], op[2])
    elif k == "cz":
        tab = tr.control_z_gate(tab, op[1], op[2])
    elif k == "swap":
        tab = cl.swap_gate(tab, op[1], op[2])
    elif k == "cy":
        tab = tr.control_y_gate(tab, op[1], op[2])
    elif k == "measure_z":
        # returns only the outcome; the caller's tableau is the post-measurement state
        scripted.queue = [op[3]]
        o = cl.measure_z(tab, op[1], det_of(op[2]))
        outs.append((int(o), None))
    elif k == "meas":
        scripted.queue = [op[3]]
        tab, o, p = cl.z_measurement_gate(tab, op[1], det_of(op[2]))
        outs.append((int(o), int(p) != 0))
    elif k in ("measure_x", "measure_y"):
        # return only the outcome; the caller's tableau is the post-measurement state (since the repair D52)
        scripted.queue = [op[3]]
        o = {"measure_x": cl.measure_x, "measure_y": cl.measure_y}[k](tab, op[1], det_of(op[2]))
        outs.append((int(o), None))
    elif k == "x_measurement_gate":
        scripted.queue = [op[3]]
        tab, o, p = cl.x_measurement_gate(tab, op[1], det_of(op[2]))
        outs.append((int(o), int(p) != 0))
    elif k == "apply_x_measurement":
        from graphiq.backends.stabilizer.state import Stabilizer

        scripted.queue = [op[3]]
        st = Stabilizer(tab)
        o = st.apply_x_measurement(op[1], det_of(op[2]))
        tab = st.tableau
        outs.append((int(o), None))
    elif k in ("resetz", "resetx", "resety"):
        scripted.queue = [op[4]]
        f = {"resetz": cl.reset_z, "resetx": cl.reset_x, "resety": cl.reset_y}[k]
        tab = f(tab, op[1], op[2], det_of(op[3]))
    elif k == "insert":
        tab = cl.insert_qubit(tab, op[1])
    elif k == "add":
        tab = cl.add_qubit(tab)
    elif k == "remove":
        scripted.queue = [op[3]]
        tab = cl.remove_qubit(tab, op[1], det_of(op[2]))
    elif k == "ptrace":
        scripted.queue = list(op[3])
        tab = cl.partial_trace(tab, list(op[1]), None, det_of(op[2]))
    elif k == "tensor":
        others = tensor_factors(op)
        extra = [o.copy() for o in others]
        tab = cl.tensor([tab] + others)
    elif k == "trace_out_qubits":
        from graphiq.backends.stabilizer.state import MixedStabilizer, Stabilizer

        scripted.queue = list(op[3])
        if op[4] == "Stabilizer":
            st = Stabilizer(tab)
            st.trace_out_qubits(list(op[1]), det_of(op[2]))
            tab = st.tableau
        else:
            st = MixedStabilizer(tab)
            st.trace_out_qubits(list(op[1]), det_of(op[2]))
            tab = st.mixture[0][1]
    else:
        raise ValueError(k)
    return tab, outs, extra


def driver_line(before, op, extra=None):
    """the model command for one op from the implementation's state `before`"""
    if op[0] == "tensor":
        others = extra if extra is not None else tensor_factors(op)
        parts = [tu.tab_args(before, "f0")] + [tu.tab_args(o, f"f{i + 1}") for i, o in enumerate(others)]
        return f"tab.tensorn k={len(parts)} " + " ".join(parts)
    if op[0] == "trace_out_qubits":
        pos = ".".join(map(str, op[1])) if op[1] else "-"
        os_ = "".join(str(outcome_bit(op[2], b)) for b in op[3])
        return f"tab.traceout {tu.tab_args(before)} pos={pos} os={os_}"
    return f"tab.run {tu.tab_args(before)} ops={op_token(op)}"


def outcome_bit(det, scripted_bit):
    return scripted_bit if det == "p" else det


def op_token(op):
    k = op[0]
    if k in GATES1:
        return f"{k}:{op[1]}"
    if k == "cy":
        # control_y_gate = phase_gate; z_gate; cnot_gate; phase_gate (on the target)
        return f"cy:{op[1]}:{op[2]}"
    if k == "measure_z":
        return f"meas:{op[1]}:{outcome_bit(op[2], op[3])}"
    if k in GATES2:
        return f"{k}:{op[1]}:{op[2]}"
    if k == "meas":
        return f"meas:{op[1]}:{outcome_bit(op[2], op[3])}"
    if k in XYMEAS:
        return f"{XYMEAS[k]}:{op[1]}:{outcome_bit(op[2], op[3])}"
    if k in ("resetz", "resetx", "resety"):
        return f"{k}:{op[1]}:{op[2]}:{outcome_bit(op[3], op[4])}"
    if k == "insert":
        return f"insert:{op[1]}"
    if k == "add":
        return "add"
    if k == "remove":
        return f"remove:{op[1]}:{outcome_bit(op[2], op[3])}"
    if k == "ptrace":
        keep = ".".join(map(str, op[1])) if op[1] else "-"
        os_ = "".join(str(outcome_bit(op[2], b)) for b in op[3])
        return f"ptrace:{keep}:{os_}"
    raise ValueError(k)


# ---------------------------------------------------------------------------------------------------------------- oracle
RESETS = ("resetz", "resetx", "resety")


def reset_branch(rho, n, op, o):
    """dense reference for a reset whose inner Z measurement has outcome `o`: project on `o`, apply X iff `o` differs from the
    intended state, then H (reset_x) / H then S (reset_y); None if the outcome has probability 0"""
    k, q, intended = op[0], op[1], op[2]
    r, p = tu.project(rho, n, q, o)
    if p < 1e-9:
        return None
    r = r / p
    if o != intended:
        r = tu.conj(tu.op_on(n, q, tu.X), r)
    if k == "resetx":
        r = tu.conj(tu.op_on(n, q, tu.H), r)
    if k == "resety":
        r = tu.conj(tu.op_on(n, q, tu.S) @ tu.op_on(n, q, tu.H), r)
    return r


def matches(exp, got):
    return exp is not None and any(e is not None and e.shape == got.shape and np.allclose(e, got, atol=1e-9) for e in exp)


def wrong_state_key(op, rho, n, got):
    """violation key of a dense-oracle mismatch; a reset that ends in the OTHER branch of its inner measurement (the state is a
    legitimate post-measurement state, but not the one of the forced / drawn outcome) is reported as `wrong-branch`"""
    if op[0] in RESETS and n == got.shape[0].bit_length() - 1:
        if matches([reset_branch(rho, n, op, o) for o in (0, 1)], got):
            return (f"state:{op[0]}:wrong-branch",
                    f"{op[0]} on a qubit that is not in a Z eigenstate left the other qubits in the wrong branch of its inner "
                    "measurement (not the branch of the forced / drawn outcome)")
    return (f"state:{op[0]}:wrong-state", f"stabilizer half after {op[0]} is not the state obtained by applying it to the previous state")


def dense_expected(rho, n, op, tab_after_n, observed):
    """apply `op` to the dense state; returns list of acceptable resulting density matrices (normalised), or None if the
    observed outcome was impossible / the forced outcome was not honoured"""
    k = op[0]
    U = None
    if k == "h":
        U = tu.op_on(n, op[1], tu.H)
    elif k == "s":
        U = tu.op_on(n, op[1], tu.S)
    elif k == "sdg":
        U = tu.op_on(n, op[1], tu.S.conj().T)
    elif k == "x":
        U = tu.op_on(n, op[1], tu.X)
    elif k == "y":
        U = tu.op_on(n, op[1], tu.Y)
    elif k == "z":
        U = tu.op_on(n, op[1], tu.Z)
    elif k == "cnot":
        U = tu.cnot_matrix(n, op[1], op[2])
    elif k == "cz":
        U = tu.cz_matrix(n, op[1], op[2])
    elif k == "swap":
        U = tu.swap_matrix(n, op[1], op[2])
    elif k == "cy":
        U = tu.op_on(n, op[1], np.diag([1, 0])) + tu.op_on(n, op[1], np.diag([0, 1])) @ tu.op_on(n, op[2], tu.Y)
    if U is not None:
        return [tu.conj(U, rho)]
    if k in ("meas", "measure_z"):
        q, det, sb = op[1], op[2], op[3]
        o, was_random = observed[0]
        _, p1 = tu.project(rho, n, q, 1)
        is_random = 1e-9 < p1 < 1 - 1e-9
        if was_random is not None and was_random != is_random:
            return None
        want = (1 if p1 > 0.5 else 0) if not is_random else outcome_bit(det, sb)
        if o != want:
            return None
        r, p = tu.project(rho, n, q, o)
        return [r / p]
    if k in XYMEAS:
        # projective measurement of X_q (resp. Y_q): rotate the eigenbasis onto Z (H, resp. H S^dagger), project, rotate back;
        # outcome o means eigenvalue (-1)^o; a forced outcome is honoured exactly when it has non-zero probability
        q, det, sb = op[1], op[2], op[3]
        V = tu.op_on(n, q, tu.H) if k != "measure_y" else tu.op_on(n, q, tu.H) @ tu.op_on(n, q, tu.S.conj().T)
        rot = tu.conj(V, rho)
        o, was_random = observed[0]
        _, p1 = tu.project(rot, n, q, 1)
        is_random = 1e-9 < p1 < 1 - 1e-9
        if was_random is not None and was_random != is_random:
            return None
        want = (1 if p1 > 0.5 else 0) if not is_random else outcome_bit(det, sb)
        if o != want:
            return None
        r, p = tu.project(rot, n, q, o)
        return [tu.conj(V.conj().T, r / p)]
    if k in RESETS:
        # reset_z = "measure in Z, then flip the qubit iff the outcome is not the intended state" — exactly: a deterministic
        # inner measurement has its fixed outcome; a random one takes the forced outcome (0/1), resp. the drawn bit ("p":
        # np.random.randint is scripted, so the drawn bit is op[4]); the qubits entangled with the reset qubit must be in
        # the branch of THAT outcome (before the repair D50 the code always produced the branch outcome = intended)
        q, det, sb = op[1], op[3], op[4]
        _, p1 = tu.project(rho, n, q, 1)
        is_random = 1e-9 < p1 < 1 - 1e-9
        want = (1 if p1 > 0.5 else 0) if not is_random else outcome_bit(det, sb)
        return [reset_branch(rho, n, op, want)]
    if k in ("insert", "add"):
        p = op[1] if k == "insert" else n
        return [tu.insert_ket0(rho, n, p)]
    if k == "remove":
        q, det, sb = op[1], op[2], op[3]
        res = []
        for o in (0, 1):
            r, p = tu.project(rho, n, q, o)
            if p < 1e-9:
                res.append(None)
                continue
            res.append(tu.trace_out(r / p, n, q))
        if res[0] is not None and res[1] is not None:
            return [res[outcome_bit(det, sb)]]
        return [r for r in res if r is not None]
    return None  # ptrace / tensor handled separately


def dense_measure_and_remove(rho, n, removal, det, script):
    """sequential measure-and-remove of the qubits in `removal` (highest index first); a scripted bit is consumed only by a
    random measurement"""
    nn = n
    script = list(script)
    for q in removal:
        cands = {}
        for o in (0, 1):
            r, p = tu.project(rho, nn, q, o)
            if p > 1e-9:
                cands[o] = tu.trace_out(r / p, nn, q)
        if len(cands) == 2:
            o = det if det != "p" else (script.pop(0) if script else 0)
            rho = cands[o]
        else:
            rho = list(cands.values())[0]
        nn -= 1
    return rho


def dense_special(before, op, after, extra):
    """dense oracle for ptrace / trace_out_qubits / tensor; returns None if not applicable (too large), else
    (ok, key, clause)"""
    n = before.n_qubits
    k = op[0]
    if k == "tensor":
        rho = tu.dense_rho(before)
        for f in extra:
            rho = np.kron(rho, tu.dense_rho(f))
        ok = rho.shape == tu.dense_rho(after).shape and np.allclose(rho, tu.dense_rho(after), atol=1e-9)
        return ok, "state:tensor:wrong-state", "tensor product tableau is not the tensor product state"
    if k == "ptrace":
        removal = sorted(set(range(n)) - set(op[1]), reverse=True)
        rho = dense_measure_and_remove(tu.dense_rho(before), n, removal, op[2], op[3])
        got = tu.dense_rho(after)
        ok = rho.shape == got.shape and np.allclose(rho, got, atol=1e-9)
        return ok, "state:ptrace:wrong-state", "partial trace did not leave the state obtained by measuring and discarding the traced qubits"
    if k == "trace_out_qubits":
        removal = sorted(set(op[1]) & set(range(n)), reverse=True)
        rho = dense_measure_and_remove(tu.dense_rho(before), n, removal, op[2], op[3])
        got = tu.dense_rho(after)
        ok = rho.shape == got.shape and np.allclose(rho, got, atol=1e-9)
        return ok, "state:trace_out_qubits:wrong-state", "trace_out_qubits did not leave the reduced (post-measurement) state of the qubits that were NOT listed"
    return None


def check_state(res, tab, where, inp):
    if not tu.is_binary(tab):
        res.violation("tableau:not-binary", f"tableau not binary / wrong shape after {where}", input=inp)
        return False
    if not tu.is_valid(tab):
        res.violation("tableau:not-symplectic", f"destabilizer/stabilizer pairing broken after {where}", input=inp)
        return False
    n = tab.n_qubits
    if np.any(np.asarray(tab.iphase)[n:] != 0):
        res.violation("tableau:stabilizer-iphase", f"a stabilizer generator has an imaginary phase after {where}", input=inp)
        return False
    return True


def one_walk(ctx, res, drv, rng, n0, steps, nmax, malformed_rate=0.03, dense_max=5):
    import numpy.random as npr

    scripted = Scripted()
    saved = npr.randint
    npr.randint = scripted
    np.random.randint = scripted
    try:
        tab = tu.random_tableau(rng, n0)
        # the start tableau is produced by the gate functions under test: it must be a valid tableau before anything is derived from it
        if not check_state(res, tab, "the generator (hadamard / phase / cnot / cz from |0..0>)", {"generator": "tu.random_tableau", "n": n0}):
            return
        lines = []
        checks = []
        for step in range(steps):
            n = tab.n_qubits
            mal = rng.random() < malformed_rate
            op = gen_op(rng, n, nmax, malformed=mal)
            before = tab.copy()
            inp = {"state": tu.tab_args(before), "op": list(map(str, op))}
            try:
                tab, outs, extra = apply_impl(tab, op, scripted, rng)
                err = None
            except Exception as e:  # noqa: BLE001
                err = err_class(e)
                tab = before.copy()
                outs, extra = [], None
            res.evaluations += 1
            res.count("sizes", f"n={n}" if n <= 6 else ("n<=20" if n <= 20 else ("n<=60" if n <= 60 else "n>60")))
            lines.append(driver_line(before, op, extra))
            checks.append((before, op, err, tab.copy() if err is None else None, outs, inp, extra))
            if err is not None:
                res.count("errors", err)
                if not mal:
                    # a well-formed call raised: the property promises the operation works
                    res.violation(f"api:{op[0]}:raises:{err}", f"{op[0]} raised {err} on a well-formed call", input=inp)
                continue
            if not check_state(res, tab, op[0], inp):
                tab = tu.random_tableau(rng, max(1, min(n, nmax)))
                continue
            # dense oracle
            if n <= dense_max and tab.n_qubits <= dense_max + 1 and op[0] not in ("ptrace", "tensor", "trace_out_qubits"):
                rho = tu.dense_rho(before)
                exp = dense_expected(rho, n, op, tab.n_qubits, outs)
                got = tu.dense_rho(tab)
                if not matches(exp, got):
                    key, clause = wrong_state_key(op, rho, n, got)
                    res.violation(key, clause, input=inp, impl=tu.tab_args(tab), outs=str(outs))
            elif op[0] in ("ptrace", "tensor", "trace_out_qubits") and n <= dense_max and tab.n_qubits <= dense_max + 1:
                r = dense_special(before, op, tab, extra)
                if r is not None and not r[0]:
                    res.violation(r[1], r[2], input=inp, impl=tu.tab_args(tab))
        reps = drv.batch(lines)
        for rep, (before, op, err, after, outs, inp, extra) in zip(reps, checks):
            nontriv = bool(np.any(np.asarray(before.phase) != 0)) and op[0] not in ("add",)
            if rep["_status"] == "ok":
                res.branch(rep.get("br", op[0]).split(","))
            if err is not None:
                if rep["_status"] != "err" or rep.get("_err") != err:
                    res.exact_break("tab.run:error-class", input=inp, impl=f"err {err}", model=rep["_raw"][:300])
                continue
            if rep["_status"] != "ok":
                res.exact_break("tab.run:error-class", input=inp, impl="ok", model=rep["_raw"][:300])
                continue
            if nontriv:
                res.nontrivial(inp["state"], inp["op"])
            same = tu.reply_tuple(rep) == tu.tab_tuple(after)
            if same and op[0] == "meas":
                o, was_random = outs[0]
                same = rep.get("outs") == f"{o}{'r' if was_random else 'd'}"
            if same and (op[0] in XYMEAS or op[0] == "measure_z"):
                o, was_random = outs[0]
                mo = rep.get("outs", "")
                same = mo[:1] == str(o) and (was_random is None or mo[1:] == ("r" if was_random else "d"))
            if not same:
                # relation R: same n, valid, same signed stabilizer group
                r_ok = int(rep["n"]) == after.n_qubits and tu.canon_from_reply(rep) == tu.stab_canon(after)
                if r_ok:
                    res.exact_break(f"tab.{op[0]}", input=inp, impl=tu.tab_args(after), model=rep["_raw"][:2000], relation_R="holds")
                else:
                    # the verified model tracks the state (Properties/C07); the implementation's state differs
                    res.violation(f"state:{op[0]}:differs-from-verified-model", f"state after {op[0]} differs (as a signed stabilizer group) from the verified model's",
                                  input=inp, impl=tu.tab_args(after), model=rep["_raw"][:2000])
            res.traces_validated += 1
        if lines:
            res.sample(lines[len(lines) // 2][:400] + " -> " + reps[len(lines) // 2]["_raw"][:200])
    finally:
        npr.randint = saved
        np.random.randint = saved


def all_two_qubit_tableaux():
    """BFS over the 11,520 two-qubit Clifford tableaux (iphase = 0)"""
    from graphiq.backends.stabilizer.clifford_tableau import CliffordTableau
    from graphiq.backends.stabilizer.functions import transformation as tr

    gens = [lambda t: tr.hadamard_gate(t, 0), lambda t: tr.hadamard_gate(t, 1), lambda t: tr.phase_gate(t, 0),
            lambda t: tr.phase_gate(t, 1), lambda t: tr.cnot_gate(t, 0, 1), lambda t: tr.cnot_gate(t, 1, 0)]
    start = CliffordTableau(2)
    seen = {tu.tab_tuple(start): start}
    frontier = [start]
    while frontier:
        nxt = []
        for t in frontier:
            for g in gens:
                u = g(t.copy())
                k = tu.tab_tuple(u)
                if k not in seen:
                    seen[k] = u
                    nxt.append(u)
        frontier = nxt
    return list(seen.values())


def exhaustive_two_qubit(ctx, res, drv):
    """every single op with every argument and forced outcome on all 11,520 two-qubit tableaux (destabilizer signs included)"""
    tabs = all_two_qubit_tableaux()
    res.extra["two_qubit_tableaux"] = len(tabs)
    if len(tabs) != 11520:
        # the enumeration runs the implementation's own gates: a changed gate would silently shrink (or blow up) the "exhaustive" space
        res.exact_break("coverage collapsed: two-qubit tableaux", input={"n": 2}, impl=f"BFS over hadamard / phase / cnot reached {len(tabs)} tableaux",
                        model="11,520 two-qubit Clifford tableaux (iphase = 0)")
    ops = []
    for g in GATES1:
        ops += [(g, 0), (g, 1)]
    for g in GATES2:
        ops += [(g, 0, 1), (g, 1, 0)]
    for q in (0, 1):
        for d in (0, 1):
            ops.append(("meas", q, d, 0))
            ops.append(("remove", q, d, 0))
            for it in (0, 1):
                ops.append(("resetz", q, it, d, 0))
        ops.append(("resetx", q, 1, 0, 0))
        ops.append(("resety", q, 0, 1, 0))
        for d in (0, 1):
            for k in sorted(XYMEAS) + ["measure_z"]:
                ops.append((k, q, d, 0))
    ops += [("insert", 0), ("insert", 1), ("insert", 2), ("add",)]
    for q in (0, 1):
        for d in (0, 1):
            for w in ("Stabilizer", "MixedStabilizer"):
                ops.append(("trace_out_qubits", (q,), d, (0, 0), w))
    scripted = Scripted()
    for t0 in tabs:
        lines, checks = [], []
        for op in ops:
            before = t0.copy()
            inp = {"state": tu.tab_args(before), "op": list(map(str, op))}
            try:
                after, outs, _ = apply_impl(before.copy(), op, scripted, None)
            except Exception as e:  # noqa: BLE001
                res.violation(f"api:{op[0]}:raises:{err_class(e)}", f"{op[0]} raised on a well-formed call", input=inp)
                continue
            res.evaluations += 1
            if not check_state(res, after, op[0], inp):
                continue
            if op[0] == "trace_out_qubits":
                r = dense_special(before, op, after, None)
                if not r[0]:
                    res.violation(r[1], r[2], input=inp, impl=tu.tab_args(after))
            else:
                rho = tu.dense_rho(before)
                exp = dense_expected(rho, 2, op, after.n_qubits, outs)
                got = tu.dense_rho(after)
                if not matches(exp, got):
                    key, clause = wrong_state_key(op, rho, 2, got)
                    res.violation(key, clause, input=inp, impl=tu.tab_args(after), outs=str(outs))
            lines.append(driver_line(before, op))
            checks.append((op, after, inp))
        reps = drv.batch(lines)
        for rep, (op, after, inp) in zip(reps, checks):
            res.nontrivial(inp["state"], inp["op"])
            if rep["_status"] != "ok" or tu.reply_tuple(rep) != tu.tab_tuple(after):
                r_ok = rep["_status"] == "ok" and int(rep["n"]) == after.n_qubits and tu.canon_from_reply(rep) == tu.stab_canon(after)
                (res.exact_break if r_ok else res.violation)(*(
                    (f"tab.{op[0]}",) if r_ok else (f"state:{op[0]}:differs-from-verified-model", "differs from verified model")),
                    input=inp, impl=tu.tab_args(after), model=rep["_raw"][:600])
            res.traces_validated += 1


def run(ctx, budget=1.0):
    res = Result()
    res.rule = ("one evaluation = one tableau-API call on one tableau (state taken from the implementation's own history); "
                "non-trivial = the start tableau has a non-zero sign vector; distinct by (full start tableau, op with arguments)")
    drv = Driver()
    rng = ctx.rng
    if ctx.quick:
        plan = [(rng.randrange(1, 6), 120, 6) for _ in range(int(40 * budget))] + \
               [(rng.randrange(6, 20), 100, 24) for _ in range(int(12 * budget))] + \
               [(rng.randrange(25, 41), 60, 44) for _ in range(int(4 * budget))]
    else:
        plan = [(rng.randrange(1, 6), 300, 6) for _ in range(200)] + \
               [(rng.randrange(6, 30), 300, 36) for _ in range(40)] + \
               [(100, 400, 104), (200, 250, 203)]
    # every walk runs under common.impl_guard: the start tableau (tu.random_tableau = the gate functions themselves), tab.copy() and the
    # BFS of the exhaustive part call graphiq outside a `try`; an exception there is the API under test raising on a well-formed call
    for k, (n0, steps, nmax) in enumerate(plan):
        with impl_guard(res, "api:walk", promise=True, input={"walk": k, "n0": n0, "steps": steps}):
            one_walk(ctx, res, drv, rng, n0, steps, nmax)
    if not ctx.quick:
        with impl_guard(res, "api:exhaustive-two-qubit", promise=True):
            exhaustive_two_qubit(ctx, res, drv)
            res.notes.append(f"exhaustive: all {res.extra.get('two_qubit_tableaux')} two-qubit tableaux reached x every single operation with every argument and forced outcome")
    res.extra["driver_lines"] = drv.n_lines
    drv.close()
    return res


def search(ctx, res, proof_broken):
    """proof or correspondence broke and no failing input yet: hammer the dense oracle on small tableaux"""
    drv = Driver()
    for _ in range(150):
        one_walk(ctx, res, drv, ctx.rng, ctx.rng.randrange(1, 5), 150, 5, malformed_rate=0.0)
        if res.violations:
            break
    if not res.violations:
        exhaustive_two_qubit(ctx, res, drv)
    drv.close()


def replay(ctx, data):
    """re-evaluate the stored failing case on the implementation with the dense oracle"""
    v = data.get("violation") or {}
    inp = v.get("input")
    if not inp:
        return None
    from graphiq.backends.stabilizer.clifford_tableau import CliffordTableau

    kv = dict(t.split("=", 1) for t in inp["state"].split())
    n = int(kv["n"])
    table = np.hstack([tu.unbits(kv["x"], (2 * n, n)), tu.unbits(kv["z"], (2 * n, n))])
    tab = CliffordTableau(table, tu.unbits(kv["r"], (2 * n,)))
    tab.iphase = tu.unbits(kv["i"], (2 * n,))
    op = tuple(int(s) if s.lstrip("-").isdigit() else (tuple(int(c) for c in s.strip("()").split(",") if c.strip()) if s.startswith("(") else s) for s in inp["op"])
    res = Result()
    scripted = Scripted()
    np.random.randint = scripted
    before = tab.copy()
    try:
        after, outs, _ = apply_impl(tab, op, scripted, None)
    except Exception as e:  # noqa: BLE001
        print("implementation raises", type(e).__name__, e)
        return False
    if op[0] == "tensor" and _ is None:
        _ = tensor_factors(op)
    if not check_state(res, after, op[0], inp):
        return False
    if n <= 5 and after.n_qubits <= 6:
        if op[0] in ("ptrace", "tensor", "trace_out_qubits"):
            r = dense_special(before, op, after, _)
            if r is not None and not r[0]:
                print("dense oracle:", r[1], "op", op, "state", inp["state"], "->", tu.tab_args(after))
                return False
        else:
            exp = dense_expected(tu.dense_rho(before), n, op, after.n_qubits, outs)
            got = tu.dense_rho(after)
            if not matches(exp, got):
                print("dense oracle:", wrong_state_key(op, tu.dense_rho(before), n, got)[0], "op", op, "state", inp["state"], "->", tu.tab_args(after))
                return False
    # any n: the signed stabilizer group must be the one of the verified model (Properties/C07: history_tracks_state)
    drv = Driver()
    rep = drv.batch([driver_line(before, op, _)])[0]
    drv.close()
    if rep["_status"] != "ok" or int(rep["n"]) != after.n_qubits or tu.canon_from_reply(rep) != tu.stab_canon(after):
        print("differs from the verified model: op", op, "state", inp["state"], "-> impl", tu.tab_args(after), "model", rep["_raw"][:600])
        return False
    return True
