"""
stabutil.py — helpers for the stabilizer-tableau properties (C03, C05, C11; also C02, C08):
protocol encoding of StabilizerTableau, re-gauging (random generating sets / destabilizers of the same state),
exhaustive enumeration of stabilizer states for n <= 3, independent GF(2) rank.
"""
import numpy as np

from harness import tabutil as tu
from harness.common import bits, unbits


def stab_args(st, pfx=""):
    n = st.n_qubits
    t = np.asarray(st.table).astype(int)
    return f"{pfx}n={n} {pfx}x={bits(t[:, :n])} {pfx}z={bits(t[:, n:])} {pfx}r={bits(st.phase)}"


def stab_tuple(st):
    n = st.n_qubits
    t = np.asarray(st.table).astype(int)
    return (n, bits(t[:, :n]), bits(t[:, n:]), bits(st.phase))


def reply_stab_tuple(rep):
    return (int(rep["n"]), rep["x"], rep["z"], rep["r"])


def stab_from_reply(rep):
    from graphiq.backends.stabilizer.tableau import StabilizerTableau

    n = int(rep["n"])
    x = unbits(rep["x"], (n, n))
    z = unbits(rep["z"], (n, n))
    return StabilizerTableau([x, z], unbits(rep["r"], (n,)))


def circ_token(circ):
    return ",".join(":".join(str(a) for a in g) for g in circ) if circ else "-"


def stab_canon_of(st):
    n = st.n_qubits
    t = np.asarray(st.table).astype(int)
    return tu.span_canon(t[:, :n], t[:, n:], np.asarray(st.phase))


def dense_rho_stab(st):
    n = st.n_qubits
    t = np.asarray(st.table).astype(int)
    rho = np.eye(2 ** n, dtype=complex) / 2 ** n
    for k in range(n):
        g = tu.pauli_matrix(t[k, :n], t[k, n:], st.phase[k], 0)
        rho = rho @ (np.eye(2 ** n) + g)
    return rho


# ------------------------------------------------------------------------------------------------ re-gauging
def _row(t, ph, ip, i, n):
    return (t[i, :n].copy(), t[i, n:].copy(), (2 * int(ph[i]) + int(ip[i])) % 4)


def _set(t, ph, ip, i, n, row):
    t[i, :n], t[i, n:] = row[0], row[1]
    ph[i], ip[i] = row[2] // 2, row[2] % 2


def regauge_clifford(tab, rng, steps=None):
    """another CliffordTableau of the SAME state: random generating set of the stabilizer group, matching destabilizers,
    random destabilizer signs.  Only symplectic row operations are used (S_i *= S_j with D_j *= D_i; pair swaps;
    D_i *= S_i; D_i *= S_j with D_j *= S_i)."""
    from graphiq.backends.stabilizer.clifford_tableau import CliffordTableau

    n = tab.n_qubits
    t = np.asarray(tab.table).astype(int).copy()
    ph = np.asarray(tab.phase).astype(int).copy()
    ip = np.asarray(tab.iphase).astype(int).copy()
    steps = steps if steps is not None else 3 * n + 2
    for _ in range(steps):
        k = rng.randrange(4)
        i = rng.randrange(n)
        j = rng.randrange(n)
        if k == 0 and i != j:
            _set(t, ph, ip, n + i, n, tu._mul(_row(t, ph, ip, n + j, n), _row(t, ph, ip, n + i, n)))
            _set(t, ph, ip, j, n, tu._mul(_row(t, ph, ip, i, n), _row(t, ph, ip, j, n)))
        elif k == 1 and i != j:
            for a, b in ((i, j), (n + i, n + j)):
                t[[a, b]] = t[[b, a]]
                ph[[a, b]] = ph[[b, a]]
                ip[[a, b]] = ip[[b, a]]
        elif k == 2:
            _set(t, ph, ip, i, n, tu._mul(_row(t, ph, ip, n + i, n), _row(t, ph, ip, i, n)))
        elif k == 3 and i != j:
            _set(t, ph, ip, i, n, tu._mul(_row(t, ph, ip, n + j, n), _row(t, ph, ip, i, n)))
            _set(t, ph, ip, j, n, tu._mul(_row(t, ph, ip, n + i, n), _row(t, ph, ip, j, n)))
    for i in range(n):
        if rng.random() < 0.5:
            ph[i] ^= 1
    out = CliffordTableau(t, ph)
    out.iphase = ip
    return out


def regauge_stab(st, rng, steps=None):
    """another StabilizerTableau generating the same signed group (row products and swaps)"""
    from graphiq.backends.stabilizer.tableau import StabilizerTableau

    n = st.n_qubits
    t = np.asarray(st.table).astype(int).copy()
    ph = np.asarray(st.phase).astype(int).copy()
    ip = np.zeros(n, dtype=int)
    steps = steps if steps is not None else 3 * n + 2
    for _ in range(steps):
        i, j = rng.randrange(n), rng.randrange(n)
        if i == j:
            continue
        if rng.random() < 0.7:
            _set(t, ph, ip, i, n, tu._mul(_row(t, ph, ip, j, n), _row(t, ph, ip, i, n)))
        else:
            t[[i, j]] = t[[j, i]]
            ph[[i, j]] = ph[[j, i]]
    assert not ip.any()
    return StabilizerTableau(t, ph)


# ------------------------------------------------------------------------------------------------ enumeration
_ALL = {}


def all_states(n):
    """one CliffordTableau per n-qubit stabilizer state (6, 60, 1080 for n = 1, 2, 3), by BFS under H, P, CNOT from |0..0>"""
    if n in _ALL:
        return _ALL[n]
    from graphiq.backends.stabilizer.clifford_tableau import CliffordTableau
    from graphiq.backends.stabilizer.functions import transformation as tr

    gens = []
    for q in range(n):
        gens.append(lambda t, q=q: tr.hadamard_gate(t, q))
        gens.append(lambda t, q=q: tr.phase_gate(t, q))
        for p in range(n):
            if p != q:
                gens.append(lambda t, q=q, p=p: tr.cnot_gate(t, q, p))
    start = CliffordTableau(n)
    seen = {tu.stab_canon(start): start}
    frontier = [start]
    while frontier:
        nxt = []
        for t in frontier:
            for g in gens:
                u = g(t.copy())
                k = tu.stab_canon(u)
                if k not in seen:
                    seen[k] = u
                    nxt.append(u)
        frontier = nxt
    _ALL[n] = list(seen.values())
    return _ALL[n]


def random_state(rng, n):
    t = tu.random_tableau(rng, n)
    return regauge_clifford(t, rng)


# ------------------------------------------------------------------------------------------------ GF(2) rank
def rank_gf2(m):
    m = (np.asarray(m).astype(int) % 2).copy()
    rows, cols = m.shape
    r = 0
    for c in range(cols):
        piv = None
        for i in range(r, rows):
            if m[i, c]:
                piv = i
                break
        if piv is None:
            continue
        m[[r, piv]] = m[[piv, r]]
        for i in range(rows):
            if i != r and m[i, c]:
                m[i] ^= m[r]
        r += 1
        if r == rows:
            break
    return r


def height_spec(x, z):
    """entanglement entropy (bits) across the cut {0..k} | {k+1..n-1} for every k, computed independently of rref:
    S_A = rank(M_A) - |A| where M_A are the x- and z-columns of the qubits in A"""
    x = np.asarray(x).astype(int) % 2
    z = np.asarray(z).astype(int) % 2
    n = x.shape[0]
    return [rank_gf2(np.hstack([x[:, : k + 1], z[:, : k + 1]])) - (k + 1) for k in range(n)]
