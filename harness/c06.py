"""
C06 — noisy simulation is physical, backend-independent and switchable.

Correspondence: random circuits with noise attached (directly, incl. mixed placements on controlled gates, and through
`assign_noise` with random noise maps) are compiled by the real `DensityMatrixCompiler` / `StabilizerCompiler`; the same
unwrapped operation sequence (with `op.noise`) is sent to the Lean model (`noise.run`).  Compared exactly: the action
trace (gate executions and *effective* noise applications, observed through logging noise objects and a logging
compiler subclass), the error class, the classical record, the mixture (weights, tableaux, order) and the density
matrix (entrywise within 1e-9 of the model's exact rational matrix).

Direct oracle (independent of the model): density matrix Hermitian with min eigenvalue >= -1e-9 and trace equal to the
product of (1 - loss) over the loss applications observed in the log; mixture weight equal to the same product and every
tableau symplectic; sum_k p_k rho(T_k) (own converter) equal to the density matrix; Infidelity agrees between the two
backends for pure stabilizer targets; noise off / empty map / zero strength reproduce the noiseless state.
"""
import copy
from fractions import Fraction as Fr

import numpy as np

from harness import dmutil as du
from harness import tabutil as tu
from harness.common import Driver, Result, err_class

LEVEL = "proof"
TRUSTED_BASE = [
    "Lean 4.33 kernel",
    "hand-written model GraphiqModel/Model/{Gauss,DMSem,Noise}.lean tied to compiler_base.py, noise_models.py, stabilizer/state.py, "
    "density_matrix/{state,functions,compiler}.py, stabilizer/compiler.py by this correspondence run",
    "Model/Tableau.lean (C07) for the per-branch tableau operations",
    "clause (c) (DM = sum_k p_k rho(T_k)) is proved about the exact models for measurement-free circuits and - for the repaired joint "
    "MixedStabilizer.apply_measurement - for circuits with measurements, no condition on the outcomes (Properties/C06.lean: dm_equals_mixture, "
    "dm_equals_mixture_with_measurements); the driver's per-input evaluation of both sides (n<=4) only tests the compiled definitions against numpy",
    "two modelled versions of MixedStabilizer.apply_measurement: Mix.measure (repaired, joint) and Mix.measureOld (graphiq before the repair of "
    "finding F2, per branch); `repaired()` probes the implementation once per process on the F2 witness and selects the model (driver token "
    "meas=old); a backend disagreement after a measurement is the known finding F2 only on unrepaired code, an ordinary violation otherwise",
    "positivity of the *floating-point* matrix is checked by the oracle (min eigenvalue >= -1e-9), not proved",
    "harness, line protocol, logging noise wrappers, numpy reference converter",
]
ASSUMPTIONS = [
    "measurement_determinism in {0, 1} in the compile comparisons; the \"probabilistic\" setting of the repaired joint measurement is compared "
    "separately with the draw np.random.random() scripted (measdraw_check: model Mix.measureDraw, plus a numpy oracle for the measured state); "
    "np.random.randint is patched to fail there (the joint measurement must not draw per branch)",
    "additive noise on measurement-type operations is outside the quantifier (the DM compiler rejects it with ValueError, "
    "the stabilizer compiler ignores it); it is exercised in the malformed stream only, error class compared",
    "replacement noise models are outside the quantifier (placement branch modelled, state not)",
    "strengths are rationals in [0,1]; float weights agree with the exact ones on the `> 0` filter and np.isclose checks",
]

def _g(fn):
    return du.guarded(fn)


STRENGTHS = [Fr(0), Fr(1, 100), Fr(1, 10), Fr(1, 3), Fr(1, 2), Fr(1)]
ONEQ = ["h", "s", "sdg", "x", "y", "z", "identity"]
KIND_OF_CLASS = {
    "Input": "input", "Output": "output", "Identity": "identity", "Hadamard": "h", "Phase": "s", "PhaseDagger": "sdg",
    "SigmaX": "x", "SigmaY": "y", "SigmaZ": "z", "CNOT": "cnot", "CZ": "cz", "ClassicalCNOT": "ccnot",
    "ClassicalCZ": "ccz", "MeasurementCNOTandReset": "mcr", "MeasurementZ": "measz",
}

LOG = []


def _classes():
    import graphiq.circuit.ops as ops

    return {"h": ops.Hadamard, "s": ops.Phase, "sdg": ops.PhaseDagger, "x": ops.SigmaX, "y": ops.SigmaY,
            "z": ops.SigmaZ, "identity": ops.Identity, "cnot": ops.CNOT, "cz": ops.CZ, "ccnot": ops.ClassicalCNOT,
            "ccz": ops.ClassicalCZ, "mcr": ops.MeasurementCNOTandReset, "measz": ops.MeasurementZ}


_NOISE_CLASSES = {}


def noise_classes():
    """logging subclasses of the three additive noise models (observe `apply` without touching the repository)"""
    if _NOISE_CLASSES:
        return _NOISE_CLASSES
    import graphiq.noise.noise_models as nm

    def mk(base):
        class Logged(base):
            def apply(self, state, n_quantum, reg_list, *args, **kwargs):
                LOG.append(("n", id(self), tuple(int(r) for r in reg_list)))
                return super().apply(state, n_quantum, reg_list, *args, **kwargs)

        Logged.__name__ = "Logged" + base.__name__
        return Logged

    _NOISE_CLASSES.update(D=mk(nm.DepolarizingNoise), P=mk(nm.PauliError), L=mk(nm.PhotonLoss), NoNoise=nm.NoNoise)

    class Repl(nm.OneQubitGateReplacement):
        def apply(self, state, n_quantum, reg_list, *args, **kwargs):
            LOG.append(("rn", id(self), tuple(reg_list)))

    _NOISE_CLASSES["R"] = Repl
    return _NOISE_CLASSES


def mk_noise(spec):
    """spec: ("N",) | ("D", Fraction, after) | ("P", "X", after) | ("L", Fraction, after) | ("R",)"""
    nc = noise_classes()
    k = spec[0]
    if k == "N":
        return nc["NoNoise"]()
    if k == "R":
        return nc["R"](np.eye(2))
    if k == "D":
        n = nc["D"](float(spec[1]))
    elif k == "L":
        n = nc["L"](float(spec[1]))
    else:
        n = nc["P"](spec[1])
    n.noise_parameters["After gate"] = bool(spec[2])
    return n


def noise_token(n):
    """encode a noise *object* of the implementation for the driver"""
    import graphiq.noise.noise_models as nm

    if isinstance(n, nm.NoNoise):
        return "N"
    aft = "a" if n.noise_parameters.get("After gate", True) else "b"
    if isinstance(n, nm.DepolarizingNoise):
        return f"D@{du.fr_str(Fr(n.noise_parameters['Depolarizing probability']).limit_denominator(10**6))}@{aft}"
    if isinstance(n, nm.PhotonLoss):
        return f"L@{du.fr_str(Fr(n.noise_parameters['loss rate']).limit_denominator(10**6))}@{aft}"
    if isinstance(n, nm.PauliError):
        p = n.noise_parameters["Pauli error"]
        return f"P@{p if p in ('I', 'X', 'Y', 'Z') else 'B'}@{aft}"
    if isinstance(n, nm.ReplacementNoiseBase):
        return "R"
    return "O"


def gen_noise(rng, p_none=0.35, zero=False):
    w = rng.random()
    if w < p_none:
        return ("N",)
    after = rng.random() < 0.5
    k = rng.choice(["D", "D", "P", "L"])
    if k == "P":
        return ("P", "I" if zero else rng.choice(["X", "Y", "Z", "I"]), after)
    return (k, Fr(0) if zero else rng.choice(STRENGTHS), after)


def zero_of(spec):
    if spec[0] in ("D", "L"):
        return (spec[0], Fr(0), spec[2])
    if spec[0] == "P":
        return ("P", "I", spec[2])
    return spec


def gen_circuit(rng, quick, with_meas=True, nmax=4, allow_wrapper=True):
    """-> spec dict: ne, np, nc, ops=[(kind, args…, noises)]"""
    ne = rng.randint(1, 2)
    npn = rng.randint(0 if ne == 2 else 1, max(1, nmax - ne))
    if ne + npn > nmax:
        npn = nmax - ne
    regs = [("e", i) for i in range(ne)] + [("p", i) for i in range(npn)]
    nops = rng.randint(1, 10 if quick else 25)
    ops_ = []
    for _ in range(nops):
        w = rng.random()
        if w < 0.45 or len(regs) < 2:
            t, r = rng.choice(regs)
            if allow_wrapper and rng.random() < 0.15:
                kinds = [rng.choice(ONEQ[:6]) for _ in range(rng.randint(1, 3))]
                if rng.random() < 0.3:
                    ops_.append(("wrap1", kinds, r, t, gen_noise(rng, p_none=0.0)))
                else:
                    ops_.append(("wrap", kinds, r, t, [gen_noise(rng) for _ in kinds]))
            else:
                ops_.append((rng.choice(ONEQ), r, t, gen_noise(rng)))
        elif w < 0.8 or not with_meas:
            (t1, r1), (t2, r2) = rng.sample(regs, 2)
            n0, n1 = gen_noise(rng), gen_noise(rng)
            if rng.random() < 0.3 and n0[0] != "N" and n1[0] != "N":
                n1 = n1[:2] + (not n0[2],)      # force a mixed placement often
            ops_.append((rng.choice(["cnot", "cz"]), r1, t1, r2, t2, n0, n1))
        elif w < 0.88:
            t, r = rng.choice(regs)
            ops_.append(("measz", r, t, rng.randrange(2), ("N",)))
        else:
            (t1, r1), (t2, r2) = rng.sample(regs, 2)
            ops_.append((rng.choice(["mcr", "ccnot", "ccz"]), r1, t1, r2, t2, rng.randrange(2), ("N",), ("N",)))
    return dict(ne=ne, np=npn, nc=2, ops=ops_)


def build(spec, transform=lambda s: s, clean=False):
    """build the CircuitDAG of a spec; `transform` maps each noise spec (e.g. zero_of); returns (circuit, noise objects)"""
    import graphiq.circuit.ops as ops
    from graphiq.circuit.circuit_dag import CircuitDAG

    cls = _classes()
    c = CircuitDAG(n_emitter=spec["ne"], n_photon=spec["np"], n_classical=spec["nc"])
    objs = []

    def nz(s):
        n = mk_noise(("N",) if clean else transform(s))
        objs.append((s, n))
        return n

    for o in spec["ops"]:
        k = o[0]
        if k == "wrap":
            _, kinds, r, t, noises = o
            c.add(ops.OneQubitGateWrapper([cls[x] for x in kinds], register=r, reg_type=t, noise=[nz(s) for s in noises]))
        elif k == "wrap1":
            _, kinds, r, t, noise = o
            c.add(ops.OneQubitGateWrapper([cls[x] for x in kinds], register=r, reg_type=t, noise=nz(noise)))
        elif k in ONEQ:
            c.add(cls[k](register=o[1], reg_type=o[2], noise=nz(o[3])))
        elif k in ("cnot", "cz"):
            c.add(cls[k](control=o[1], control_type=o[2], target=o[3], target_type=o[4], noise=[nz(o[5]), nz(o[6])]))
        elif k == "measz":
            c.add(cls[k](register=o[1], reg_type=o[2], c_register=o[3], noise=nz(o[4])))
        else:
            c.add(cls[k](control=o[1], control_type=o[2], target=o[3], target_type=o[4], c_register=o[5], noise=[nz(o[6]), nz(o[7])]))
    return c, objs


def encode_seq(seq):
    """driver encoding of `circuit.sequence(unwrapped=True)` with the noise the implementation attached"""
    toks = []
    for op in seq:
        name = type(op).__name__
        kind = KIND_OF_CLASS.get(name, "param")
        if kind in ("input", "output"):
            toks.append(f"{kind}:{op.register if op.register is not None else 0}:{op.reg_type}:0:e:0:N:N")
        elif kind in ("cnot", "cz", "ccnot", "ccz", "mcr"):
            c = getattr(op, "c_register", 0)
            n = op.noise if isinstance(op.noise, list) else [op.noise, op.noise]
            toks.append(f"{kind}:{op.control}:{op.control_type}:{op.target}:{op.target_type}:{c}:{noise_token(n[0])}:{noise_token(n[1])}")
        elif kind == "measz":
            toks.append(f"{kind}:{op.register}:{op.reg_type}:0:e:{op.c_register}:{noise_token(op.noise)}:N")
        else:
            toks.append(f"{kind}:{op.register}:{op.reg_type}:0:e:0:{noise_token(op.noise)}:N")
    return ",".join(toks) if toks else "-"


def run_impl(circ, backend, noise_sim, det):
    """-> dict(seq, trace, err | state…) — compile with logging compiler on a *fixed* unwrapped sequence"""
    from graphiq.backends.density_matrix.compiler import DensityMatrixCompiler
    from graphiq.backends.stabilizer.compiler import StabilizerCompiler

    base = DensityMatrixCompiler if backend == "dm" else StabilizerCompiler
    seq = circ.sequence(unwrapped=True)
    idx = {id(op): k for k, op in enumerate(seq)}

    class Logging(base):
        def compile_one_gate(self, state, op, *a, **k):
            LOG.append(("g", idx.get(id(op), -1)))
            return super().compile_one_gate(state, op, *a, **k)

        def compile_one_noisy_gate(self, state, op, *a, **k):
            LOG.append(("r", idx.get(id(op), -1)))
            return super().compile_one_noisy_gate(state, op, *a, **k)

    class Fixed:
        """the circuit as the compiler sees it: same object, `sequence` pinned to the list we encoded"""

        def __init__(self, c):
            self._c = c

        def __getattr__(self, nm):
            return getattr(self._c, nm)

        def sequence(self, *args, **kwargs):
            return seq

    comp = Logging()
    comp.noise_simulation = noise_sim
    comp.measurement_determinism = det
    del LOG[:]
    # encoded *before* compiling: an exception inside a mixed-placement branch leaves `op.noise` overwritten
    out = dict(seq=seq, enc=encode_seq(seq))
    try:
        import io
        import contextlib

        with contextlib.redirect_stdout(io.StringIO()):
            st = comp.compile(Fixed(circ))
        out["state"] = st
    except Exception as e:  # noqa: BLE001
        out["err"] = err_class(e)
        out["exc"] = repr(e)[:200]
    out["log"] = list(LOG)
    return out


_REPAIRED = None


def repaired():
    """Is `MixedStabilizer.apply_measurement` the repaired, joint measurement (finding F2 fixed)?  Decided by behaviour, once per
    process, on the witness of F2: the mixture {1/2: |0>, 1/2: |1>} measured with forced outcome 1.  The per-branch measurement of
    graphiq before the repair keeps both branches and returns the outcomes [0, 1]; the joint measurement returns one outcome for the
    whole mixture and keeps only the |1> branch with weight 1.  The answer selects the model the implementation is compared with
    (`compileStabOld` / `compileStab`: driver token `meas=old`) and whether a backend disagreement after a measurement is the known
    finding F2 (unrepaired code only) or an ordinary violation."""
    global _REPAIRED
    if _REPAIRED is None:
        try:
            from graphiq.backends.stabilizer.state import MixedStabilizer
            from graphiq.backends.stabilizer.clifford_tableau import CliffordTableau
            import graphiq.backends.stabilizer.functions.transformation as tr

            t0 = CliffordTableau(1)
            t1 = tr.x_gate(CliffordTableau(1), 0)
            ms = MixedStabilizer(1)
            ms.mixture = [(0.5, t0), (0.5, t1)]
            outs = ms.apply_measurement(0, measurement_determinism=1)
            _REPAIRED = (len(set(outs)) == 1 and len(ms.mixture) == 1 and abs(ms.mixture[0][0] - 1.0) < 1e-12)
        except Exception:  # noqa: BLE001
            _REPAIRED = False
    return _REPAIRED


def model_line(spec_or_circ, enc, backend, noise_sim, det, want_mixdm=False):
    ne, npn, nc = spec_or_circ
    return (f"noise.run be={backend} ns={1 if noise_sim else 0} ne={ne} np={npn} nc={nc} det={det} "
            f"ops={enc}" + (" want=mixdm" if want_mixdm else "") + ("" if repaired() or backend != "stab" else " meas=old"))


def model_trace_to_log(trace, seq):
    """model trace tokens -> the (kind, id/idx, qubits) tuples the implementation logs"""
    out = []
    if trace in ("-", ""):
        return out
    for t in trace.split(","):
        if t[0] == "g":
            out.append(("g", int(t[1:])))
        elif t[0] == "r":
            out.append(("r", int(t[1:])))
        else:
            k, side, q = t[1:].split(".")
            op = seq[int(k)]
            n = op.noise[int(side)] if isinstance(op.noise, list) else op.noise
            out.append(("n", id(n), (int(q),)))
    return out


def mixture_of(state):
    from graphiq.backends.stabilizer.state import MixedStabilizer

    rd = state.rep_data
    if isinstance(rd, MixedStabilizer):
        return [(float(p), t) for p, t in rd.mixture], True
    return [(1.0, rd.tableau)], False


def tabc(t):
    n = t.n_qubits
    tb = np.asarray(t.table).astype(int)
    from harness.common import bits

    return f"{bits(tb[:, :n])}/{bits(tb[:, n:])}/{bits(t.phase)}/{bits(t.iphase)}"


def parse_mix(s):
    if s in ("-", ""):
        return []
    out = []
    for item in s.split(";"):
        w, t = item.split("|")
        out.append((Fr(w), t))
    return out


def loss_product(log, objs_by_id):
    """product of (1 - rate) over the PhotonLoss applications observed in the log (independent of the model)"""
    import graphiq.noise.noise_models as nm

    p = 1.0
    k = 0
    for e in log:
        if e[0] == "n":
            n = objs_by_id.get(e[1])
            if isinstance(n, nm.PhotonLoss):
                p *= 1.0 - n.noise_parameters["loss rate"]
                k += 1
    return p, k


def has_meas_after_noise(log, seq):
    """(some measurement-type op executed after a noise application, some measurement executed after a loss)"""
    import graphiq.noise.noise_models as nm

    seen_noise = seen_loss = False
    m_noise = m_loss = False
    objs = {}
    for op in seq:
        for n in (op.noise if isinstance(op.noise, list) else [op.noise]):
            objs[id(n)] = n
    for e in log:
        if e[0] == "n":
            seen_noise = True
            if isinstance(objs.get(e[1]), nm.PhotonLoss) and objs[e[1]].noise_parameters["loss rate"] != 0:
                seen_loss = True
        elif e[0] == "g":
            kind = KIND_OF_CLASS.get(type(seq[e[1]]).__name__, "")
            if kind in ("measz", "mcr", "ccnot", "ccz"):
                m_noise = m_noise or seen_noise
                m_loss = m_loss or seen_loss
    return m_noise, m_loss


def placement_oracle(res, im, n_photon, noise_sim, inp, be):
    """clause (a) evaluated on the implementation's own log (no model): with noise on, every non-NoNoise additive noise attached to a
    one-qubit gate / CNOT / CZ is applied exactly once, on the qubit it addresses, before its gate iff its `After gate` flag is False;
    with noise off nothing is applied"""
    import graphiq.circuit.ops as ops
    import graphiq.noise.noise_models as nm

    log = im["log"]
    if not noise_sim:
        if any(e[0] in ("n", "rn") for e in log):
            res.violation("switch-off:noise-applied", "a noise model was applied although noise_simulation is False", input=inp, backend=be)
        return
    if "err" in im:
        return
    pos_gate = {e[1]: i for i, e in enumerate(log) if e[0] == "g"}
    for k, op in enumerate(im["seq"]):
        if not isinstance(op, (ops.OneQubitOperationBase, ops.ControlledPairOperationBase)):
            continue
        if isinstance(op, ops.ControlledPairOperationBase):
            pairs = [(op.noise[0], op.control, op.control_type), (op.noise[1], op.target, op.target_type)]
        else:
            pairs = [(op.noise, op.register, op.reg_type)]
        for noise, reg, rt in pairs:
            if isinstance(noise, nm.NoNoise) or not isinstance(noise, nm.AdditionNoiseBase):
                continue
            q = reg if rt == "p" else reg + n_photon
            # a noise object may be shared by several operations (noise maps): count the applications adjacent to this gate
            gi = pos_gate.get(k)
            if gi is None:
                continue
            lo = gi
            while lo > 0 and log[lo - 1][0] == "n":
                lo -= 1
            hi = gi
            while hi + 1 < len(log) and log[hi + 1][0] == "n":
                hi += 1
            before = [e for e in log[lo:gi] if e[1] == id(noise) and e[2] == (q,)]
            after = [e for e in log[gi + 1:hi + 1] if e[1] == id(noise) and e[2] == (q,)]
            want_after = bool(noise.noise_parameters["After gate"])
            # neighbouring operations may legitimately contribute applications of a *shared* object to the same run of 'n' events, so
            # only the side is demanded strictly when the object is attached once in the whole sequence
            shared = sum(1 for o in im["seq"] for x in (o.noise if isinstance(o.noise, list) else [o.noise]) if x is noise) > 1
            if shared:
                ok = (len(after) >= 1) if want_after else (len(before) >= 1)
            else:
                ok = (len(after) == 1 and not before) if want_after else (len(before) == 1 and not after)
                ok = ok and sum(1 for e in log if e[0] == "n" and e[1] == id(noise)) == 1
            if not ok:
                res.violation("placement:wrong-side-or-count", "an attached additive noise is not applied exactly once on the side its 'After gate' "
                              "flag asks for", input=inp, backend=be, op=k, kind=type(op).__name__, after_flag=want_after,
                              before=len(before), after=len(after))
                return


F_RENORM = "dm:measurement-after-loss:trace-renormalised"
F_BRANCH = "mixture:measurement-after-noise:per-branch-outcomes"
F_D37 = "stab:loss-rate-1:depolarizing:empty-mixture"
F_MIXCONV = "infidelity:dm-target:mixture-state:raises"


def check_case(res, drv, spec, mk_circ, det, noise_sim, tag, ref_clean=None):
    """run both backends of the implementation and of the model on one circuit; returns dict of impl results"""
    dims = (spec["ne"], spec["np"], spec["nc"])
    n = spec["ne"] + spec["np"]
    results = {}
    impl = {}
    for be in ("dm", "stab"):
        impl[be] = run_impl(mk_circ(), be, noise_sim, det)      # a fresh circuit (fresh noise objects) per run
    seq = impl["stab"]["seq"]
    lines = [model_line(dims, impl[be]["enc"], be, noise_sim, det, want_mixdm=(be == "stab" and n <= 4)) for be in ("dm", "stab")]
    reps = dict(zip(("dm", "stab"), drv.batch(lines)))
    inp = dict(tag=tag, ne=spec["ne"], np=spec["np"], nc=spec["nc"], det=det, noise_sim=noise_sim, ops=impl["dm"]["enc"], spec=repr(spec))
    res.sample(lines[1] + " -> " + reps["stab"]["_raw"][:200])
    objs = {}
    for be in ("dm", "stab"):
        for op in impl[be]["seq"]:
            for nn in (op.noise if isinstance(op.noise, list) else [op.noise]):
                objs[id(nn)] = nn
        for e in impl[be]["log"]:
            pass
    for be in ("dm", "stab"):
        im, rep = impl[be], reps[be]
        res.evaluations += 1
        res.count("sizes", f"n={n}")
        # ---- exact: error class / trace
        if "err" in im:
            res.count("errors", f"{be}:{im['err']}")
            if rep["_status"] != "err" or rep.get("_err") != im["err"]:
                res.exact_break(f"noise.run[{be}]:error-class", input=inp, impl=im["err"] + " " + im.get("exc", ""), model=rep["_raw"][:300])
            continue
        if rep["_status"] != "ok":
            res.exact_break(f"noise.run[{be}]:error-class", input=inp, impl="ok", model=rep["_raw"][:300])
            continue
        want = model_trace_to_log(rep.get("trace", "-"), im["seq"])
        got = [e for e in im["log"] if e[0] in ("g", "n", "r")]
        if want != got:
            res.exact_break(f"compile[{be}]:action-trace", input=inp, impl=str([e[:1] + e[2:] if e[0] == 'n' else e for e in got])[:400],
                            model=rep.get("trace", "")[:400])
        res.traces_validated += 1
        res.branch([f"trace-len:{min(len(got) // 5 * 5, 40)}"])
    for be in ("dm", "stab"):
        placement_oracle(res, impl[be], spec["np"], noise_sim, inp, be)
    # ---------------------------------------------------------------------------- states
    dm_ok = "state" in impl["dm"] and reps["dm"]["_status"] == "ok"
    st_ok = "state" in impl["stab"] and reps["stab"]["_status"] == "ok"
    rho = mix = None
    if "state" in impl["dm"]:
        rho = np.asarray(impl["dm"]["state"].rep_data.data)
        results["rho"] = rho
    if "state" in impl["stab"]:
        mix, is_mixed = mixture_of(impl["stab"]["state"])
        results["mix"] = mix
    if dm_ok:
        rep = reps["dm"]
        if rep.get("nan") == "1":
            if not np.any(np.isnan(rho)):
                res.exact_break("noise.run[dm]:nan", input=inp, impl="finite", model="nan")
        else:
            mrho = du.parse_mat(rep).to_complex()
            if np.any(np.isnan(rho)) or not du.mat_close(rho, mrho):
                res.exact_break("noise.run[dm]:state", input=inp, impl=str(np.round(rho, 6).tolist())[:300], model=rep["m"][:300])
            rec = [int(v) for v in rep["rec"].split(",")] if rep["rec"] != "-" else []
    if st_ok:
        rep = reps["stab"]
        mm = parse_mix(rep["mix"])
        same = len(mm) == len(mix) and all(abs(float(w) - p) <= 1e-12 + 1e-9 * abs(p) and tabc(t) == ts for (p, t), (w, ts) in zip(mix, mm))
        if not same:
            res.exact_break("noise.run[stab]:mixture", input=inp, impl=str([(round(p, 6), tabc(t)) for p, t in mix])[:400], model=rep["mix"][:400])
        res.branch([f"branches:{min(len(mix), 16)}"])
    # ---------------------------------------------------------------------------- direct oracle
    m_noise, m_loss = has_meas_after_noise(impl["stab"]["log"], impl["stab"]["seq"])
    _, m_loss_dm = has_meas_after_noise(impl["dm"]["log"], impl["dm"]["seq"])
    if rho is not None and not np.any(np.isnan(rho)):
        surv, nloss = loss_product(impl["dm"]["log"], objs)
        herm = du.mat_close(rho, rho.conj().T)
        if not herm or du.min_eig(rho) < -1e-9:
            res.violation("dm:not-psd", "density-matrix result is not positive semidefinite", input=inp, min_eig=du.min_eig(rho))
        tr = float(np.trace(rho).real)
        if abs(tr - surv) > 1e-9:
            if m_loss_dm:
                res.violation(F_RENORM, "trace of the density matrix is not the product of the survival probabilities: a measurement after "
                              "a photon loss renormalised the state", input=inp, trace=tr, expected=surv)
            else:
                res.violation("dm:trace-not-survival-product", "trace of the density matrix is not the product of the photon survival probabilities",
                              input=inp, trace=tr, expected=surv)
        if nloss:
            res.branch(["loss-events"])
    elif rho is not None:
        res.violation(F_RENORM, "density matrix is NaN: a measurement after a photon loss of rate 1 divided by a zero probability", input=inp)
    if mix is not None:
        surv, _ = loss_product(impl["stab"]["log"], objs)
        w = sum(p for p, _ in mix)
        if abs(w - surv) > 1e-9:
            res.violation("mixture:weight-not-survival-product", "total weight of the mixture is not the product of the photon survival probabilities",
                          input=inp, weight=w, expected=surv)
        for p, t in mix:
            if not (tu.is_binary(t) and tu.is_valid(t)):
                res.violation("mixture:invalid-tableau", "a branch of the mixture is not a valid Clifford tableau", input=inp)
                break
            if p < -1e-15:
                res.violation("mixture:negative-weight", "a branch of the mixture has negative weight", input=inp)
                break
    if rho is not None and mix is not None and not np.any(np.isnan(rho)) and n <= 4:
        ref = sum(p * du.stab_density(t) for p, t in mix)
        # which theorem of Properties/C06.lean speaks about this input (coverage record only): `dm_equals_mixture` (no measurement),
        # `dm_equals_mixture_with_uniform_measurements` (the model's nonUniform flag off), or neither (flag on: domain of finding F2)
        has_meas = any(KIND_OF_CLASS.get(type(o).__name__, "") in ("measz", "mcr", "ccnot", "ccz") for o in impl["stab"]["seq"])
        res.branch(["clause-c:" + ("branches-disagree-at-a-measurement(former F2 domain)" if reps["stab"].get("nonunif") == "1"
                                   else ("measurements" if has_meas else "measurement-free"))])
        if not du.mat_close(ref, rho):
            flags_nonunif = reps["stab"].get("nonunif") == "1"
            if m_loss and abs(float(np.trace(rho).real) - float(np.trace(ref).real)) > 1e-9:
                res.violation(F_RENORM, "backends disagree: the density-matrix measurement renormalised away the photon-loss weight", input=inp)
            elif m_noise and flags_nonunif and not repaired():
                res.violation(F_BRANCH, "backends disagree after a measurement whose outcome distribution differs between the branches of the mixture",
                              input=inp)
            else:
                res.violation("backends-disagree", "density matrix differs from sum_k p_k rho(T_k) of the mixed-stabilizer result", input=inp,
                              dm=str(np.round(rho, 6).tolist())[:300], mixture=str(np.round(ref, 6).tolist())[:300])
        else:
            # model-side R check: exact equality of the model's DM and the model's sum_k p_k rho(T_k)
            if dm_ok and st_ok and reps["dm"].get("nan") != "1" and "m" in reps["stab"]:
                a = du.parse_mat(reps["dm"]).key()
                b = du.parse_mat(reps["stab"]).key()
                if a != b and (repaired() or reps["stab"].get("nonunif") != "1"):
                    res.exact_break("model:dm-vs-mixture", input=inp, impl="agree", model="model's two backends differ")
    elif "err" in impl["stab"] and "state" in impl["dm"]:
        # D37: loss rate 1 followed by depolarizing empties the mixture
        if impl["stab"]["err"] == "assertion" and any(
                getattr(o, "noise_parameters", {}).get("loss rate") == 1.0 for o in objs.values()):
            res.violation(F_D37, "stabilizer backend raises AssertionError (empty mixture) where the density-matrix backend returns the zero matrix",
                          input=inp)
        elif impl["stab"]["err"] not in ("runtime",):
            res.violation("backends-disagree:error", "stabilizer backend raises where the density-matrix backend returns a state", input=inp,
                          error=impl["stab"].get("exc"))
    elif "err" in impl["dm"] and "state" in impl["stab"]:
        res.violation("backends-disagree:error", "density-matrix backend raises where the stabilizer backend returns a state", input=inp,
                      error=impl["dm"].get("exc"))
    return results, impl, reps


def states_equal(a, b):
    """two result dicts of check_case describe the same states"""
    ok = True
    if "rho" in a and "rho" in b:
        ok = ok and du.mat_close(a["rho"], b["rho"])
    else:
        ok = ok and (("rho" in a) == ("rho" in b))
    if "mix" in a and "mix" in b:
        ra = sum(p * du.stab_density(t) for p, t in a["mix"])
        rb = sum(p * du.stab_density(t) for p, t in b["mix"])
        ok = ok and du.mat_close(ra, rb)
    else:
        ok = ok and (("mix" in a) == ("mix" in b))
    return ok


def spec_has_noise(spec):
    for o in spec["ops"]:
        for f in o:
            if isinstance(f, tuple) and f and f[0] in ("D", "P", "L"):
                return True
            if isinstance(f, list) and any(isinstance(x, tuple) and x[0] in ("D", "P", "L") for x in f):
                return True
    return False


# ------------------------------------------------------------------------------------------------ noise maps
MAP_1Q = ["h", "s", "sdg", "x", "y", "z", "identity"]
CLASS_NAME = {"h": "Hadamard", "s": "Phase", "sdg": "PhaseDagger", "x": "SigmaX", "y": "SigmaY", "z": "SigmaZ",
              "identity": "Identity", "cnot": "CNOT", "cz": "CZ", "ccnot": "ClassicalCNOT", "ccz": "ClassicalCZ",
              "mcr": "MeasurementCNOTandReset", "measz": "MeasurementZ"}


def gen_map(rng, empty=False):
    """random noise map {reg type: {operation name: noise spec | [spec, spec]}} (specs, not objects)"""
    m = {k: {} for k in ("e", "p", "ee", "ep", "pe", "pp")}
    if empty:
        return m
    for t in ("e", "p"):
        for k in MAP_1Q:
            if rng.random() < 0.35:
                m[t][k] = gen_noise(rng, p_none=0.1)
    for t in ("ee", "ep", "pe", "pp"):
        for k in ("cnot", "cz"):
            w = rng.random()
            if w < 0.3:
                m[t][k] = gen_noise(rng, p_none=0.1)
            elif w < 0.6:
                m[t][k] = [gen_noise(rng, p_none=0.3), gen_noise(rng, p_none=0.3)]
    return m


def realise_map(m):
    """spec map -> map of noise objects keyed by class names (what assign_noise takes)"""
    out = {}
    for t, d in m.items():
        out[t] = {}
        for k, v in d.items():
            out[t][CLASS_NAME[k]] = [mk_noise(x) for x in v] if isinstance(v, list) else mk_noise(v)
    return out


def spec_token(sp):
    if sp[0] == "N":
        return "N"
    if sp[0] == "R":
        return "R"
    return f"{sp[0]}@{du.fr_str(sp[1]) if sp[0] != 'P' else sp[1]}@{'a' if sp[2] else 'b'}"


def map_args(m):
    parts = []
    for t, d in m.items():
        ents = ";".join(f"{k}={'+'.join(spec_token(x) for x in v) if isinstance(v, list) else spec_token(v)}" for k, v in d.items())
        parts.append(f"map{t}={ents or '-'}")
    return " ".join(parts)


def wop_token(op):
    import graphiq.circuit.ops as ops

    if isinstance(op, ops.OneQubitGateWrapper):
        return "wrap." + ".".join(KIND_OF_CLASS[c.__name__] for c in op.operations) + f":{op.reg_type}"
    kind = KIND_OF_CLASS.get(type(op).__name__, "param")
    if kind in ("cnot", "cz", "ccnot", "ccz", "mcr"):
        return f"{kind}:{op.control_type}:{op.target_type}"
    return f"{kind}:{op.reg_type}"


@_g
def check_assign(res, drv, spec, m):
    """`_noisy_gates(map)` of the implementation against the model's `noisyGate`, operation by operation"""
    circ, _ = build(spec, clean=True)
    real = realise_map(m)
    slim = circ._slim_seq()
    line = f"noise.assign {map_args(m)} ops={','.join(wop_token(o) for o in slim) or '-'}"
    rep = drv.ask(line)
    res.evaluations += 1
    try:
        noisy = circ._noisy_gates(real)
        got = []
        for o in noisy:
            n = o.noise if isinstance(o.noise, list) else [o.noise]
            got.append("+".join(noise_token(x) for x in n))
        impl = ",".join(got) or "-"
    except Exception as e:  # noqa: BLE001
        impl = "err:" + err_class(e)
    if rep["_status"] != "ok" or rep.get("noises") != impl:
        res.exact_break("_noisy_gates", input=dict(spec=repr(spec), map=repr(m)), impl=impl[:400], model=rep["_raw"][:400])
    # direct oracle (no model): what the map says, operation by operation
    if not impl.startswith("err"):
        import graphiq.circuit.ops as ops

        for o, got_tok in zip(slim, impl.split(",")):
            if isinstance(o, ops.OneQubitGateWrapper):
                want = sorted(spec_token(m[o.reg_type].get(KIND_OF_CLASS[c.__name__], ("N",))) for c in o.operations)
                ok = sorted(got_tok.split("+")) == want          # D12: the pairing order inside a wrapper is not demanded
            elif isinstance(o, (ops.ControlledPairOperationBase, ops.ClassicalControlledPairOperationBase)):
                ent = m.get(o.control_type + o.target_type, {}).get(KIND_OF_CLASS[type(o).__name__], ("N",))
                want = [spec_token(x) for x in ent] if isinstance(ent, list) else [spec_token(ent)] * 2
                ok = got_tok.split("+") == want
            else:
                ent = m[o.reg_type].get(KIND_OF_CLASS.get(type(o).__name__, "?"), ("N",))
                ok = got_tok == spec_token(ent)
            if not ok:
                res.violation("assign_noise:wrong-noise", "assign_noise attached a noise that is not the one the map gives for this (register type, gate type)",
                              input=dict(spec=repr(spec), map=repr(m)), op=type(o).__name__, got=got_tok, want=str(want) if not isinstance(want, str) else want)
                break
    return real


@_g
def check_unwrap_identify(res, drv, rng):
    """`OneQubitGateWrapper.unwrap()` with a noise list and `SolverBase._identify_noise` / `_wrap_noise` against the model"""
    import graphiq.circuit.ops as ops
    from graphiq.solvers.solver_base import SolverBase

    cls = _classes()
    # unwrap
    kinds = [rng.choice(ONEQ[:6]) for _ in range(rng.randint(1, 4))]
    specs = [gen_noise(rng, p_none=0.3) for _ in kinds]
    w = ops.OneQubitGateWrapper([cls[k] for k in kinds], register=0, reg_type="e", noise=[mk_noise(x) for x in specs])
    got = ",".join(f"{KIND_OF_CLASS[type(o).__name__]}={noise_token(o.noise)}" for o in w.unwrap())
    rep = drv.ask(f"noise.unwrap ops={'.'.join(kinds)} noise={'+'.join(spec_token(x) for x in specs)}")
    res.evaluations += 1
    if rep.get("seq") != got:
        res.exact_break("OneQubitGateWrapper.unwrap", input=dict(kinds=kinds, noise=repr(specs)), impl=got, model=rep["_raw"][:300])
    # direct oracle: the k-th listed operation keeps the k-th listed noise, application order = reversed list
    want = ",".join(f"{k}={spec_token(x)}" for k, x in reversed(list(zip(kinds, specs))))
    if got != want:
        res.violation("unwrap:noise-misplaced", "unwrap() does not keep each sub-operation with its own noise in application order",
                      input=dict(kinds=kinds, noise=repr(specs)), got=got, want=want)
    # unwrap with a single (non-list) noise: the noise rides on an extra Identity, first or last in application order
    one = gen_noise(rng, p_none=0.0)
    w1 = ops.OneQubitGateWrapper([cls[k] for k in kinds], register=0, reg_type="p", noise=mk_noise(one))
    got1 = ",".join(f"{KIND_OF_CLASS[type(o).__name__]}={noise_token(o.noise)}" for o in w1.unwrap())
    rep1 = drv.ask(f"noise.unwrap single=1 ops={'.'.join(kinds)} noise={spec_token(one)}")
    res.evaluations += 1
    if rep1.get("seq") != got1:
        res.exact_break("OneQubitGateWrapper.unwrap[single]", input=dict(kinds=kinds, noise=repr(one)), impl=got1, model=rep1["_raw"][:300])
    app = [f"{k}=N" for k in reversed(kinds)]
    want1 = ",".join(app + [f"identity={spec_token(one)}"] if one[2] else [f"identity={spec_token(one)}"] + app)
    if got1 != want1:
        res.violation("unwrap:noise-misplaced", "unwrap() of a wrapper with one noise does not place it on the side its 'After gate' flag asks for",
                      input=dict(kinds=kinds, noise=repr(one)), got=got1, want=want1)
    # _identify_noise / _wrap_noise
    mp_spec = {}
    for k in ONEQ[:6] + ["cnot", "cz"]:
        if rng.random() < 0.5:
            mp_spec[CLASS_NAME[k]] = gen_noise(rng, p_none=0.1)
    for suffix in ("_control", "_target"):
        if rng.random() < 0.5:
            mp_spec["CNOT" + suffix] = gen_noise(rng, p_none=0.0)
    real = {k: mk_noise(v) for k, v in mp_spec.items()}
    probe = ONEQ[:6] + ["cnot", "cz"]
    inst = rng.random() < 0.5
    got = []
    for k in probe:
        arg = cls[k]() if inst else cls[k]
        got.append(noise_token(SolverBase._identify_noise(None, arg, real)))
    enc = ";".join(f"{KIND_OF_CLASS.get(k.split('_')[0], k.split('_')[0])}{'_' + k.split('_')[1] if '_' in k else ''}={spec_token(v)}" for k, v in mp_spec.items())
    rep = drv.ask(f"noise.identify map={enc or '-'} ops={','.join(probe)}")
    res.evaluations += 1
    if rep.get("noises") != ",".join(got):
        res.exact_break("_identify_noise", input=dict(map=repr(mp_spec), instances=inst), impl=",".join(got), model=rep["_raw"][:300])


def placement_grid():
    """every (control noise, target noise) pair over {none, depol, pauli, loss} x {before, after} on CNOT and CZ, and every single
    noise on a one-qubit gate: the whole finite domain of the placement decision tree for additive noise"""
    opts = [("N",)] + [(k, v, a) for (k, v) in (("D", Fr(1, 3)), ("P", "Y"), ("L", Fr(1, 2))) for a in (True, False)]
    out = []
    for g in ("cnot", "cz"):
        for n0 in opts:
            for n1 in opts:
                out.append(dict(ne=1, np=1, nc=1, ops=[("h", 0, "e", ("N",)), (g, 0, "e", 0, "p", n0, n1), ("s", 0, "p", ("N",))]))
    for n0 in opts:
        out.append(dict(ne=1, np=1, nc=1, ops=[("h", 0, "e", n0), ("cnot", 0, "e", 0, "p", ("N",), ("N",)), ("y", 0, "p", n0)]))
    return out


def malformed_specs(rng):
    """noise where the compilers do not support it: on measurement-type operations, replacement noise on controlled gates"""
    out = []
    nz = [("D", Fr(1, 10), True), ("L", Fr(1, 2), False), ("P", "X", True)]
    for n in nz:
        out.append(dict(ne=1, np=1, nc=1, ops=[("h", 0, "e", ("N",)), ("measz", 0, "e", 0, n)]))
        for k in ("mcr", "ccnot", "ccz"):
            out.append(dict(ne=1, np=1, nc=1, ops=[("h", 0, "e", ("N",)), (k, 0, "e", 0, "p", 0, n, ("N",))]))
            out.append(dict(ne=1, np=1, nc=1, ops=[("h", 0, "e", ("N",)), (k, 0, "e", 0, "p", 0, ("N",), n)]))
    out.append(dict(ne=1, np=1, nc=1, ops=[("cnot", 0, "e", 0, "p", ("R",), ("D", Fr(1, 10), True))]))
    out.append(dict(ne=1, np=1, nc=1, ops=[("h", 0, "e", ("P", "Q", True))]))
    out.append(dict(ne=1, np=1, nc=1, ops=[("h", 0, "e", ("D", Fr(3, 2), True))]))
    return out


@_g
def check_malformed(res, drv, spec):
    """error class and trace only (these inputs are outside the property's quantifier)"""
    for be in ("dm", "stab"):
        im = run_impl(build(spec)[0], be, True, 1)
        rep = drv.ask(model_line((spec["ne"], spec["np"], spec["nc"]), im["enc"], be, True, 1))
        res.evaluations += 1
        got = im.get("err", "ok")
        want = rep.get("_err") if rep["_status"] == "err" else "ok"
        res.count("errors", f"malformed:{be}:{got}")
        if got != want:
            res.exact_break(f"noise.run[{be}]:malformed-error-class", input=dict(spec=repr(spec)), impl=got + " " + im.get("exc", ""), model=rep["_raw"][:300])


@_g
def measdraw_check(res, drv, spec, rng):
    """repaired code only: the "probabilistic" setting of `MixedStabilizer.apply_measurement` — the draw `np.random.random()` is
    scripted, the outcome rule `int(u * total >= weight[0])`, the candidate lists, the renormalisation and the outcome list are
    compared with the model (`Mix.measureDraw`); direct oracle: total weight kept, one outcome for all branches, and the measured
    state equals the post-selected, renormalised projection of the state before (numpy)."""
    if not repaired():
        return
    from unittest import mock
    from graphiq.backends.stabilizer.state import MixedStabilizer

    n = spec["ne"] + spec["np"]
    b = run_impl(build(spec)[0], "stab", True, 1)
    if "state" not in b or not isinstance(b["state"].rep_data, MixedStabilizer):
        return
    ms = b["state"].rep_data
    q = rng.randint(0, n - 1)
    u = Fr(rng.randint(0, 96), 97)
    before = [(float(p), t.copy()) for p, t in ms.mixture]
    res.evaluations += 1
    res.branch(["probabilistic-draw"])
    inp = dict(spec=repr(spec), q=q, u=str(u), ops=b["enc"])
    with mock.patch("numpy.random.random", lambda *a, **k: float(u)), \
            mock.patch("numpy.random.randint", side_effect=AssertionError("randint must not be called by the joint measurement")):
        try:
            outs = ms.apply_measurement(q, measurement_determinism="probabilistic")
        except Exception as e:  # noqa: BLE001
            res.violation("mixture:measurement:probabilistic:raises", "the joint measurement raised in the probabilistic setting", input=inp,
                          error=repr(e)[:160])
            return
    after = [(float(p), t) for p, t in ms.mixture]
    rep_ = drv.ask(f"noise.measdraw ne={spec['ne']} np={spec['np']} nc={spec['nc']} ops={b['enc']} q={q} u={u}")
    if rep_["_status"] != "ok":
        res.exact_break("noise.measdraw:error-class", input=inp, impl="ok", model=rep_["_raw"][:200])
        return
    mm = parse_mix(rep_["mix"])
    same = (len(mm) == len(after) and all(abs(float(w) - p) <= 1e-12 + 1e-9 * abs(p) and tabc(t) == ts for (p, t), (w, ts) in zip(after, mm))
            and len(outs) == int(rep_["outs"]) and all(int(o) == int(rep_["outcome"]) for o in outs))
    if not same:
        res.exact_break("noise.measdraw:mixture", input=inp, impl=str([(round(p, 6), tabc(t)) for p, t in after])[:300] + f" outs={outs}",
                        model=rep_["_raw"][:300])
    # direct oracle (no model): one outcome, weight kept, state = renormalised projection
    if n <= 4 and before:
        o = int(outs[0]) if outs else 0
        rho_b = sum(p * du.stab_density(t) for p, t in before)
        dim = 2 ** n
        diag = np.array([1.0 if ((i >> (n - 1 - q)) & 1) == o else 0.0 for i in range(dim)])
        proj = np.diag(diag)
        pr = float(np.trace(proj @ rho_b).real)
        tot = float(np.trace(rho_b).real)
        rho_a = sum(p * du.stab_density(t) for p, t in after) if after else np.zeros((dim, dim))
        if len(set(int(x) for x in outs)) > 1:
            res.violation("mixture:measurement:outcomes-differ", "the joint measurement returned different outcomes for different branches", input=inp)
        elif pr > 1e-9:
            want = proj @ rho_b @ proj * (tot / pr)
            if not du.mat_close(want, rho_a):
                res.violation("mixture:measurement:wrong-state", "the measured mixture is not the post-selected state with the total weight kept",
                              input=inp)


@_g
def infidelity_check(res, spec, det, rng):
    """observe point `Infidelity.evaluate on both`: for a loss-free noisy circuit, a random pure stabilizer target gives the same value
    through the mixture (sum_k p_k F(T, T_k)) and through the density matrix (tr(rho sigma)); both equal the independent numpy value"""
    from graphiq.metrics import Infidelity
    from graphiq.state import QuantumState
    from graphiq.backends.stabilizer.state import Stabilizer
    import random as _r

    n = spec["ne"] + spec["np"]
    a = run_impl(build(spec)[0], "dm", True, det)
    b = run_impl(build(spec)[0], "stab", True, det)
    if "state" not in a or "state" not in b:
        return
    rho = np.asarray(a["state"].rep_data.data)
    if abs(np.trace(rho).real - 1) > 1e-9 or np.any(np.isnan(rho)):
        return
    tgt = tu.random_tableau(_r.Random(rng.getrandbits(30)), n, signs=False)     # D9: the converter drops signs, so sign-free targets
    sig = du.stab_density(tgt)
    res.evaluations += 1
    try:
        v_s = Infidelity(QuantumState(copy.deepcopy(tgt), rep_type="s")).evaluate(b["state"], None)
        v_d = Infidelity(QuantumState(sig.copy(), rep_type="dm")).evaluate(a["state"], None)
    except Exception as e:  # noqa: BLE001
        res.notes.append(f"Infidelity raised {type(e).__name__} on a loss-free noisy state")
        res.violation(f"infidelity:raises:{type(e).__name__}", "Infidelity.evaluate raised on a valid loss-free noisy state (the metric must return the same value in "
                      "both representations)", input=dict(spec=repr(spec), det=det), impl=repr(e)[:200])
        return
    mix, _ = mixture_of(b["state"])
    ref_m = 1 - sum(p * float(np.trace(du.stab_density(t) @ sig).real) for p, t in mix)
    ref_d = 1 - float(np.trace(rho @ sig).real)
    if abs(v_s - ref_m) > 1e-9 or abs(v_d - ref_d) > 1e-9:
        res.violation("infidelity:wrong-value", "Infidelity differs from the overlap computed independently", input=dict(spec=repr(spec), det=det),
                      stab=float(v_s), stab_ref=ref_m, dm=float(v_d), dm_ref=ref_d)
    # the remaining representation pair: density-matrix target, mixture state (goes through stabilizer_to_density on a list)
    try:
        v_x = float(Infidelity(QuantumState(sig.copy(), rep_type="dm")).evaluate(b["state"], None))
        res.evaluations += 1
        if abs(v_x - ref_m) > 1e-9 and not np.any([np.any(np.asarray(t.phase)[n:]) for _, t in mix]):
            res.violation("infidelity:dm-target:mixture-state:wrong-value", "Infidelity (density-matrix target, mixture state) differs from the overlap",
                          input=dict(spec=repr(spec), det=det), value=v_x, expected=ref_m)
    except Exception as e:  # noqa: BLE001
        res.violation(F_MIXCONV, "Infidelity with a density-matrix target raises on a mixed-stabilizer state (stabilizer_to_density builds rho for "
                      "a list of (p, tableau) but never returns it)", input=dict(spec=repr(spec), det=det), error=repr(e)[:160])
    if abs(v_s - v_d) > 1e-9:
        m_noise, _ = has_meas_after_noise(b["log"], b["seq"])
        res.violation(F_BRANCH if (m_noise and not repaired()) else "infidelity:backends-differ",
                      "Infidelity with a pure stabilizer target differs between the backends",
                      input=dict(spec=repr(spec), det=det), stab=float(v_s), dm=float(v_d))


def replay(ctx, data):
    """re-evaluate the stored violating input on the implementation; True = the property holds on it now"""
    v = data.get("violation") or {}
    inp = v.get("input") or {}
    spec_src = inp.get("spec")
    if not spec_src:
        return None
    spec = eval(spec_src, {"Fraction": Fr})  # noqa: S307 - our own repr
    res = Result()
    drv = Driver()
    det = inp.get("det", 1)
    if inp.get("map"):
        m = eval(inp["map"], {"Fraction": Fr})  # noqa: S307
        check_assign(res, drv, spec, m)
        check_case(res, drv, spec, lambda: build(spec, clean=True)[0].assign_noise(realise_map(m)), det, True, "replay-map")
    check_case(res, drv, spec, lambda: build(spec)[0], det, inp.get("noise_sim", True), "replay")
    check_case(res, drv, spec, lambda: build(spec, transform=zero_of)[0], det, True, "replay-zero")
    drv.close()
    from harness.common import load_known_findings

    known = [k for k, _ in load_known_findings("C06")]
    fresh = [w for w in res.violations if w["key"] not in known]
    for w in res.violations:
        print("replay:", "(known finding)" if w["key"] in known else "", w["key"], "-", w["clause"])
    for b in res.exact_breaks[:3]:
        print("replay: model/implementation differ:", b.get("correspondence"))
    return not fresh and not res.exact_breaks


def search(ctx, res, proof_broken):
    """a correspondence / proof broke without an oracle failure: evaluate the direct oracle on the whole placement grid and on a larger,
    noise-dense sample (the oracle does not use the model)"""
    drv = Driver()
    for spec in placement_grid():
        for det in (0, 1):
            check_case(res, drv, spec, lambda: build(spec)[0], det, True, "search-grid")
            if res.violations:
                drv.close()
                return
    rng = ctx.rng
    for k in range(300):
        spec = gen_circuit(rng, False, with_meas=False, nmax=3)
        check_case(res, drv, spec, lambda: build(spec)[0], rng.randint(0, 1), True, "search-random")
        if [v for v in res.violations if v["key"] != F_BRANCH]:
            break
    drv.close()


def _limit_known(res, keys, cap=3):
    """known-finding violations are recorded at most `cap` times each, so that they can never fill the violation list and hide a new one"""
    orig = res.violation
    seen = {}

    def violation(key, clause, **kw):
        if key in keys:
            seen[key] = seen.get(key, 0) + 1
            res.extra.setdefault("known_finding_hits", {})[key] = seen[key]
            if seen[key] > cap:
                return
        orig(key, clause, **kw)

    res.violation = violation


def run(ctx):
    res = Result()
    _limit_known(res, (F_BRANCH,))
    res.rule = ("one evaluation = one compile of one circuit on one backend with one switch setting; non-trivial = the circuit carries at "
                "least one non-NoNoise noise and at least one two-qubit or measurement operation; distinct by (encoded sequence, backend, switches)")
    drv = Driver()
    rng = ctx.rng
    n_circ = 90 if ctx.quick else 900
    for ci in range(n_circ):
        nmax = (3 if ci % 3 else 4) if ctx.quick else (5 if ci % 25 == 0 else 4 if ci % 2 else 3)
        spec = gen_circuit(rng, ctx.quick, with_meas=(ci % 3 != 0), nmax=nmax)
        det = rng.randint(0, 1)
        r_on, impl, reps = check_case(res, drv, spec, lambda: build(spec)[0], det, True, "noise-on")
        enc = impl["dm"]["enc"]
        if spec_has_noise(spec) and any(o[0] in ("cnot", "cz", "mcr", "ccnot", "ccz", "measz") for o in spec["ops"]):
            for be in ("dm", "stab"):
                res.nontrivial(enc, be, det, True)
        # ---- switches: noise off, zero strength, clean circuit
        r_clean, _, _ = check_case(res, drv, spec, lambda: build(spec, clean=True)[0], det, True, "clean")
        r_off, impl_off, _ = check_case(res, drv, spec, lambda: build(spec)[0], det, False, "noise-off")
        for be in ("dm", "stab"):
            if any(e[0] in ("n", "rn") for e in impl_off[be].get("log", [])):
                res.violation("switch-off:noise-applied", "a noise model was applied although noise_simulation is False",
                              input=dict(ops=enc, backend=be))
        if not states_equal(r_off, r_clean):
            res.violation("switch-off:state-differs", "noise_simulation=False does not reproduce the noiseless state", input=dict(ops=enc, det=det))
        r_zero, _, _ = check_case(res, drv, spec, lambda: build(spec, transform=zero_of)[0], det, True, "zero-strength")
        if not states_equal(r_zero, r_clean):
            res.violation("zero-strength:state-differs", "noise of zero strength does not reproduce the noiseless state", input=dict(ops=enc, det=det))
        if ci % 2 == 0:
            infidelity_check(res, spec, det, rng)
        if ci % 3 == 0:
            measdraw_check(res, drv, gen_circuit(rng, ctx.quick, with_meas=False, nmax=3 if ctx.quick else 4), rng)
    # ---- the whole placement domain for additive noise (exhaustive)
    grid = placement_grid()
    for gi, spec in enumerate(grid):
        det = gi % 2
        r_on, impl, _ = check_case(res, drv, spec, lambda: build(spec)[0], det, True, "grid")
        for be in ("dm", "stab"):
            res.nontrivial(impl["dm"]["enc"], be, det, "grid")
    res.extra["placement_grid_cases"] = len(grid)
    res.exhaustive = False
    res.notes.append("placement decision tree: all 7x7 (control, target) noise/placement pairs on CNOT and CZ and all 7 single-noise cases "
                     "are enumerated on every run (exhaustive for the additive-noise domain of the tree)")
    # ---- noise maps through assign_noise
    n_maps = 50 if ctx.quick else 400
    for mi in range(n_maps):
        spec = gen_circuit(rng, ctx.quick, with_meas=(mi % 4 == 0), nmax=3)
        for o in spec["ops"]:
            pass
        m = gen_map(rng, empty=(mi % 5 == 4))
        check_assign(res, drv, spec, m)
        det = rng.randint(0, 1)

        def mk(spec=spec, m=m):
            return build(spec, clean=True)[0].assign_noise(realise_map(m))

        r_map, impl, _ = check_case(res, drv, spec, mk, det, True, "assign_noise")
        res.nontrivial(impl["dm"]["enc"], "map", det)
        if mi % 5 == 4:
            r_clean, _, _ = check_case(res, drv, spec, lambda: build(spec, clean=True)[0], det, True, "clean")
            if any(e[0] == "n" for be in ("dm", "stab") for e in impl[be].get("log", [])):
                res.violation("empty-map:noise-applied", "a noise model was applied although the noise map is empty", input=dict(spec=repr(spec)))
            if not states_equal(r_map, r_clean):
                res.violation("empty-map:state-differs", "an empty noise map does not reproduce the noiseless state", input=dict(spec=repr(spec), det=det))
    for _ in range(20 if ctx.quick else 200):
        check_unwrap_identify(res, drv, rng)
    # ---- malformed stream
    for spec in malformed_specs(rng):
        check_malformed(res, drv, spec)
    drv.close()
    res.extra["driver_lines"] = drv.n_lines
    return res
