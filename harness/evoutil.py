"""
evoutil.py — instrumentation of the random-search solvers for C19 (no repository hooks: everything by subclassing the
public solver classes and wrapping library entry points).

Also the *worker*: `python -m harness.evoutil --worker` reads one JSON job per line on stdin and writes one JSON result per
line.  Workers are started by harness/c19.py with different PYTHONHASHSEED values so that the same seeded configuration is
executed in processes whose `set`/`dict` iteration orders differ.
"""
import hashlib
import json
import os
import random
import sys

if __name__ == "__main__":
    sys.path.insert(0, os.path.dirname(os.path.dirname(os.path.abspath(__file__))))

from harness import common  # noqa: E402  (puts $REPO on sys.path)

import numpy as np  # noqa: E402


# ------------------------------------------------------------------------------------------------------------ helpers
def ratio(x):
    """float -> exact 'num/den' | 'inf' (the model's score syntax)"""
    x = float(x)
    if x == float("inf"):
        return "inf"
    if x != x or x == float("-inf"):
        return "nan"
    n, d = x.as_integer_ratio()
    return f"{n}/{d}"


def unratio(s):
    if s == "inf":
        return float("inf")
    if "/" in s:
        n, d = s.split("/")
        return int(n) / int(d)
    return float(s)


def op_desc(op):
    name = type(op).__name__
    inner = ""
    if hasattr(op, "operations"):
        inner = "[" + ".".join(getattr(o, "__name__", type(o).__name__) for o in op.operations) + "]"
    return f"{name}{inner}:{tuple(op.q_registers)}:{tuple(op.q_registers_type)}:{tuple(op.c_registers)}:{sorted(op.labels)}"


def fingerprint(circuit):
    """content fingerprint of a CircuitDAG: node ids with their operations, and all edges (order-free)"""
    if circuit is None:
        return "none"
    dag = circuit.dag
    nodes = sorted((str(n), op_desc(dag.nodes[n]["op"])) for n in dag.nodes)
    edges = sorted((str(u), str(v), str(k)) for u, v, k in dag.edges(keys=True))
    return hashlib.blake2b(repr((nodes, edges)).encode(), digest_size=8).hexdigest()


def circuit_text(circuit):
    """human-readable op sequence per register (for replays)"""
    if circuit is None:
        return None
    try:
        return [op_desc(op) for op in circuit.sequence()]
    except Exception as e:  # noqa: BLE001
        return [f"<sequence failed: {type(e).__name__}>"]


OPK = {"Input": "i", "Output": "o", "OneQubitGateWrapper": "w", "CNOT": "c", "MeasurementCNOTandReset": "m"}


def dag_view(circuit):
    """-> (line arguments for `evo.positions`, numbering) ; nodes numbered in dag order, edge keys by first appearance"""
    dag = circuit.dag
    nid = {n: i for i, n in enumerate(dag.nodes)}
    kid = {}

    def enc(e):
        u, v, k = e
        if k not in kid:
            kid[k] = len(kid)
        return f"{nid[u]}.{nid[v]}.{kid[k]}"

    edges = [enc(e) for e in dag.edges(keys=True)]
    ee = [enc(e) for e in circuit.edge_dict.get("e", [])]
    pe = [enc(e) for e in circuit.edge_dict.get("p", [])]
    ops = [OPK.get(type(dag.nodes[n]["op"]).__name__, "x") for n in dag.nodes]
    line = f"nn={len(nid)} edges={','.join(edges) or '-'} e={','.join(ee) or '-'} p={','.join(pe) or '-'} ops={','.join(ops) or '-'}"

    def enc_pairs(pairs):
        return ",".join(f"{enc(a)}>{enc(b)}" for a, b in pairs) or "-"

    return line, enc_pairs


def edge_pair_str(p):
    (a, b) = p
    return "|".join(map(str, a)) + ">" + "|".join(map(str, b))


class KeepAlive:
    """object -> small token, keeping the object alive so that ids are never reused"""

    def __init__(self):
        self.objs = []
        self.tok = {}

    def __call__(self, o):
        if o is None:
            return None
        k = id(o)
        if k not in self.tok:
            self.tok[k] = len(self.objs)
            self.objs.append(o)
        return self.tok[k]


class RngGuard:
    """run oracle code without disturbing the global RNG streams the solver consumes"""

    def __enter__(self):
        self.a = np.random.get_state()
        self.b = random.getstate()

    def __exit__(self, *exc):
        np.random.set_state(self.a)
        random.setstate(self.b)


# ------------------------------------------------------------------------------------------------------------ tracing
def make_traced(cls):
    """subclass of a solver class that records every step of solve() (population, hall of fame, draws, probabilities)"""

    class Traced(cls):
        def _tr_init(self, reeval, sample_positions):
            self.tr = []
            self.keep = KeepAlive()
            self._reeval = reeval
            self._sample_positions = sample_positions
            self._gen = 0
            self._moves = []

        # -- snapshots
        def _snap_pop(self, population, reeval=False):
            out = []
            for tup in population:
                score, circuit = tup
                d = {"s": ratio(score), "o": self.keep(circuit), "t": self.keep(tup), "fp": fingerprint(circuit),
                     "n": len(circuit.dag.nodes)}
                if reeval and self._reeval is not None:
                    with RngGuard():
                        d["re"] = ratio(self._reeval(circuit))
                out.append(d)
            return out

        def _snap_hof(self, reeval=False):
            out = []
            for tup in self.hof:
                score, circuit = tup
                d = {"s": ratio(score), "o": self.keep(circuit), "fp": fingerprint(circuit),
                     "n": None if circuit is None else len(circuit.dag.nodes)}
                if reeval and circuit is not None and self._reeval is not None:
                    with RngGuard():
                        d["re"] = ratio(self._reeval(circuit))
                out.append(d)
            return out

        # -- overridden steps
        # every override accepts and forwards extra positional / keyword arguments: a signature-extending refactor of graphiq must
        # neither raise inside the tracer nor be reported as the implementation raising
        def population_initialization(self, *args, **kwargs):
            pop = super().population_initialization(*args, **kwargs)
            self.tr.append({"ev": "init", "pop": self._snap_pop(pop), "hof": self._snap_hof(),
                            "probs": [float(v) for v in self.trans_probs.values()],
                            "keys": [k.__name__ for k in self.trans_probs.keys()]})
            return pop

        def update_hof(self, population, *args, **kwargs):
            # extra arguments (a refactored caller may pass options) are handed through untouched
            ev = {"ev": "update_hof", "gen": self._gen, "pop": self._snap_pop(population, reeval=True),
                  "hof_before": self._snap_hof(), "pop_list": self.keep(population)}
            if self._sample_positions and self._gen < self._sample_positions:
                pos = []
                for _, circuit in population[:3]:
                    line, enc_pairs = dag_view(circuit)
                    with RngGuard():
                        pos.append({"line": line,
                                    "cnot": enc_pairs(type(self)._select_possible_cnot_position(circuit)),
                                    "meas": enc_pairs(type(self)._select_possible_measurement_position(circuit))})
                ev["positions"] = pos
            ev["moves"] = self._moves
            self._moves = []
            super().update_hof(population, *args, **kwargs)
            ev["hof"] = self._snap_hof(reeval=True)
            self.tr.append(ev)

        def adapt_probabilities(self, *args, **kwargs):
            before = [float(v) for v in self.trans_probs.values()]
            super().adapt_probabilities(*args, **kwargs)
            self.tr.append({"ev": "adapt", "gen": self._gen, "before": before,
                            "after": [float(v) for v in self.trans_probs.values()],
                            "keys": [k.__name__ for k in self.trans_probs.keys()]})

        def update_logs(self, population, iteration, *args, **kwargs):
            super().update_logs(population, iteration, *args, **kwargs)
            self.tr.append({"ev": "logs", "gen": self._gen, "iteration": int(iteration)})

        def tournament_selection(self, population, k=2, *args, **kwargs):
            draws = []
            orig = random.choices

            def recording(pop, *a, **kw):
                res = orig(pop, *a, **kw)
                idx = {id(t): i for i, t in enumerate(pop)}
                draws.append([idx.get(id(t), -1) for t in res])
                return res

            random.choices = recording
            try:
                new = super().tournament_selection(population, *args, k=k, **kwargs)
            finally:
                random.choices = orig
            self.tr.append({"ev": "tournament", "gen": self._gen, "k": int(k), "draws": draws,
                            "same_list": new is population, "pop": self._snap_pop(new),
                            "src": self._snap_pop(population)})
            self._gen += 1
            return new

        # -- transformations with a candidate list: record the list *in the order the code indexes it*
        def remove_op(self, circuit, node=None, *args, **kwargs):
            if node is None:
                cands = circuit.get_node_exclude_labels(["Fixed", "Input", "Output"])
                self._moves.append({"t": "remove_op", "c": [str(x) for x in cands]})
            return super().remove_op(circuit, node, *args, **kwargs)

        def add_emitter_cnot(self, circuit, *args, **kwargs):
            pairs = type(self)._select_possible_cnot_position(circuit)
            self._moves.append({"t": "add_emitter_cnot", "c": [edge_pair_str(p) for p in pairs]})
            return super().add_emitter_cnot(circuit, *args, **kwargs)

        def add_measurement_cnot_and_reset(self, circuit, *args, **kwargs):
            pairs = type(self)._select_possible_measurement_position(circuit)
            self._moves.append({"t": "add_measurement_cnot_and_reset", "c": [edge_pair_str(p) for p in pairs]})
            return super().add_measurement_cnot_and_reset(circuit, *args, **kwargs)

        def replace_photon_one_qubit_op(self, circuit, *args, **kwargs):
            cands = circuit.get_node_by_labels(["OneQubitGateWrapper", "Photonic"])
            self._moves.append({"t": "replace_photon_one_qubit_op", "c": [str(x) for x in cands]})
            return super().replace_photon_one_qubit_op(circuit, *args, **kwargs)

        def save_circuits(self, population, hof, iteration=-1, *args, **kwargs):
            # last per-generation call before the optional selection: used to advance the generation counter when
            # selection is off (tournament_selection is then never called)
            if args:
                super().save_circuits(population, hof, iteration, *args, **kwargs)
            else:
                super().save_circuits(population=population, hof=hof, iteration=iteration, **kwargs)
            self.tr.append({"ev": "save", "gen": self._gen})
            if not self.setting.selection_active:
                self._gen += 1

    Traced.__name__ = "Traced" + cls.__name__
    return Traced


# ------------------------------------------------------------------------------------------------------------ jobs
GRAPHS = {
    "p2": [(0, 1)],
    "p3": [(0, 1), (1, 2)],
    "k3": [(0, 1), (1, 2), (0, 2)],
    "p4": [(0, 1), (1, 2), (2, 3)],
    "s4": [(0, 1), (0, 2), (0, 3)],
    "c4": [(0, 1), (1, 2), (2, 3), (3, 0)],
    "paw": [(0, 1), (1, 2), (0, 2), (2, 3)],
    "dia": [(0, 1), (1, 2), (2, 3), (3, 0), (0, 2)],
    "k4": [(0, 1), (0, 2), (0, 3), (1, 2), (1, 3), (2, 3)],
}


def build(job):
    """job dict -> (traced solver instance, re-evaluation function)"""
    import networkx as nx

    from graphiq.backends.density_matrix.compiler import DensityMatrixCompiler
    from graphiq.backends.stabilizer.compiler import StabilizerCompiler
    from graphiq.metrics import Infidelity
    from graphiq.solvers.evolutionary_solver import EvolutionarySolver, EvolutionarySolverSetting
    from graphiq.solvers.hybrid_solvers import HybridEvolutionarySolver
    from graphiq.state import QuantumState

    g = nx.Graph()
    edges = GRAPHS[job["graph"]]
    g.add_nodes_from(range(1 + max(max(e) for e in edges)))
    g.add_edges_from(edges)
    n = g.number_of_nodes()
    det = job.get("det", 1)
    backend = job.get("backend", "s")

    def mk_compiler():
        c = StabilizerCompiler() if backend == "s" else DensityMatrixCompiler()
        c.measurement_determinism = det if det in (0, 1) else "probabilistic"
        return c

    def mk_target():
        t = QuantumState(g, rep_type="g")
        t.convert_representation("s" if backend == "s" else "dm")
        return t

    target = mk_target()
    compiler = mk_compiler()
    metric = Infidelity(target)
    setting = EvolutionarySolverSetting(
        n_hof=job["n_hof"], n_stop=job["n_stop"], n_pop=job["n_pop"], tournament_k=job.get("k", 2),
        selection_active=bool(job["sel"]), use_adapt_probability=bool(job["adapt"]))
    if job["solver"] == "hybrid":
        cls = make_traced(HybridEvolutionarySolver)
        solver = cls(target=target, metric=metric, compiler=compiler, solver_setting=setting)
    else:
        cls = make_traced(EvolutionarySolver)
        init_circuit = None
        if job.get("bump"):
            init_circuit = bumped_circuit(job, EvolutionarySolver, target, metric, compiler)
        solver = cls(target=target, metric=metric, compiler=compiler, solver_setting=setting,
                     n_emitter=job["n_emitter"], n_photon=n, circuit=init_circuit)

    # independent re-evaluation pipeline: fresh compiler, fresh metric, same determinism
    re_compiler = mk_compiler()
    re_metric = Infidelity(mk_target())
    n_e = solver.n_emitter
    n_p = solver.n_photon

    def reeval(circuit):
        re_compiler.noise_simulation = compiler.noise_simulation
        st = re_compiler.compile(circuit)
        st.partial_trace(keep=list(range(n_p)), dims=(n_p + n_e) * [2])
        return float(re_metric.evaluate(st, circuit))

    solver._tr_init(reeval if det in (0, 1) else None, job.get("positions", 0))
    return solver


def bumped_circuit(job, cls, target, metric, compiler):
    """an initial circuit (public `circuit=` argument) whose node ids are large: built by the solver's own
    transformations from a seeded stream, independent of any set order"""
    rng = random.Random(job["bump"])
    s = cls(target=target, metric=metric, compiler=compiler, n_emitter=job["n_emitter"],
            n_photon=1 + max(max(e) for e in GRAPHS[job["graph"]]))
    st = (np.random.get_state(), random.getstate())
    np.random.seed(job["bump"])
    c = s.initialization(s.get_emission_assignment(s.n_photon, s.n_emitter), s.get_measurement_assignment(s.n_photon, s.n_emitter))
    for _ in range(job.get("bump_steps", 60)):
        nodes = sorted(c.get_node_exclude_labels(["Fixed", "Input", "Output"]))
        if nodes and rng.random() < 0.45:
            c.remove_op(nodes[rng.randrange(len(nodes))])
        else:
            s.add_emitter_one_qubit_op(c)
    np.random.set_state(st[0])
    random.setstate(st[1])
    return c


def canon_tokens(trace):
    """renumber object tokens by first appearance so that traces of different runs are comparable"""
    m = {}

    def t(x):
        if x is None:
            return None
        if x not in m:
            m[x] = len(m)
        return m[x]

    out = []
    for ev in trace:
        ev = json.loads(json.dumps(ev))
        for key in ("pop", "hof", "hof_before", "src"):
            for d in ev.get(key, []) or []:
                d["o"] = t(("o", d["o"])) if d.get("o") is not None else None
                if "t" in d:
                    d["t"] = t(("t", d["t"]))
        if "pop_list" in ev:
            ev["pop_list"] = t(("l", ev["pop_list"]))
        out.append(ev)
    return out


def run_job(job):
    """run one seeded configuration with tracing -> result dict (JSON-able)"""
    import warnings

    warnings.filterwarnings("ignore")
    out = {"job": job, "hashseed": os.environ.get("PYTHONHASHSEED", "random")}
    solver = None
    try:
        solver = build(job)
        solver.seed(job["seed"])
        import contextlib
        import io

        with contextlib.redirect_stdout(io.StringIO()):
            solver.solve()
    except Exception as e:  # noqa: BLE001
        import traceback

        out["error"] = common.err_class(e)
        out["error_msg"] = f"{type(e).__name__}: {e}"[:300]
        out["tb"] = traceback.format_exc()[-1500:]
        out["trace"] = canon_tokens(solver.tr) if solver is not None else []
        out["n_emitter"] = int(getattr(solver, "n_emitter", job.get("n_emitter", 1)))
        out["digest"] = digest(out)
        return out
    tr = canon_tokens(solver.tr)
    out["trace"] = tr
    res = solver.result
    out["result"] = None if res is None else {
        "s": ratio(res[0]), "is_hof0_score": bool(res[0] is solver.hof[0][0] or res[0] == solver.hof[0][0]),
        "is_hof0_circuit": bool(res[1] is solver.hof[0][1]), "fp": fingerprint(res[1])}
    with RngGuard():
        out["final_hof"] = [
            {"s": ratio(s), "fp": fingerprint(c), "n": None if c is None else len(c.dag.nodes),
             "re": (ratio(solver._reeval(c)) if (c is not None and solver._reeval is not None) else None),
             "text": circuit_text(c),
             "qasm": (hashlib.blake2b(c.to_openqasm().encode(), digest_size=8).hexdigest() if c is not None else None)}
            for s, c in solver.hof]
    # logs (DataFrames after logs_to_df)
    logs = {}
    try:
        for key in ("population", "hof"):
            df = solver.logs[key]
            logs[key] = {col: [float(v) for v in df[col].tolist()] for col in ("iteration", "cost_min", "cost_max", "cost_mean")}
    except Exception as e:  # noqa: BLE001
        logs["error"] = f"{type(e).__name__}: {e}"[:200]
    out["logs"] = logs
    out["n_emitter"] = int(solver.n_emitter)
    out["n_photon"] = int(solver.n_photon)
    out["digest"] = digest(out)
    return out


def digest(out):
    """what must be identical between two runs of the same seeded configuration"""
    keep = []
    for ev in out.get("trace", []):
        e = {k: v for k, v in ev.items() if k not in ("positions",)}
        for key in ("pop", "hof", "hof_before", "src"):
            if key in e:
                e[key] = [{k: v for k, v in d.items() if k != "re"} for d in e[key]]
        keep.append(e)
    payload = {"trace": keep, "final": [(d["s"], d["fp"], d["qasm"]) for d in out.get("final_hof", [])],
               "result": out.get("result"), "error": out.get("error")}
    return hashlib.blake2b(json.dumps(payload, sort_keys=True).encode(), digest_size=10).hexdigest()


def node_order_job(job):
    """transformation-level reproducibility probe: lists returned by get_node_exclude_labels / get_node_by_labels along a
    seeded walk of the solver's own transformations on a small circuit"""
    import networkx as nx

    from graphiq.backends.stabilizer.compiler import StabilizerCompiler
    from graphiq.metrics import Infidelity
    from graphiq.solvers.evolutionary_solver import EvolutionarySolver, EvolutionarySolverSetting
    from graphiq.state import QuantumState

    g = nx.path_graph(job["n_photon"])
    target = QuantumState(g, rep_type="g")
    target.convert_representation("s")
    comp = StabilizerCompiler()
    comp.measurement_determinism = 1
    s = EvolutionarySolver(target=target, metric=Infidelity(target), compiler=comp, n_emitter=job["n_emitter"],
                           n_photon=job["n_photon"], solver_setting=EvolutionarySolverSetting(n_pop=1))
    recs = []
    for seed in range(job["seed_lo"], job["seed_hi"]):
        s.seed(seed)
        c = s.population_initialization()[0][1]
        rng = random.Random(seed)
        for step in range(job["steps"]):
            nodes = c.get_node_exclude_labels(["Fixed", "Input", "Output"])
            wr = c.get_node_by_labels(["OneQubitGateWrapper", "Photonic"])
            recs.append([seed, step, [str(x) for x in nodes], [str(x) for x in wr]])
            w = rng.random()
            if w < 0.34:
                if nodes:
                    c.remove_op(sorted(nodes)[rng.randrange(len(nodes))])
            elif w < 0.9 or job["n_emitter"] < 2:
                s.add_emitter_one_qubit_op(c)
            else:
                import warnings

                with warnings.catch_warnings():
                    warnings.simplefilter("ignore")
                    s.add_emitter_cnot(c)
    return {"job": job, "hashseed": os.environ.get("PYTHONHASHSEED", "random"), "recs": recs}


def worker_main():
    import warnings

    warnings.filterwarnings("ignore")
    for line in sys.stdin:
        line = line.strip()
        if not line:
            continue
        job = json.loads(line)
        try:
            if job.get("kind") == "node_order":
                res = node_order_job(job)
            else:
                res = run_job(job)
        except Exception as e:  # noqa: BLE001
            import traceback

            # "impl_error": the exception was raised by $REPO code (result extraction after solve(), node_order walk), not by the harness:
            # the consumer can report it as the implementation raising instead of an infrastructure failure
            res = {"job": job, "infra_error": f"{type(e).__name__}: {e}", "tb": traceback.format_exc()[-1500:],
                   "impl_error": common.err_class(e) if common.raised_in_repo(e) else None}
        sys.stdout.write(json.dumps(res) + "\n")
        sys.stdout.flush()


if __name__ == "__main__":
    if "--worker" in sys.argv:
        worker_main()
