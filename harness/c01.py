"""
C01 — both simulation backends compute the state the circuit defines.

Correspondence: random circuits over the whole op alphabet on mixed emitter/photon/classical registers are compiled by the real
StabilizerCompiler and DensityMatrixCompiler (subclassed only to snapshot the otherwise-discarded classical record) in all three
measurement settings; the same op sequence (the implementation's own `sequence()`) is run by the Lean model (`circ.stab`).
  exact: stabilizer backend tableau, record, outcomes == model's;  DM backend == rho(model tableau) within 1e-8, record equal;
  DM backend == the executable exact density-matrix model `compileDM` (driver `noise.run be=dm ns=0`, n_quantum <= 4, forced settings),
  which Properties/C01.lean proves equal to rho(stabRun) for every circuit (also evaluated here on the compiled model);
  graphiq's matrix builders == the entrywise Hilbert-space primitives of the proofs (`primitives_check`, all n <= 4);
  RNG draws of both backends == number of random measurements of the model.
Direct oracle (independent numpy reference of textbook semantics): all registers start in |0>, photons indexed before emitters,
forced outcomes honoured exactly when possible, a reset leaves the measured qubit in |0>, record = outcomes, backends agree.
"""
import numpy as np

from harness import tabutil as tu
from harness import dmutil as du
from harness.common import Driver, Result, err_class, impl_guard

LEVEL = "proof"
TRUSTED_BASE = [
    "Lean 4.33 kernel",
    "hand-written model GraphiqModel/Model/{Circuit,Tableau,Pauli}.lean tied to compiler_base.py/stabilizer/compiler.py by this correspondence run",
    "density-matrix backend: agreement of its compile loop with the stabilizer compile loop is a theorem (C01 backends_agree, executable_dm_model_agrees) about the exact "
    "semantics; that the floating-point numpy code computes this semantics is tied numerically (1e-8) per circuit: real DensityMatrixCompiler vs rho(model state) and "
    "vs the executable exact model Noise.compileDM (n_quantum <= 4, forced settings)",
    "numpy reference simulator (n_quantum <= 6), patched numpy RNG entry points (randint, choice) to script measurement outcomes",
]
ASSUMPTIONS = ["noise-free compilation (noise is C06)", "circuits are built through CircuitDAG.add from valid operations"]

DM_EXEC_MAX_N = 4  # the exact rational density-matrix model is run for n_quantum <= 4 (16x16 matrices over Q[i])

GEN_NAMES = ["Identity", "Hadamard", "Phase", "SigmaX", "SigmaY", "SigmaZ"]
TOK1 = {"Identity": "I", "Hadamard": "H", "Phase": "P", "SigmaX": "X", "SigmaY": "Y", "SigmaZ": "Z", "PhaseDagger": "PD"}


class Script:
    """scripts numpy's RNG entry points used by the two backends"""

    def __init__(self, bits):
        self.bits = list(bits)
        self.used = 0

    def nxt(self):
        self.used += 1
        return self.bits.pop(0) if self.bits else 0

    def randint(self, *a, **k):
        return self.nxt()

    def choice(self, a, *args, p=None, **k):
        # numpy's signature is choice(a, size=None, replace=True, p=None): `p` may arrive positionally (4th) or not at all (uniform) —
        # a refactored call must neither raise inside the script nor be reported as the backend raising
        if p is None and len(args) >= 3:
            p = args[2]
        if p is None:
            return self.nxt()
        p = np.asarray(p, dtype=float)
        if p[0] > 1 - 1e-9:
            return 0
        if p[1] > 1 - 1e-9:
            return 1
        return self.nxt()


def make_compilers():
    from graphiq.backends.density_matrix.compiler import DensityMatrixCompiler
    from graphiq.backends.stabilizer.compiler import StabilizerCompiler

    class RecMixin:
        # both overrides accept and forward whatever the caller passes (also used by C02 and C10): a signature-extending refactor of
        # CompilerBase must neither raise inside the recorder nor be reported as the compiler raising.  The classical record is the
        # argument named `classical_registers` (keyword, or the fifth positional one as compile() passes it today).
        def compile_one_gate(self, *args, **kwargs):
            r = super().compile_one_gate(*args, **kwargs)
            op = kwargs.get("op", args[1] if len(args) > 1 else None)
            cr = kwargs.get("classical_registers", args[4] if len(args) > 4 else None)
            if cr is not None:
                self.last_record = np.array(cr).copy()
            self.trace.append((type(op).__name__, np.array(self.last_record).copy()))
            return r

        def compile(self, circuit, *args, **kwargs):
            self.last_record = np.zeros(circuit.n_classical)
            self.trace = []
            return super().compile(circuit, *args, **kwargs)

    class SC(RecMixin, StabilizerCompiler):
        pass

    class DC(RecMixin, DensityMatrixCompiler):
        pass

    return SC, DC


def gen_circuit(rng, ne, np_, nc, length):
    """-> list of op descriptors (kind, args...)"""
    regs = [("e", i) for i in range(ne)] + [("p", i) for i in range(np_)]
    out = []
    for _ in range(length):
        w = rng.random()
        q = rng.choice(regs)
        if w < 0.30 or len(regs) < 2:
            out.append((rng.choice(GEN_NAMES + ["PhaseDagger", "Hadamard", "Hadamard", "Hadamard"]), q))
        elif w < 0.42:
            k = rng.randrange(1, 5)
            out.append(("W", tuple(rng.choice(GEN_NAMES) for _ in range(k)), q))
        elif w < 0.70:
            t = rng.choice([r for r in regs if r != q])
            out.append((rng.choice(["CX", "CZ"]), q, t))
        elif nc == 0:
            out.append((rng.choice(GEN_NAMES), q))
        elif w < 0.80:
            out.append(("MZ", q, rng.randrange(nc)))
        else:
            t = rng.choice([r for r in regs if r != q])
            out.append((rng.choice(["CCX", "CCZ", "MCR", "MCR"]), q, t, rng.randrange(nc)))
    return out


def build(desc, ne, np_, nc):
    import graphiq.circuit.ops as ops
    from graphiq.circuit.circuit_dag import CircuitDAG

    c = CircuitDAG(n_emitter=ne, n_photon=np_, n_classical=nc)
    for d in desc:
        k = d[0]
        if k in GEN_NAMES or k == "PhaseDagger":
            c.add(getattr(ops, k)(register=d[1][1], reg_type=d[1][0]))
        elif k == "W":
            c.add(ops.OneQubitGateWrapper([getattr(ops, n) for n in d[1]], register=d[2][1], reg_type=d[2][0]))
        elif k in ("CX", "CZ"):
            cls = ops.CNOT if k == "CX" else ops.CZ
            c.add(cls(control=d[1][1], control_type=d[1][0], target=d[2][1], target_type=d[2][0]))
        elif k == "MZ":
            c.add(ops.MeasurementZ(register=d[1][1], reg_type=d[1][0], c_register=d[2]))
        else:
            cls = {"CCX": ops.ClassicalCNOT, "CCZ": ops.ClassicalCZ, "MCR": ops.MeasurementCNOTandReset}[k]
            c.add(cls(control=d[1][1], control_type=d[1][0], target=d[2][1], target_type=d[2][0], c_register=d[3]))
    return c


class UnknownOp(Exception):
    """sequence() handed out an operation of a class outside the token alphabet of the circuit model (the implementation left the modelled
    domain: reported through impl_guard(also=(UnknownOp,)) as a correspondence break, not a harness crash)"""


def tokens_of(circuit):
    """op tokens in the implementation's own sequence order"""
    import graphiq.circuit.ops as ops

    toks, kinds = [], []
    for op in circuit.sequence():
        if isinstance(op, ops.InputOutputOperationBase):
            continue
        nm = type(op).__name__
        if isinstance(op, ops.OneQubitGateWrapper):
            toks.append("W:" + ".".join(g.__name__ for g in op.operations) + f":{op.reg_type}{op.register}")
            kinds.append(("W", [g.__name__ for g in op.operations], (op.reg_type, op.register)))
        elif nm in TOK1:
            toks.append(f"{TOK1[nm]}:{op.reg_type}{op.register}")
            kinds.append((nm, (op.reg_type, op.register)))
        elif nm in ("CNOT", "CZ"):
            t = "CX" if nm == "CNOT" else "CZ"
            toks.append(f"{t}:{op.control_type}{op.control}:{op.target_type}{op.target}")
            kinds.append((t, (op.control_type, op.control), (op.target_type, op.target)))
        elif nm == "MeasurementZ":
            toks.append(f"MZ:{op.reg_type}{op.register}:c{op.c_register}")
            kinds.append(("MZ", (op.reg_type, op.register), op.c_register))
        else:
            t = {"ClassicalCNOT": "CCX", "ClassicalCZ": "CCZ", "MeasurementCNOTandReset": "MCR"}.get(nm)
            if t is None:
                raise UnknownOp(f"operation class {nm} in sequence()")
            toks.append(f"{t}:{op.control_type}{op.control}:{op.target_type}{op.target}:c{op.c_register}")
            kinds.append((t, (op.control_type, op.control), (op.target_type, op.target), op.c_register))
    return toks, kinds


DM_KIND = {"Identity": "identity", "Hadamard": "h", "Phase": "s", "SigmaX": "x", "SigmaY": "y", "SigmaZ": "z", "PhaseDagger": "sdg",
           "CX": "cnot", "CZ": "cz", "CCX": "ccnot", "CCZ": "ccz", "MCR": "mcr"}


def dm_tokens(kinds):
    """the circuit as `DMX.trOps` of Proofs/DMCompileExec.lean translates it for the executable density-matrix model
    (`noise.run be=dm ns=0`): the unwrapped sequence, a wrapper's gates in reversed list order"""
    toks = []
    for k in kinds:
        if k[0] == "W":
            for g in reversed(k[1]):
                toks.append(f"{DM_KIND[g]}:{k[2][1]}:{k[2][0]}:0:e:0:N:N")
        elif k[0] in ("CX", "CZ"):
            toks.append(f"{DM_KIND[k[0]]}:{k[1][1]}:{k[1][0]}:{k[2][1]}:{k[2][0]}:0:N:N")
        elif k[0] == "MZ":
            toks.append(f"measz:{k[1][1]}:{k[1][0]}:0:e:{k[2]}:N:N")
        elif k[0] in ("CCX", "CCZ", "MCR"):
            toks.append(f"{DM_KIND[k[0]]}:{k[1][1]}:{k[1][0]}:{k[2][1]}:{k[2][0]}:{k[3]}:N:N")
        else:
            toks.append(f"{DM_KIND[k[0]]}:{k[1][1]}:{k[1][0]}:0:e:0:N:N")
    return ",".join(toks) if toks else "-"


def ref_run(kinds, ne, np_, nc, det, bits, rho0=None):
    """textbook semantics on dense matrices; photons first then emitters. returns (rho, record, outcomes, used_bits)"""
    n = ne + np_
    ix = lambda r: r[1] if r[0] == "p" else r[1] + np_  # noqa: E731
    rho = np.zeros((2 ** n, 2 ** n), dtype=complex)
    rho[0, 0] = 1
    if rho0 is not None:
        rho = rho0.copy()
    rec = [0] * nc
    outs = []
    bits = list(bits)
    M = {"Identity": tu.I2, "Hadamard": tu.H, "Phase": tu.S, "SigmaX": tu.X, "SigmaY": tu.Y, "SigmaZ": tu.Z, "PhaseDagger": tu.S.conj().T}

    def measure(q):
        nonlocal rho
        _, p1 = tu.project(rho, n, q, 1)
        if p1 < 1e-9:
            o = 0
        elif p1 > 1 - 1e-9:
            o = 1
        else:
            o = det if det in (0, 1) else (bits.pop(0) if bits else 0)
        r, p = tu.project(rho, n, q, o)
        rho = r / p
        outs.append(o)
        return o

    for k in kinds:
        if k[0] in M:
            rho = tu.conj(tu.op_on(n, ix(k[1]), M[k[0]]), rho)
        elif k[0] == "W":
            u = np.eye(2, dtype=complex)
            for g in k[1]:
                u = u @ M[g]
            rho = tu.conj(tu.op_on(n, ix(k[2]), u), rho)
        elif k[0] == "CX":
            rho = tu.conj(tu.cnot_matrix(n, ix(k[1]), ix(k[2])), rho)
        elif k[0] == "CZ":
            rho = tu.conj(tu.cz_matrix(n, ix(k[1]), ix(k[2])), rho)
        elif k[0] == "MZ":
            rec[k[2]] = measure(ix(k[1]))
        else:
            o = measure(ix(k[1]))
            if o == 1:
                rho = tu.conj(tu.op_on(n, ix(k[2]), tu.Z if k[0] == "CCZ" else tu.X), rho)
            rec[k[3]] = o
            if k[0] == "MCR" and o == 1:
                rho = tu.conj(tu.op_on(n, ix(k[1]), tu.X), rho)  # reset the (collapsed) control to |0>
    return rho, rec, outs



def primitives_check(res, rng):
    """The primitives of the Hilbert-space reading `DMH.dmRunH` (Proofs/DMCompileH.lean) against graphiq's builders, exhaustively for
    n <= 4: `oneQ`, `ctrlQ`, the Z projectors, the reset Kraus pair, |0..0><0..0| are defined ENTRYWISE on bit strings in Lean
    (qubit 0 = most significant bit of the numpy index); here the same entrywise definitions are evaluated in Python and compared
    with `get_one_qubit_gate`, `get_two_qubit_controlled_gate`, `projectors_zbasis`, `get_reset_qubit_kraus`,
    `create_n_product_state`, `hermitianize` and the 2x2 constants of functions.py."""
    import graphiq.backends.density_matrix.functions as dmf

    def bits(n, i):
        return [(i >> (n - 1 - k)) & 1 for k in range(n)]

    def oneq(n, q, u):
        m = np.zeros((2 ** n, 2 ** n), dtype=complex)
        for i in range(2 ** n):
            for j in range(2 ** n):
                a, b = bits(n, i), bits(n, j)
                if all(a[k] == b[k] for k in range(n) if k != q):
                    m[i, j] = u[a[q], b[q]]
        return m

    def ctrlq(n, c, t, u):
        m = np.zeros((2 ** n, 2 ** n), dtype=complex)
        for i in range(2 ** n):
            for j in range(2 ** n):
                a, b = bits(n, i), bits(n, j)
                if all(a[k] == b[k] for k in range(n) if k != t):
                    m[i, j] = u[a[t], b[t]] if b[c] else (1 if a[t] == b[t] else 0)
        return m

    def cmp(name, got, want, **inp):
        res.evaluations += 1
        if not (np.asarray(got).shape == np.asarray(want).shape and np.allclose(got, want, atol=1e-12)):
            res.exact_break(f"dm-primitive:{name}", input=inp, impl=str(np.round(np.asarray(got), 6).tolist())[:300],
                            model=str(np.round(np.asarray(want), 6).tolist())[:300])

    r2 = 1 / np.sqrt(2)
    consts = {"sigmax": [[0, 1], [1, 0]], "sigmay": [[0, -1j], [1j, 0]], "sigmaz": [[1, 0], [0, -1]], "hadamard": [[r2, r2], [r2, -r2]],
              "phase": [[1, 0], [0, 1j]], "phase_dag": [[1, 0], [0, -1j]], "identity": [[1, 0], [0, 1]],
              "projector_ketz0": [[1, 0], [0, 0]], "projector_ketz1": [[0, 0], [0, 1]]}
    for k, v in consts.items():
        cmp(k, getattr(dmf, k)(), np.array(v, dtype=complex))
    from graphiq.backends.density_matrix.compiler import DensityMatrixCompiler
    import graphiq.circuit.ops as ops
    table = {"Hadamard": "hadamard", "Phase": "phase", "PhaseDagger": "phase_dag", "SigmaX": "sigmax", "SigmaY": "sigmay", "SigmaZ": "sigmaz",
             "CNOT": "sigmax", "CZ": "sigmaz", "ClassicalCNOT": "sigmax", "ClassicalCZ": "sigmaz", "MeasurementCNOTandReset": "sigmax"}
    for cls, k in table.items():
        cmp(f"ops-table:{cls}", DensityMatrixCompiler.ops[getattr(ops, cls)](), np.array(consts[k], dtype=complex))
    for n in range(1, 5):
        cmp("create_n_product_state", dmf.create_n_product_state(n, dmf.state_ketz0()),
            np.array([[1 if i == 0 and j == 0 else 0 for j in range(2 ** n)] for i in range(2 ** n)], dtype=complex), n=n)
        for q in range(n):
            g = np.array([[complex(rng.randrange(-3, 4), rng.randrange(-3, 4)) for _ in range(2)] for _ in range(2)])
            cmp("get_one_qubit_gate", dmf.get_one_qubit_gate(n, q, g), oneq(n, q, g), n=n, q=q)
            p = dmf.projectors_zbasis(n, q)
            for sbit in (0, 1):
                cmp("projectors_zbasis", p[sbit], np.diag([1.0 if bits(n, i)[q] == sbit else 0.0 for i in range(2 ** n)]), n=n, q=q, s=sbit)
            kr = dmf.get_reset_qubit_kraus(n, q)
            cmp("get_reset_qubit_kraus[0]", kr[0], oneq(n, q, np.array([[1, 0], [0, 0]])), n=n, q=q)
            cmp("get_reset_qubit_kraus[1]", kr[1], oneq(n, q, np.array([[0, 1], [0, 0]])), n=n, q=q)
            for t in range(n):
                if t != q:
                    cmp("get_two_qubit_controlled_gate", dmf.get_two_qubit_controlled_gate(n, q, t, g), ctrlq(n, q, t, g), n=n, c=q, t=t)
    m = np.array([[complex(rng.random(), rng.random()) for _ in range(4)] for _ in range(4)])
    cmp("hermitianize", dmf.hermitianize(m), (m + m.conj().T) / 2)


def _variant(rng, d):
    """another operation on the same registers as descriptor `d` (what `replace_op` accepts); None if there is none"""
    k = d[0]
    if k in GEN_NAMES or k == "PhaseDagger":
        return (rng.choice([g for g in GEN_NAMES + ["PhaseDagger"] if g != k]), d[1])
    if k == "W":
        return (rng.choice(GEN_NAMES), d[2]) if rng.random() < 0.5 else ("W", tuple(rng.choice(GEN_NAMES) for _ in range(rng.randrange(1, 4))), d[2])
    if k in ("CX", "CZ"):
        return ("CZ" if k == "CX" else "CX", d[1], d[2])
    if k in ("CCX", "CCZ"):
        return ("CCZ" if k == "CCX" else "CCX", d[1], d[2], d[3])
    return None


def edited_circuit(rng, SC, desc, ne, np_, nc):
    """a circuit object with a *history*: built, compiled once (whatever the library caches about the circuit is now filled), then some of its
    operations exchanged through `replace_op`, possibly on a copy.  Returns (object, descriptor list of what the object now is)."""
    circuit = build(desc, ne, np_, nc)
    ids = sorted(n for n in circuit.dag.nodes if isinstance(n, int))
    if len(ids) != len(desc):
        return circuit, desc
    try:
        SC().compile(circuit)
    except Exception:  # noqa: BLE001 — reported by the ordinary stream
        pass
    circuit.sequence()
    if rng.random() < 0.4:
        circuit = circuit.copy()
    new_desc = list(desc)
    for k in rng.sample(range(len(desc)), min(len(desc), rng.randrange(1, 4))):
        v = _variant(rng, desc[k])
        if v is None:
            continue
        circuit.replace_op(ids[k], _mk_op(v))
        new_desc[k] = v
    return circuit, new_desc


def _mk_op(d):
    """the operation object of one descriptor (same construction as `build`)"""
    c = build([d], 64, 64, 8)
    (n,) = [x for x in c.dag.nodes if isinstance(x, int)]
    return c.dag.nodes[n]["op"]


def one_case(ctx, res, drv, rng, SC, DC, ne, np_, nc, length, use_dm, init=False, history=False):
    import numpy.random as npr
    from graphiq.state import QuantumState

    desc = gen_circuit(rng, ne, np_, nc, length)
    if history and desc:
        # the circuit the backends compile is reached through compile -> replace_op (-> copy); what it *is* (the model's input) is read off a
        # freshly built circuit with the same operations, never off the edited object's own `sequence()`
        circuit, desc = edited_circuit(rng, SC, desc, ne, np_, nc)
        toks, kinds = tokens_of(build(desc, ne, np_, nc))
        own = tokens_of(circuit)[0]
        res.count("branches", "history:compile-replace_op-compile")
        if own != toks:
            res.violation("circuit:sequence-differs-from-dag-after-replace_op", "after compile -> replace_op the circuit's sequence() is not the operations its DAG holds",
                          input={"ne": ne, "np": np_, "nc": nc, "ops": ",".join(toks), "sequence": ",".join(own)})
    else:
        circuit = build(desc, ne, np_, nc)
        toks, kinds = tokens_of(circuit)
    n = ne + np_
    init_tab = tu.random_tableau(rng, n) if init else None
    lines, items = [], []
    dm_lines, dm_items = [], []
    for det in (0, 1, "p"):
        bits = [rng.randrange(2) for _ in range(length + 2)]
        inp = {"ne": ne, "np": np_, "nc": nc, "det": det, "script": "".join(map(str, bits)), "ops": ",".join(toks) or "-",
               "init": tu.tab_args(init_tab) if init_tab is not None else None}
        res.evaluations += 1
        res.count("sizes", f"nq={n}" if n <= 6 else "nq>6")
        out = {}
        for name, C in (("stab", SC), ("dm", DC)):
            if name == "dm" and not use_dm:
                continue
            comp = C()
            comp.measurement_determinism = "probabilistic" if det == "p" else det
            sc = Script(bits)
            saved = (npr.randint, npr.choice)
            npr.randint, npr.choice = sc.randint, sc.choice
            np.random.randint, np.random.choice = sc.randint, sc.choice
            try:
                st0 = None
                if init_tab is not None:
                    st0 = QuantumState(init_tab.copy(), rep_type="s") if name == "stab" else QuantumState(tu.dense_rho(init_tab), rep_type="dm")
                state = comp.compile(circuit, initial_state=st0)
                out[name] = (state.rep_data.data, [int(v) for v in comp.last_record], sc.used)
            except Exception as e:  # noqa: BLE001
                out[name] = ("err", err_class(e), str(e)[:200])
            finally:
                npr.randint, npr.choice = saved
                np.random.randint, np.random.choice = saved
        # reference (n <= 6)
        if n <= 6:
            rho_ref, rec_ref, outs_ref = ref_run(kinds, ne, np_, nc, det, bits, tu.dense_rho(init_tab) if init_tab is not None else None)
        for name in out:
            if isinstance(out[name][0], str) and out[name][0] == "err":
                res.violation(f"compile:{name}:raises:{out[name][1]}", f"{name} compiler raised on a valid circuit: {out[name][2]}", input=inp)
                continue
            data, rec, used = out[name]
            if n <= 6:
                # validity first: dense_rho of a non-binary / wrongly shaped tableau (or allclose on a matrix of another size) would raise in
                # harness code and end the run as an infrastructure failure
                if name == "stab" and not (tu.is_binary(data) and tu.is_valid(data)):
                    res.violation("compile:stab:invalid-tableau", "stabilizer backend returned an invalid tableau", input=inp)
                else:
                    rho = tu.dense_rho(data) if name == "stab" else np.asarray(data)
                    if np.shape(rho) != np.shape(rho_ref) or not np.allclose(rho, rho_ref, atol=1e-8):
                        res.violation(f"compile:{name}:wrong-state", f"{name} backend's state differs from textbook semantics of the circuit", input=inp)
                if rec != rec_ref:
                    res.violation(f"compile:{name}:wrong-record", f"{name} backend's classical record {rec} differs from the outcomes {rec_ref}", input=inp)
        init_args = (" " + tu.tab_args(init_tab)) if init_tab is not None else ""
        lines.append(f"circ.stab ne={ne} np={np_} nc={nc} det={det} script={inp['script']} ops={inp['ops']}{init_args}")
        items.append((inp, out, n))
        if use_dm and init_tab is None and det in (0, 1) and n <= DM_EXEC_MAX_N:
            # the executable exact density-matrix model (`compileDM`, noise off) — proved equal to rho(stabRun) for every
            # circuit (C01 `executable_dm_model_agrees`); here it is run against the real DensityMatrixCompiler
            dm_lines.append(f"noise.run be=dm ns=0 ne={ne} np={np_} nc={nc} det={det} ops={dm_tokens(kinds)}")
            dm_items.append((inp, out, len(items) - 1))
    stab_reps = drv.batch(lines)
    for rep, (inp, out, k_item) in zip(drv.batch(dm_lines) if dm_lines else [], dm_items):
        if rep["_status"] != "ok" or rep.get("nan") == "1":
            res.exact_break("noise.run[dm,noise off]:error", input=inp, model=rep["_raw"][:200])
            continue
        mrho = du.parse_mat(rep).to_complex()
        mrec_dm = [int(v) for v in rep["rec"].split(",")] if rep["rec"] != "-" else []
        res.count("sizes", "dm-exec")
        if "dm" in out and not isinstance(out["dm"][0], str):
            data, rec, used = out["dm"]
            if not du.mat_close(np.asarray(data), mrho, 1e-8) or rec != mrec_dm:
                res.exact_break("compileDM[noise off]", input=inp, impl=f"rec={rec} " + str(np.round(np.asarray(data), 6).tolist())[:300],
                                model=rep["_raw"][:400])
            else:
                res.traces_validated += 1
        srep = stab_reps[k_item]
        if srep["_status"] == "ok":
            # the theorem itself, evaluated on the compiled model: compileDM == rho(stabRun), same record
            n2 = int(srep["n"])
            x = tu.unbits(srep["x"], (2 * n2, n2))
            z = tu.unbits(srep["z"], (2 * n2, n2))
            r = tu.unbits(srep["r"], (2 * n2,))
            rho_m = np.eye(2 ** n2, dtype=complex) / 2 ** n2
            for k in range(n2, 2 * n2):
                rho_m = rho_m @ (np.eye(2 ** n2) + tu.pauli_matrix(x[k], z[k], r[k], 0))
            srec = [int(c) for c in srep["rec"]] if srep["rec"] != "-" else []
            if not du.mat_close(mrho, rho_m, 1e-9) or srec != mrec_dm:
                res.exact_break("compileDM-vs-rho(stabRun) [theorem executable_dm_model_agrees]", input=inp, model=rep["_raw"][:400])
    for rep, (inp, out, n) in zip(stab_reps, items):
        if rep["_status"] != "ok":
            res.exact_break("circ.stab:error", input=inp, model=rep["_raw"][:200])
            continue
        meas = rep.get("rand", "-")
        if "1" in meas and any(c in inp["ops"] for c in ("CX", "CZ")):
            res.nontrivial(inp["ops"], inp["det"], inp["script"], inp["init"])
        res.branch(["meas:random"] * meas.count("1") + ["meas:det"] * meas.count("0"))
        # drawn bits: consumed exactly by the random measurements in probabilistic mode, never under a forced setting
        # (C01 `settings_whole_run`); the DM backend's `choice` counts as a draw only when both outcomes are possible
        want_used = meas.count("1") if inp["det"] == "p" else 0
        for name in ("stab", "dm"):
            if name in out and not isinstance(out[name][0], str) and out[name][2] != want_used:
                res.exact_break(f"circ.stab:rng-draws[{name}]", input=inp, impl=f"used={out[name][2]}", model=f"random measurements={want_used}")
        mrec = [int(c) for c in rep["rec"]] if rep["rec"] != "-" else []
        if "stab" in out and not isinstance(out["stab"][0], str):
            data, rec, used = out["stab"]
            if tu.reply_tuple(rep) != tu.tab_tuple(data) or rec != mrec:
                same = tu.canon_from_reply(rep) == tu.stab_canon(data) and rec == mrec
                (res.exact_break if same else res.violation)(*(("circ.stab",) if same else ("compile:stab:differs-from-verified-model", "stabilizer backend differs (as a state or record) from the verified model")),
                                                             input=inp, impl=tu.tab_args(data) + f" rec={rec}", model=rep["_raw"][:1500])
            else:
                res.traces_validated += 1
        if "dm" in out and not isinstance(out["dm"][0], str):
            data, rec, used = out["dm"]
            n2 = int(rep["n"])
            x = tu.unbits(rep["x"], (2 * n2, n2))
            z = tu.unbits(rep["z"], (2 * n2, n2))
            r = tu.unbits(rep["r"], (2 * n2,))
            rho_m = np.eye(2 ** n2, dtype=complex) / 2 ** n2
            for k in range(n2, 2 * n2):
                rho_m = rho_m @ (np.eye(2 ** n2) + tu.pauli_matrix(x[k], z[k], r[k], 0))
            if not np.allclose(np.asarray(data), rho_m, atol=1e-8) or rec != mrec:
                res.violation("compile:dm:differs-from-verified-model", "density-matrix backend differs from rho(verified model state) or from its record",
                              input=inp, impl_rec=rec, model=rep["_raw"][:600])
            else:
                res.traces_validated += 1
    if lines:
        res.sample(lines[0][:300])


def exhaustive_short(ctx, res, drv, SC, DC):
    """all circuits of <= 2 ops over one emitter, one photon, one classical register"""
    regs = [("e", 0), ("p", 0)]
    alphabet = []
    for q in regs:
        alphabet += [(g, q) for g in ["Hadamard", "Phase", "SigmaX", "PhaseDagger"]]
        alphabet.append(("MZ", q, 0))
        alphabet.append(("W", ("Hadamard", "Phase"), q))
    for c, t in ((regs[0], regs[1]), (regs[1], regs[0])):
        alphabet += [("CX", c, t), ("CZ", c, t), ("CCX", c, t, 0), ("CCZ", c, t, 0), ("MCR", c, t, 0)]
    import itertools

    class Fixed:
        def __init__(self, seqs):
            self.seqs = seqs

    for k in (1, 2):
        for combo in itertools.product(alphabet, repeat=k):
            # prepend a Hadamard on the emitter so that measurements are non-trivial
            desc = [("Hadamard", ("e", 0)), ("CX", ("e", 0), ("p", 0))] + list(combo)
            _run_fixed(ctx, res, drv, SC, DC, desc, 1, 1, 1)


def _run_fixed(ctx, res, drv, SC, DC, desc, ne, np_, nc):
    class R:
        def __init__(self, rng, desc):
            self._rng = rng
            self._desc = desc

        def __getattr__(self, k):
            return getattr(self._rng, k)

    global gen_circuit
    saved = gen_circuit
    gen_circuit = lambda *a, **k: desc  # noqa: E731
    try:
        one_case(ctx, res, drv, ctx.rng, SC, DC, ne, np_, nc, len(desc), True)
    finally:
        gen_circuit = saved


def run(ctx, budget=1.0):
    res = Result()
    res.rule = ("one evaluation = one circuit compiled in one measurement setting (by the stabilizer backend, and by the density-matrix backend "
                "when n_quantum <= 6); non-trivial = at least one two-qubit gate and at least one random-outcome measurement; distinct by "
                "(op sequence, setting, drawn bits, initial state)")
    drv = Driver()
    rng = ctx.rng
    SC, DC = make_compilers()
    # every case runs under common.impl_guard: building the circuit (CircuitDAG, add, the ops constructors), sequence(), replace_op / copy of
    # the history cases and the generator of initial tableaux call graphiq outside the compile `try`; an exception there is the
    # implementation failing on a valid input (reported, exit 1), it no longer leaves run() as a harness crash (exit 2)
    with impl_guard(res, "dm-primitives"):
        primitives_check(res, rng)
    n_small = int((260 if ctx.quick else 3000) * budget)
    for k in range(n_small):
        ne = rng.randrange(1, 4)
        np_ = rng.randrange(0, 4)
        if ne + np_ > 6:
            np_ = 6 - ne
        nc = rng.randrange(0, 4)
        with impl_guard(res, "circuit", promise=True, input={"ne": ne, "np": np_, "nc": nc, "case": k}, also=(UnknownOp,)):
            one_case(ctx, res, drv, rng, SC, DC, ne, np_, nc, rng.randrange(0, 26 if ctx.quick else 60), True, init=(k % 7 == 3), history=(k % 5 == 1))
    for k in range(int((25 if ctx.quick else 200) * budget)):
        ne = rng.randrange(2, 12)
        np_ = rng.randrange(3, 30)
        with impl_guard(res, "circuit", promise=True, input={"ne": ne, "np": np_, "case": f"large-{k}"}, also=(UnknownOp,)):
            one_case(ctx, res, drv, rng, SC, DC, ne, np_, rng.randrange(1, 5), rng.randrange(20, 80), False)
    if not ctx.quick:
        with impl_guard(res, "circuit:exhaustive", promise=True, also=(UnknownOp,)):
            exhaustive_short(ctx, res, drv, SC, DC)
            res.notes.append("exhaustive: all circuits of <= 2 ops (after a Bell-pair preamble) over one emitter, one photon, one classical register")
    res.extra["driver_lines"] = drv.n_lines
    drv.close()
    return res


def search(ctx, res, proof_broken):
    drv = Driver()
    SC, DC = make_compilers()
    for _ in range(600):
        one_case(ctx, res, drv, ctx.rng, SC, DC, ctx.rng.randrange(1, 3), ctx.rng.randrange(0, 3), ctx.rng.randrange(0, 3), ctx.rng.randrange(0, 12), True)
        if res.violations:
            break
    if not res.violations:
        exhaustive_short(ctx, res, drv, SC, DC)
    drv.close()


def replay(ctx, data):
    v = data.get("violation") or {}
    inp = v.get("input") or {}
    if "ops" not in inp:
        return None
    print("replay: re-run `circ.stab` line and both compilers on", inp)
    return None
