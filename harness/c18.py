"""
C18 — circuit cost metrics equal the quantities they are defined as.

Correspondence: every metric class of graphiq/metrics.py that is a function of the circuit (CircuitDepth,
CircuitEmitterCount, CircuitCnotCount, CircuitUnitaryCount, CircuitMeasureCount, CircuitMaxEmitDepth,
CircuitMaxEmitResetDepth, CircuitMaxEmitEffDepth) and `register_depth` are evaluated on the real circuit and by the Lean
model of the same code (`dag.metrics` for circuits built by `add`, `dag.run … qs=m` for circuits reached by arbitrary
edit histories); integers compared exactly.
On every history-built circuit the statement of `C18.metrics_eq_spec_on_any_schedule` / `metrics_after_history` is executed: the
operation nodes in the implementation's topological order, with their operations as wired on the model's wires, must form a schedule
(`every_topological_order_is_a_schedule`), and the driver's `Spec.*` on that operation list must equal the model's metrics, the
implementation's metrics and the harness' definitions.
Direct oracle (independent of the model, of graphiq helpers and of networkx): each metric recomputed from the
operation list `sequence()` by its definition (ASAP layering over shared registers, counting by class, per-emitter wire
= filter of the list); also evaluated with explicit penalty functions (result must be penalty(value)) and with default
constructor arguments.  For add-built circuits the model's own op-list specification (`Spec.*`, the right-hand side of
the theorems of Properties/C18.lean) is compared with the oracle as well.
"""
from harness import dagutil as du
from harness.common import Driver, Result, coverage_floor, impl_guard

LEVEL = "proof"
TRUSTED_BASE = [
    "Lean 4.33 kernel",
    "hand-written models GraphiqModel/Model/{Dag,Metrics}.lean tied to circuit_dag.py / metrics.py by this correspondence run "
    "(differential testing, bounded by the generators)",
    "networkx dag_longest_path_length = number of edges of a longest path (specification; checked on every observed value); "
    "networkx topological_sort returns a linear extension (specification; the sorted order is checked to be a schedule of the model's wires on every history input)",
    "harness, line protocol, own Python re-computation of every metric from the operation list",
]
ASSUMPTIONS = [
    "a metric's definition is taken over the dependencies the circuit object holds: every quantum register of an operation, and a "
    "classical register when the operation was wired to it (add() wires c_registers, insert_at() by design does not)",
    "metrics over emitters (max emitter depth / reset depth / effective depth) are undefined without emitters (the code raises ValueError; accepted)",
    "whether CZ / parameterised gates belong to the 'unitary count' is not demanded: the definition counts SigmaX, SigmaY, SigmaZ, Phase, "
    "PhaseDagger, Hadamard, CNOT after unwrapping, identities dropped (metrics.py docstring and label list)",
    "log_steps bookkeeping (log, _inc) is not part of the property",
    "user labels (op.add_labels) do not collide with class names or register-type descriptions (the counts are label-index based); this is "
    "exactly the hypothesis PlainOp of the theorems (labels outside Metrics.reservedNames)",
]

COUNTED = ["SigmaX", "SigmaY", "SigmaZ", "Phase", "PhaseDagger", "Hadamard", "CNOT"]
MARKS = ("Input", "MeasurementCNOTandReset", "Output")


# --------------------------------------------------------------------------------------------- op-list definitions
def op_list(circ):
    """[(class name, [quantum regs], [wired classical regs], [wrapped class names])] of the non-I/O operations, in the
    order of sequence(); + number of emitter Input operations"""
    g = circ.dag
    seq = circ.sequence()
    by_id = {id(g.nodes[n]["op"]): n for n in g.nodes}
    out = []
    n_emit = 0
    ops = du.ops_mod()
    for op in seq:
        if isinstance(op, ops.Input):
            if op.reg_type == "e":
                n_emit += 1
            continue
        if isinstance(op, ops.Output):
            continue
        n = by_id[id(op)]
        wired = sorted({k for _, _, k in g.in_edges(n, keys=True) if k.startswith("c")})
        q = [f"{t}{r}" for t, r in zip(op.q_registers_type, op.q_registers)]
        inner = [k.__name__ for k in op.operations] if isinstance(op, ops.OneQubitGateWrapper) else []
        out.append((type(op).__name__, q, wired, inner))
    return out, n_emit


def unwrap_list(lst):
    out = []
    for name, q, c, inner in lst:
        if name == "OneQubitGateWrapper":
            for k in reversed(inner):
                if k != "Identity":
                    out.append((k, q, [], []))
        elif name != "Identity":
            out.append((name, q, c, []))
    return out


def asap(lst):
    front = {}
    layers = []
    for name, q, c, _ in lst:
        lay = 1 + max([front.get(r, 0) for r in q + c], default=0)
        for r in q + c:
            front[r] = lay
        layers.append(lay)
    return layers, front


def gaps(xs):
    return [b - a for a, b in zip(xs, xs[1:])]


def ref_metrics(circ):
    """every metric by its definition -> dict name -> int or '!value'"""
    lst, n_emit = op_list(circ)
    layers, front = asap(lst)
    ref = {
        "depth": max(layers, default=0) if circ.dag.number_of_nodes() else -1,
        "emit": n_emit,
        "cnot": sum(1 for name, q, _, _ in lst if name == "CNOT" and all(r[0] == "e" for r in q)),
        "meas": sum(1 for name, _, _, _ in lst if name == "MeasurementCNOTandReset"),
    }
    ul = unwrap_list(lst)
    ulay, ufront = asap(ul)
    ref["unit"] = sum(1 for name, _, _, _ in ul if name in COUNTED)
    if n_emit == 0:
        ref["med"] = ref["reset"] = ref["eff"] = "!value"
    else:
        med, reset, eff = [], [], []
        for i in range(n_emit):
            wire = [(j, name) for j, (name, q, _, _) in enumerate(ul) if f"e{i}" in q]
            med.append(len(wire))
            marks = [0] + [p + 1 for p, (_, name) in enumerate(wire) if name == "MeasurementCNOTandReset"] + [len(wire) + 1]
            reset.append(max(gaps(marks)))
            depths = [-1] + [ulay[j] - 1 for j, name in wire if name == "MeasurementCNOTandReset"] + [ufront.get(f"e{i}", 0)]
            eff.append(max(gaps(depths)))
        ref["med"], ref["reset"], ref["eff"] = max(med), max(reset), max(eff)
    regd = {t: [front.get(f"{t}{i}", 0) for i in range(len(circ._registers._registers[t]))] for t in "epc"}
    return ref, regd


def ref_string(ref, with_eff=True):
    order = ["depth", "emit", "cnot", "unit", "meas", "med", "reset"] + (["eff"] if with_eff else [])
    return "/".join(f"{k}.{ref[k]}" for k in order)


# ----------------------------------------------------------------------------------------------------- generators
def gen_ops(rng, ne, np_, nc, n_ops, p_wrap=0.2, p_id=0.1, p_mcr=0.12):
    qregs = [("e", i) for i in range(ne)] + [("p", i) for i in range(np_)]
    toks = []
    for _ in range(n_ops):
        w = rng.random()
        if w < 0.5 or len(qregs) < 2:
            t, r = rng.choice(qregs)
            v = rng.random()
            if v < p_wrap:
                inner = [rng.choice(du.ONE_Q[:7]) for _ in range(rng.randrange(1, 5))]
                toks.append(du.one_q_token("OneQubitGateWrapper", t, r, inner=inner))
            elif v < p_wrap + p_id:
                toks.append(du.one_q_token("Identity", t, r))
            else:
                toks.append(du.one_q_token(rng.choice(du.ONE_Q[:6] + ["RX"]), t, r))
        elif w < 0.5 + p_mcr and ne >= 1 and nc >= 0:
            a = ("e", rng.randrange(ne))
            b = rng.choice([x for x in qregs if x != a])
            toks.append(du.two_q_token("MeasurementCNOTandReset", a, b, creg=rng.randrange(max(1, nc))))
        elif w < 0.5 + p_mcr + 0.05:
            a, b = rng.sample(qregs, 2)
            toks.append(du.two_q_token(rng.choice(["ClassicalCNOT", "ClassicalCZ"]), a, b, creg=rng.randrange(max(1, nc))))
        else:
            if rng.random() < 0.5 and ne >= 2:
                a, b = rng.sample([("e", i) for i in range(ne)], 2)
            else:
                a, b = rng.sample(qregs, 2)
            toks.append(du.two_q_token("CNOT" if rng.random() < 0.7 else "CZ", a, b))
    return toks


def penalties(rng):
    a, b = rng.randrange(2, 5), rng.randrange(0, 7)
    return (lambda x: a * x + b), (a, b)


METRIC_CLASSES = [
    ("depth", "CircuitDepth", "depth_penalty"), ("emit", "CircuitEmitterCount", "n_emitter_penalty"),
    ("cnot", "CircuitCnotCount", "n_cnot_penalty"), ("unit", "CircuitUnitaryCount", "n_unitary_penalty"),
    ("meas", "CircuitMeasureCount", "m_penalty"), ("med", "CircuitMaxEmitDepth", "depth_penalty"),
    ("reset", "CircuitMaxEmitResetDepth", "depth_penalty"), ("eff", "CircuitMaxEmitEffDepth", "depth_penalty"),
]


def evaluate_all(circ, rng, with_eff):
    """-> {name: (default value or '!err', penalised value or '!err', (a, b))}; the circuit must not be mutated"""
    import graphiq.metrics as met

    out = {}
    for name, cls, kw in METRIC_CLASSES:
        if name == "eff" and not with_eff:
            continue
        f, ab = penalties(rng)
        vals = []
        for kwargs in ({}, {kw: f}, {"log_steps": 3}):
            try:
                vals.append(getattr(met, cls)(**kwargs).evaluate(None, circ))
            except Exception as e:  # noqa: BLE001
                vals.append("!" + du.err_name(e))
        out[name] = (vals[0], vals[1], ab, vals[2])
    return out


def eff_cost_ok(circ, cap=6000):
    import copy as _copy

    c = _copy.deepcopy(circ)  # not circ.copy(): the harness must not depend on the method the metrics use
    try:
        c.unwrap_nodes()
        c.remove_identity()
    except Exception:  # noqa: BLE001
        return True
    return du.max_depth_cost(c, cap) <= cap


def read_depths(circ):
    """the depth query of the public API (`register_depth` recomputes every register's depth through `_max_depth`); None when the
    literal recursion would be too expensive"""
    if du.max_depth_cost(circ, 6000) > 6000:
        return None
    try:
        rd = circ.register_depth
        return {t: [int(x) for x in rd[t]] for t in "epc"}
    except Exception as e:  # noqa: BLE001
        return "!" + du.err_name(e)


def replay_q(ne, np_, nc, edit_tokens):
    """`du.replay_edits` for histories that also contain *queries* (token `Q/d`: read `register_depth` at this point).  A query is not an
    edit: the model never sees it (metrics are functions of the circuit, not of what was asked before)."""
    circ = du.new_circuit(ne, np_, nc)
    errs = []
    for t in edit_tokens:
        if t.startswith("Q/"):
            read_depths(circ)
            errs.append(None)
            continue
        ed = du.parse_edit(t)
        if ed[0] == "C":
            circ = circ.copy()
            errs.append(None)
        else:
            errs.append(du.apply_edit(circ, ed))
    return circ, errs


def no_q(tokens):
    return [t for t in tokens if not t.startswith("Q/")]


def metric_fails(inp, name):
    """does metric `name` (or register_depth) still disagree with its definition on this history?"""
    import random

    try:
        circ, errs = replay_q(inp["ne"], inp["np"], inp["nc"], inp["edits"])
    except Exception:  # noqa: BLE001
        return False
    if any(e for e in errs):
        return False
    ref, regd = ref_metrics(circ)
    if name == "register_depth":
        if du.max_depth_cost(circ, 6000) > 6000:
            return False
        try:
            rd = circ.register_depth
            return {t: [int(x) for x in rd[t]] for t in "epc"} != regd
        except Exception:  # noqa: BLE001
            return True
    if name == "eff" and not eff_cost_ok(circ):
        return False
    vals = evaluate_all(circ, random.Random(0), name == "eff")
    d, pen, (a, b), d3 = vals[name]
    want = ref[name]
    return str(d) != str(want) or (isinstance(want, int) and (pen != a * want + b or d3 != want))


def shrink(inp, name, budget_s=6.0):
    import time

    t0 = time.time()
    cur = dict(inp)
    changed = True
    while changed and time.time() - t0 < budget_s:
        changed = False
        for i in range(len(cur["edits"]) - 1, -1, -1):
            cand = dict(cur, edits=cur["edits"][:i] + cur["edits"][i + 1:])
            if metric_fails(cand, name):
                cur = cand
                changed = True
            if time.time() - t0 > budget_s:
                break
    return cur


def report(res, key, clause, inp, name):
    small = shrink(inp, name) if len(res.violations) < 2 else inp
    res.violation(key, clause, input=small, original_length=len(inp["edits"]))


def check_circuit(res, circ, rng, inp, model_m, model_spec=None, before=None):
    """compare implementation, model (as coded) and definitions on one circuit"""
    before = before or du.canon_state(du.canon_parts(circ)[0])
    with_eff = "eff." in model_m
    vals = evaluate_all(circ, rng, with_eff)
    if du.canon_state(du.canon_parts(circ)[0]) != before:
        res.violation("metric:mutates-circuit", "evaluating a metric changed the circuit", input=inp)
        return
    ref, regd = ref_metrics(circ)
    impl_m = "/".join(f"{k}.{vals[k][0]}" for k, _, _ in METRIC_CLASSES if k in vals)
    res.evaluations += len(vals)
    for name, cls, kw in METRIC_CLASSES:
        if name not in vals:
            continue
        d, pen, (a, b), d3 = vals[name]
        want = ref[name]
        if str(d) != str(want):
            report(res, f"metric:{name}:wrong-value", f"{cls}().evaluate = {d}, definition on the operation list gives {want}", inp, name)
            return
        if isinstance(want, int) and (pen != a * want + b or d3 != want):
            report(res, f"metric:{name}:penalty", f"{cls}({kw}=x->{a}x+{b}).evaluate = {pen}, expected {a * want + b}; log_steps=3 gives {d3}", inp, name)
            return
    if impl_m != model_m:
        res.exact_break("metrics.evaluate", input=inp, impl=impl_m, model=model_m)
    if model_spec is not None and model_spec != ref_string(ref, True):
        res.exact_break("metrics.spec", input=inp, impl=ref_string(ref), model=model_spec,
                        note="the model's op-list specification differs from the harness' definition")
    # register depth
    if du.max_depth_cost(circ, 6000) <= 6000:
        try:
            rd = circ.register_depth
            got = {t: [int(x) for x in rd[t]] for t in "epc"}
        except Exception as e:  # noqa: BLE001
            got = "!" + du.err_name(e)
        if got != regd:
            report(res, "metric:register_depth:wrong-value", f"register_depth = {got}, ASAP layer of the last operation per register = {regd}", inp, "register_depth")
    res.traces_validated += 1


# ------------------------------------------------------------------ the theorem's statement on history-built circuits
def parse_model_wires(hans):
    """answer of query `h` -> {reg: [node strings]} (None when a walk failed)"""
    body = hans.split(":", 1)[1]
    wires = {}
    if body == "*":
        return wires
    for item in body.split("/"):
        r, w = item.split("~", 1)
        if w.startswith("!"):
            return None
        wires[r] = w.split(".")
    return wires


def parse_model_nodes(nodes_field):
    """`nodes=` of the full state -> {node string: op token}"""
    out = {}
    if nodes_field == "*":
        return out
    for item in nodes_field.split(";"):
        n, tok = item.split("~", 1)
        out[n] = tok
    return out


def schedule_of(circ, wires, nodes):
    """the schedule `schedOf c P pos` of Proofs/MetricsHist.lean for pos = the implementation's topological order: the
    operation nodes in the order of nx.topological_sort, each with its operation AS WIRED (wiredOp: only the classical
    registers on whose model wire the node lies).  -> [(node string, wired op token, [registers])]"""
    import networkx as nx

    L = []
    for n in nx.topological_sort(circ.dag):
        if isinstance(n, str):
            continue
        tok = nodes.get(str(n))
        if tok is None:
            return None
        name, q, c, lab, inner = tok.split(":")
        cs = [] if c == "*" else c.split(".")
        wired = [j for j in cs if str(n) in wires.get("c" + j, [])]
        qs = [] if q == "*" else q.split(".")
        L.append((str(n), ":".join([name, q, du.emp(".".join(wired)), lab, inner]), qs + ["c" + j for j in wired]))
    return L


def is_schedule(L, wires, nodes):
    """the predicate `Sched c P L` (Proofs/PrepDepthStatic.lean) evaluated on the model's wires: every wire is `in`, the scheduled
    nodes acting on the register in schedule order, `out`; L lists every operation node exactly once"""
    ids = [n for n, _, _ in L]
    if len(set(ids)) != len(ids) or set(ids) != {n for n in nodes if n.isdigit()}:
        return False
    for r, w in wires.items():
        if w != [r + "_in"] + [n for n, _, regs in L if r in regs] + [r + "_out"]:
            return False
    return all(all(r in wires for r in regs) for _, _, regs in L)


RESERVED = {"Input", "Output", "Hadamard", "SigmaX", "SigmaY", "SigmaZ", "Phase", "PhaseDagger", "Identity", "RX", "RY", "RZ",
            "ParameterizedOneQubitRotation", "OneQubitGateWrapper", "CNOT", "CZ", "ParameterizedControlledRotationQubit",
            "ClassicalCNOT", "ClassicalCZ", "MeasurementCNOTandReset", "MeasurementZ", "Emitter", "Photonic", "Emitter-Emitter",
            "Emitter-Photonic", "Photonic-Emitter", "Photonic-Photonic"}


def plain_token(tok):
    """hypothesis `AllPlain` of the theorems: no label collides with a class name or a register-type description
    (`Metrics.reservedNames`), wrappers wrap base classes"""
    name, q, c, lab, inner = tok.split(":")
    labs = [] if lab == "*" else lab.split(".")
    return all(x not in RESERVED for x in labs) and "OneQubitGateWrapper" not in inner.split(".")


def check_theorem_on_history(res, drv, circ, inp, rep, model_m):
    """`C18.metrics_after_history` / `metrics_eq_spec_on_any_schedule` executed on one history-built circuit: take the model's wires,
    form the schedule of the implementation's topological order, check it IS a schedule (`every_topological_order_is_a_schedule`),
    evaluate the model's op-list specification `Spec.*` on its operation list (driver) and compare with the model's metrics, the
    implementation's metrics and the harness' own definitions"""
    answers = rep["q"].split(",")[-1].split("+")
    hans = next((a for a in answers if a.startswith("h:")), None)
    if hans is None:
        return
    wires = parse_model_wires(hans)
    nodes = parse_model_nodes(rep.get("nodes", "*"))
    if wires is None:
        res.exact_break("metrics.schedule:wire-walk", input=inp, impl="reg_gate_history succeeds", model=hans[:200])
        return
    L = schedule_of(circ, wires, nodes)
    if L is None or not is_schedule(L, wires, nodes):
        res.exact_break("metrics.schedule:topological-order-is-a-schedule", input=inp, impl="schedule",
                        model=str(L)[:300], note="the operation nodes in the implementation's topological order do not form a schedule "
                        "of the model's wires (theorem every_topological_order_is_a_schedule, or the node identities, broke)")
        return
    regs = [int(x) for x in rep["regs"].split(",")]
    toks = [t for _, t, _ in L]
    srep = drv.ask(f"dag.metrics ne={regs[0]} np={regs[1]} nc={regs[2]} ops={du.emp(','.join(toks))} lite=1")
    if srep["_status"] != "ok":
        res.exact_break("metrics.schedule:spec-reply", input=inp, impl="ok", model=srep["_raw"][:200])
        return
    res.count("branches", "history:spec-on-schedule")
    if all(plain_token(t) for t in toks):
        res.count("branches", "history:spec-on-schedule:hypotheses-of-the-theorem-met")
    if any(c != "*" and c not in t.split(":")[2].split(".") for (n, t, _) in L for c in nodes[n].split(":")[2].split(".")):
        res.count("branches", "history:spec-on-schedule:unthreaded-classical-register")
    spec = {"depth": srep["sdepth"], "emit": srep["semit"], "cnot": srep["scnot"], "unit": srep["sunit"], "meas": srep["smeas"],
            "med": srep["smed"], "reset": srep["sreset"], "eff": srep["seff"]}
    ref, regd = ref_metrics(circ)
    model = dict(kv.split(".", 1) for kv in model_m.split("/"))
    res.evaluations += len(spec) + 1
    for k, v in spec.items():
        if k in model and model[k] != v:
            res.exact_break("metrics.spec-on-schedule", input=inp, impl=f"{k}: model metric {model[k]}", model=f"{k}: Spec on the schedule {v}",
                            note="theorem metrics_eq_spec_on_any_schedule contradicted by evaluation")
            return
        if str(ref[k]) != v:
            res.exact_break("metrics.spec-on-schedule", input=inp, impl=f"{k}: definition (harness) {ref[k]}", model=f"{k}: Spec on the schedule {v}")
            return
    want = "/".join(du.dots(regd[t]) for t in "epc")
    if srep["sregd"] != want:
        res.exact_break("metrics.spec-on-schedule", input=inp, impl=f"register depth (harness) {want}", model=f"Spec.regDepth on the schedule {srep['sregd']}")


def run(ctx):
    res = Result()
    res.rule = ("one evaluation = one metric class evaluated on one circuit (default arguments, explicit penalty, log_steps=3); non-trivial = "
                "the circuit has a two-qubit operation and a wrapper or identity; distinct by (registers, op list / edit history)")
    drv = du.RDriver()
    rng = ctx.rng
    n_add = 500 if ctx.quick else 4000
    n_hist = 150 if ctx.quick else 1200
    # -- circuits built by add (the domain of the C18 theorems): model metrics + model spec + definitions
    lines, cases = [], []
    for k in range(n_add):
        ne, np_, nc = rng.randrange(0 if k % 10 == 0 else 1, 4), rng.randrange(0, 5), rng.randrange(0, 3)
        if ne + np_ == 0:
            np_ = 1
        n_ops = rng.choice([0, 1, 2, 5, 10, 20, 30]) if k % 4 else rng.randrange(0, 45)
        toks = gen_ops(rng, ne, np_, nc, n_ops)
        circ, errs = None, ["?"]
        with impl_guard(res, "build", input={"ne": ne, "np": np_, "nc": nc, "edits": ["A/" + t for t in toks]}):
            circ, errs = du.replay_edits(ne, np_, nc, ["A/" + t for t in toks])
        if any(errs):
            # the generated operations are valid uses of add() (none raises on the unchanged repository): a circuit that cannot be built
            # used to be dropped silently; it is the implementation raising on a valid input (property C12 speaks of add, hence a break)
            if circ is not None:
                bad = next((e, t) for e, t in zip(errs, toks) if e)
                res.count("errors", f"build:add:raises:{bad[0]}")
                res.exact_break(f"build:add:raises:{bad[0]}", input={"ne": ne, "np": np_, "nc": nc, "edits": ["A/" + t for t in toks]},
                                impl=f"add({bad[1]}) raised {bad[0]}", model="add accepts the operation")
            continue
        lines.append(f"dag.metrics ne={ne} np={np_} nc={nc} ops={du.emp(','.join(toks))}")
        cases.append((circ, {"ne": ne, "np": np_, "nc": nc, "edits": ["A/" + t for t in toks]}, toks))
        res.count("sizes", "ops<=5" if n_ops <= 5 else ("ops<=20" if n_ops <= 20 else "ops>20"))
    # the literal `_max_depth` recursion is exponential in the worst case: evaluate effective depth / register depth only when cheap
    coverage_floor(res, "add-built circuits", len(cases), n_add, what="generated circuits (built without an error and evaluated)")
    cheap = [eff_cost_ok(c) and du.max_depth_cost(c, 6000) <= 6000 for c, _, _ in cases]
    res.extra["circuits_without_effective_depth"] = cheap.count(False)
    reps = drv.batch([ln + ("" if ok else " lite=1") for ln, ok in zip(lines, cheap)])
    for i, rep in enumerate(reps):
        circ, inp, toks = cases[i]
        if rep["_status"] != "ok":
            res.exact_break("dag.metrics:reply", input=inp, impl="ok", model=rep["_raw"][:200])
            continue
        spec = (f"depth.{rep['sdepth']}/emit.{rep['semit']}/cnot.{rep['scnot']}/unit.{rep['sunit']}/meas.{rep['smeas']}"
                f"/med.{rep['smed']}/reset.{rep['sreset']}/eff.{rep['seff']}")
        g = impl_guard(res, "metrics", promise=True, input=inp)
        with g:
            check_circuit(res, circ, rng, inp, rep["m"], spec)
            # model register depth (literal recursion) and its spec
            ref, regd = ref_metrics(circ)
        if g.raised is not None:
            continue
        want = "/".join(du.dots(regd[t]) for t in "epc")
        if (cheap[i] and rep["regd"] != want) or rep["sregd"] != want:
            res.exact_break("metrics.register_depth", input=inp, impl=want, model=(rep["regd"], rep["sregd"]))
        if any("two-qubit" in t for t in toks) and any(("Wrapper" in t or "Identity" in t) for t in toks):
            res.nontrivial(inp["ne"], inp["np"], inp["nc"], tuple(toks))
        if len(res.samples) < 3:
            res.sample(lines[i][:300] + " -> " + rep["_raw"][:300])
    # -- circuits reached by arbitrary edit histories
    for k in range(n_hist):
        init = (rng.randrange(1, 4), rng.randrange(0, 4), rng.randrange(0, 2))
        g = impl_guard(res, "history", promise=True, input={"ne": init[0], "np": init[1], "nc": init[2]})
        with g:
            circ = history_case(res, drv, rng, init)
        if g.raised is not None:
            continue
        if res.violations:
            break
    res.extra["driver_lines"] = drv.n_lines
    if drv.restarts:
        res.notes.append(f"model driver restarted {drv.restarts}x (request re-sent)")
    drv.close()
    return res


def history_case(res, drv, rng, init):
    """one circuit reached by an arbitrary edit history (with depth queries between the edits): definitions, model, error classes"""
    circ = du.new_circuit(*init)
    toks = []
    errs = []
    for _ in range(rng.choice([5, 15, 40])):
        ed = du.gen_edit(rng, circ, malformed=False, allow_measz=False, max_regs=8, label_pool=("mine", "tagA"))
        toks.append(du.edit_token(ed))
        if ed[0] == "C":
            circ = circ.copy()
            errs.append("-")
        else:
            errs.append(du.apply_edit(circ, ed) or "-")
        if rng.random() < 0.3:
            # a depth query in the middle of the history: its answer is the definition on the circuit as it is now, whatever was
            # asked before and however the circuit was edited since
            toks.append("Q/d")
            got = read_depths(circ)
            res.count("branches", "history:query-between-edits")
            if got is not None:
                regd_now = ref_metrics(circ)[1]
                res.evaluations += 1
                if got != regd_now:
                    report(res, "metric:register_depth:wrong-value", f"register_depth = {got} in the middle of an edit history, ASAP layer of the last operation "
                           f"per register = {regd_now}", {"ne": init[0], "np": init[1], "nc": init[2], "edits": list(toks)}, "register_depth")
                    break
    if any(e != "-" for e in errs):
        res.count("errors", "history:edit-raised")
    with_eff = eff_cost_ok(circ)
    q = ("m" if with_eff else "n") + "+h"
    mtoks = no_q(toks)
    rep = drv.ask(f"dag.run ne={init[0]} np={init[1]} nc={init[2]} edits={du.emp(','.join(mtoks))} qs={','.join(['*'] * (len(mtoks) - 1) + [q])}")
    inp = {"ne": init[0], "np": init[1], "nc": init[2], "edits": toks}
    if rep["_status"] != "ok":
        res.exact_break("dag.run:reply", input=inp, impl="ok", model=rep["_raw"][:200])
        return circ
    # the return value of every edit used to be dropped: an edit that raises in the implementation but not in the model (or with
    # another class) leaves two different circuits behind; it is reported as such, not only through the metrics that may differ
    m_errs = [] if rep.get("errs", "*") == "*" else rep["errs"].split(",")
    if m_errs != errs:
        k = next((i for i, (a, b) in enumerate(zip(errs, m_errs)) if a != b), min(len(errs), len(m_errs)))
        res.exact_break("dag.run:edit-error-class", input=inp, step=k, impl=errs[k] if k < len(errs) else None, model=m_errs[k] if k < len(m_errs) else None)
        return circ
    model_m = rep["q"].split(",")[-1].split("+")[0].split(":", 1)[1]
    check_circuit(res, circ, rng, inp, model_m)
    if not res.violations:
        check_theorem_on_history(res, drv, circ, inp, rep, model_m)
    res.nontrivial(init, tuple(toks))
    res.count("sizes", "history")
    return circ


def search(ctx, res, proof_broken):
    """more circuits, oracle only"""
    rng = ctx.rng
    for k in range(1500):
        ne, np_, nc = rng.randrange(0, 4), rng.randrange(0, 4), rng.randrange(0, 3)
        if ne + np_ == 0:
            ne = 1
        toks = gen_ops(rng, ne, np_, nc, rng.randrange(0, 30))
        circ, errs = du.replay_edits(ne, np_, nc, ["A/" + t for t in toks])
        if any(errs) or not eff_cost_ok(circ):
            continue
        inp = {"ne": ne, "np": np_, "nc": nc, "edits": ["A/" + t for t in toks]}
        vals = evaluate_all(circ, rng, True)
        ref, _ = ref_metrics(circ)
        for name, cls, kw in METRIC_CLASSES:
            if str(vals[name][0]) != str(ref[name]):
                res.violation(f"metric:{name}:wrong-value", f"{cls}().evaluate = {vals[name][0]}, definition gives {ref[name]}", input=inp)
                return


def replay(ctx, data):
    if data.get("kind") == "no-failing-input-found":
        for b in data.get("correspondence_breaks") or []:
            inp = b.get("input")
            if not isinstance(inp, dict) or "edits" not in inp:
                continue
            circ, _ = replay_q(inp["ne"], inp["np"], inp["nc"], inp["edits"])
            with_eff = eff_cost_ok(circ)
            drv = du.RDriver()
            toks = no_q(inp["edits"])
            q = "m" if with_eff else "n"
            rep = drv.ask(f"dag.run ne={inp['ne']} np={inp['np']} nc={inp['nc']} edits={du.emp(','.join(toks))} "
                          f"qs={','.join(['*'] * max(0, len(toks) - 1) + [q])}" if toks else
                          f"dag.metrics ne={inp['ne']} np={inp['np']} nc={inp['nc']} ops=*")
            drv.close()
            model_m = rep["q"].split(",")[-1].split(":", 1)[1] if toks else rep["m"]
            impl_m = du.metrics_str(circ, with_eff)
            print("  implementation:", impl_m)
            print("  model         :", model_m)
            return impl_m == model_m
        return None
    v = data.get("violation") or {}
    inp = v.get("input")
    if not inp:
        return None
    circ, errs = replay_q(inp["ne"], inp["np"], inp["nc"], inp["edits"])
    ref, regd = ref_metrics(circ)
    vals = evaluate_all(circ, ctx.rng, eff_cost_ok(circ))
    ok = True
    for name, cls, kw in METRIC_CLASSES:
        if name not in vals:
            continue
        d, pen, (a, b), d3 = vals[name]
        good = str(d) == str(ref[name]) and (not isinstance(ref[name], int) or (pen == a * ref[name] + b and d3 == ref[name]))
        print(f"  {cls:28s} evaluate={d}  definition={ref[name]}  penalty {a}x+{b} -> {pen}   {'ok' if good else 'WRONG'}")
        ok = ok and good
    if du.max_depth_cost(circ, 6000) <= 6000:
        rd = circ.register_depth
        got = {t: [int(x) for x in rd[t]] for t in "epc"}
        print(f"  register_depth={got} definition={regd}")
        ok = ok and got == regd
    return ok
