"""
C12 — the circuit DAG stays structurally consistent under any edit history.

Correspondence: edit histories over the whole `CircuitDAG` edit API (add, insert_at, remove_op, replace_op, unwrap_nodes,
remove_identity, group_one_qubit_gates, add_*_register; valid and malformed arguments) are run on the real class and on
the Lean model (`dag.run`); after *every* edit the full observable state (nodes with their operations, keyed edges, both
indexes as dictionaries of multisets, register counts, `_node_id`, error class) is compared through a 64-bit hash of a
canonical rendering, and at query steps `depth`, `register_depth`, `validate`, `reg_gate_history` of every register,
`find_incompatible_edges`, `get_node_by_labels` are compared literally.
Direct oracle (independent of the model and of graphiq/networkx helpers, `dagutil.check_inv`): DagInv of DESIGN §4 C12
evaluated on the implementation after every edit + `sequence()` is a linear extension + register counts change only as the
register-adding prologue prescribes + depth/register depth/incompatibility sets recomputed by own graph code.
Specifications assumed for networkx (`topological_sort`, `ancestors`, `descendants`, `dag_longest_path_length`) are
checked on every observed result.
After every successful `group_one_qubit_gates` / `unwrap_nodes` / `remove_identity` of a random walk the statement of
`C12.rewrite_history_on_wired_wires` (`group_is_fuse_of_runs_on_wired_wires`, `unwrap_nodes_is_flatMap_on_wired_wires`,
`remove_identity_is_filter_on_wired_wires`) is evaluated on the implementation: every wire's operation sequence — each operation with
the classical registers it is actually threaded on — must be the rewrite's list edit (`fuseWire`: maximal runs of groupable operations ->
one wrapper, classes of the last operation first; flatMap-unwrap; filter of the non-identities; own Python transcriptions) of what it was.
After every successful node-addressed edit (add / insert_at / remove_op / replace_op on existing registers) the statement of
`C12.node_history_wires` is evaluated: the wires as node lists and `_node_id` must be `wiresStep` (splice before the output / between the
ends of the given edges, erase, keep) of what they were.
"""
import time

from harness import dagutil as du
from harness.common import Driver, Result, impl_guard

LEVEL = "proof"
TRUSTED_BASE = [
    "Lean 4.33 kernel",
    "hand-written model GraphiqModel/Model/Dag.lean tied to circuit_dag.py by this correspondence run (differential testing, "
    "bounded by the generators below; exhaustive for histories of <= 2 (quick) / <= 3 (thorough) edits on <= 3 registers)",
    "networkx specifications (topological_sort returns a linear extension; ancestors/descendants = irreflexive reachability; "
    "dag_longest_path_length = number of edges of a longest path) — checked on every observed call, not proved",
    "harness, line protocol, FNV-1a state hash (a collision could hide a difference), own Python graph code of the oracle",
]
ASSUMPTIONS = [
    "edits are well-formed uses of the API: insert_at receives, for each quantum register of the operation, an existing edge "
    "keyed by that register (two-qubit: a pair the circuit reports compatible); operations have distinct quantum registers; "
    "I/O nodes are not removed/replaced; ill-formed calls are compared with the model but are outside the property",
    "classical registers are wired by add() only (insert_at ignores c_registers by design); the property speaks of quantum wires",
    "OneQubitGateWrapper noise is the default list (unwrap() of a wrapper with a single noise object adds an Identity)",
    "order inside node_dict / edge_dict lists and inside networkx adjacency is not part of the property (compared as multisets)",
    "registers change through the edit API only (the public setters emitter_registers/photonic_registers/c_registers of CircuitBase are not edits)",
]


# ----------------------------------------------------------------------------------------------------------- helpers
def expected_regs(before, ed):
    """register counts after the register-adding prologue of add/insert_at (own simulation of 'continuous numbering')"""
    n = dict(before)
    k = ed[0]
    if k == "E":
        if ed[2] == 1:
            n[ed[1]] += 1
        return n
    if k not in ("A", "I"):
        return n
    name, q, c, lab, inner = ed[1].split(":")
    cs = [] if c == "*" else [int(x) for x in c.split(".")]
    qs = [] if q == "*" else [du.parse_reg(x) for x in q.split(".")]
    for r in cs:
        if r == n["c"]:
            n["c"] += 1
        elif r > n["c"]:
            return n
    for r, t in sorted((r, t) for t, r in qs):
        if r == n[t]:
            n[t] += 1
        elif r > n[t]:
            return n
    return n


def reg_counts(circ):
    return {t: len(circ._registers._registers[t]) for t in "epc"}


# ---- `group_one_qubit_gates` = fuse of runs on every wire (theorem C12.group_is_fuse_of_runs_after_any_history), executed
ONE_Q_BASE = {"Hadamard", "SigmaX", "SigmaY", "SigmaZ", "Phase", "PhaseDagger", "Identity", "RX", "RY", "RZ",
              "ParameterizedOneQubitRotation", "OneQubitGateWrapper"}


def wire_tokens(circ):
    """{register: [operation token of every operation node on the wire, in wire order]}, read off the keyed edges; every token AS
    WIRED (`wiredWire` of Proofs/MetricsHistIso.lean): only the classical registers the node is actually threaded on"""
    g = circ.dag
    out = {}
    for t in "epc":
        for i in range(len(circ._registers._registers[t])):
            k = f"{t}{i}"
            nxt = {u: v for u, v, kk in g.edges(keys=True) if kk == k}
            n, seq = f"{k}_in", []
            while n in nxt and len(seq) <= len(nxt) + 1:
                n = nxt[n]
                if not isinstance(n, str):
                    name, q, c, lab, inner = du.op_token(g.nodes[n]["op"]).split(":")
                    threaded = {kk[1:] for _, _, kk in g.in_edges(n, keys=True) if kk.startswith("c")}
                    cs = [] if c == "*" else [x for x in c.split(".") if x in threaded]
                    seq.append(":".join([name, q, du.emp(".".join(cs)), lab, inner]))
            out[k] = seq
    return out


def wire_nodes(circ):
    """{register: [node, …]} — every wire as the list of its nodes (`in`, operation nodes, `out`), read off the keyed edges"""
    g = circ.dag
    out = {}
    for t in "epc":
        for i in range(len(circ._registers._registers[t])):
            k = f"{t}{i}"
            nxt = {u: v for u, v, kk in g.edges(keys=True) if kk == k}
            n, seq = f"{k}_in", [f"{k}_in"]
            while n in nxt and len(seq) <= len(nxt) + 1:
                n = nxt[n]
                seq.append(n)
            out[k] = seq
    return out


def wires_step(P, nid, ed):
    """`wiresStep` of Properties/C12.lean: the list edit of a node-addressed edit on the wires (node lists); -> (wires, _node_id)"""
    P = {k: list(v) for k, v in P.items()}
    kind = ed[0]
    if kind == "A":
        name, q, c, lab, inner = ed[1].split(":")
        regs = ([] if q == "*" else q.split(".")) + ([] if c == "*" else ["c" + x for x in c.split(".")])
        for k in regs:
            P[k] = P[k][:-1] + [nid + 1, P[k][-1]]
        return P, nid + 1
    if kind == "I":
        for (u, v, k) in ed[2]:
            i = P[k].index(u)
            P[k] = P[k][:i + 1] + [nid + 1] + P[k][i + 1:]
        return P, nid + 1
    if kind == "R":
        return {k: [x for x in v if x != ed[1]] for k, v in P.items()}, nid
    return P, nid


def node_edit_covered(circ, ed):
    """hypothesis `NodeEditOK` of `C12.node_history_wires` as far as the harness can see it before the call: a node-addressed edit whose
    operation names existing registers only"""
    if ed[0] not in ("A", "I", "R", "P"):
        return False
    if ed[0] in ("A", "I"):
        name, q, c, lab, inner = ed[1].split(":")
        regs = {t: len(circ._registers._registers[t]) for t in "epc"}
        for x in ([] if q == "*" else q.split(".")):
            if int(x[1:]) >= regs[x[0]]:
                return False
        for x in ([] if c == "*" else c.split(".")):
            if int(x) >= regs["c"]:
                return False
        if q == "*":
            return False
    return True


def unwrap_wire(toks):
    """`flatMap Op.unwrap`: a wrapper becomes its gates in application order (the reverse of its gate list), fresh one-qubit objects"""
    out = []
    for tok in toks:
        name, q, _, _, inner = tok.split(":")
        if name == "OneQubitGateWrapper":
            out += [f"{k}:{q}:*:one-qubit:*" for k in reversed([] if inner == "*" else inner.split("."))]
        else:
            out.append(tok)
    return out


def rewrite_wire(kind, r, toks):
    """the list edit `Rewrite.onWire` of Properties/C12.lean"""
    if kind == "G":
        return fuse_wire(r, toks)
    if kind == "U":
        return unwrap_wire(toks)
    return [t for t in toks if t.split(":")[0] != "Identity"]


def fuse_wire(r, toks):
    """`fuseWire r` of Proofs/Fuse.lean on operation tokens: every maximal run of adjacent groupable operations (label "one-qubit",
    one-qubit gate class) becomes ONE wrapper whose gate list is the run's classes, last operation first (nothing if that list is
    empty); every other operation stays"""
    out, run = [], []

    def flush():
        gates = []
        for tok in reversed(run):
            name, _, _, _, inner = tok.split(":")
            gates += ([] if inner == "*" else inner.split(".")) if name == "OneQubitGateWrapper" else [name]
        if gates:
            out.append(f"OneQubitGateWrapper:{r}:*:one-qubit:{'.'.join(gates)}")
        run.clear()

    for tok in toks:
        name, _, _, lab, _ = tok.split(":")
        if "one-qubit" in lab.split(".") and name in ONE_Q_BASE:
            run.append(tok)
        else:
            flush()
            out.append(tok)
    flush()
    return out


def oracle_state(circ, before_regs, ed, err):
    """-> list of (key, clause): everything the property demands of the state after an edit"""
    bad = list(du.check_inv(circ))
    if not bad:
        bad += du.check_sequence(circ)
    after = reg_counts(circ)
    if after != expected_regs(before_regs, ed):
        bad.append(("registers:unexpected-change", f"register counts {before_regs} -> {after} after {du.edit_token(ed)} (expected {expected_regs(before_regs, ed)})"))
    return bad


def oracle_queries(circ, qs, ans):
    """check query answers of the implementation against own computations"""
    bad = []
    if qs == "*":
        return bad
    for q, a in zip(qs.split("+"), ans.split("+")):
        f = q.split("/")
        val = a.split(":", 1)[1]
        if f[0] == "d":
            ref = du.ref_depths(circ)
            if ref is not None and val != str(ref[0]):
                bad.append(("query:depth", f"depth = {val}, longest chain of operations = {ref[0]}"))
        elif f[0] == "r":
            ref = du.ref_depths(circ)
            if ref is not None:
                want = "/".join(du.dots(ref[1][t]) for t in "epc")
                if val != want:
                    bad.append(("query:register_depth", f"register_depth = {val}, recomputed {want}"))
        elif f[0] == "v":
            if val != "ok":
                bad.append(("query:validate", f"validate() fails ({val}) on a circuit that satisfies the invariant"))
        elif f[0] == "h":
            g = circ.dag
            for item in ([] if val == "*" else val.split("/")):
                k, path = item.split("~")
                nxt = {u: v for u, v, kk in g.edges(keys=True) if kk == k}
                want = [f"{k}_in"]
                while want[-1] in nxt and len(want) <= len(nxt) + 1:
                    want.append(nxt[want[-1]])
                if path != ".".join(map(str, want)):
                    bad.append(("query:reg_gate_history", f"reg_gate_history({k}) = {path}, wire = {want}"))
        elif f[0] == "x":
            # the property demands soundness only: an edge the circuit does NOT report must be free of paths
            # head(first) ->* tail(e) and head(e) ->* tail(first); (equality with the defined set is a correspondence matter)
            e = du.parse_edge(f[1])
            if val.startswith("!"):
                continue
            reported = set() if val == "*" else set(val.split("."))
            if du.edge_str(e) not in reported:
                bad.append(("query:find_incompatible_edges", f"find_incompatible_edges({f[1]}) does not contain the edge itself"))
            for e2 in [x for t in "epc" for x in circ.edge_dict.get(t, [])]:
                if du.edge_str(e2) in reported:
                    continue
                if du.reach(circ, e[1], e2[0]) or du.reach(circ, e2[1], e[0]):
                    bad.append(("query:find_incompatible_edges", f"find_incompatible_edges({f[1]}) reports {du.edge_str(e2)} compatible although a path closes a cycle"))
                    break
        elif f[0] == "e":
            labs = [] if f[1] == "*" else f[1].split(".")
            g = circ.dag
            want = []
            for n in g.nodes:
                keys = ["Input" if n.endswith("_in") else "Output"] if isinstance(n, str) else du.expected_index_keys(g.nodes[n]["op"])
                if not any(lab in keys for lab in labs):
                    want.append(du.node_str(n))
            if val != du.emp(".".join(sorted(want))):
                bad.append(("query:get_node_exclude_labels", f"get_node_exclude_labels({labs}) = {val}, by predicate {sorted(want)}"))
        elif f[0] == "l":
            labs = [] if f[1] == "*" else f[1].split(".")
            g = circ.dag
            want = []
            for n in g.nodes:
                keys = ["Input" if n.endswith("_in") else "Output"] if isinstance(n, str) else du.expected_index_keys(g.nodes[n]["op"])
                if all(lab in keys for lab in labs):
                    want.append(du.node_str(n))
            if val != du.emp(".".join(sorted(want))):
                bad.append(("query:get_node_by_labels", f"get_node_by_labels({labs}) = {val}, by predicate {sorted(want)}"))
    return bad


def choose_queries(rng, circ, full):
    qs = ["d"]
    if full:
        qs += ["v", "h"]
        if du.max_depth_cost(circ, 4000) <= 4000:
            qs.append("r")
        q_edges = [e for t in "epc" for e in circ.edge_dict.get(t, [])]
        if q_edges:
            qs.append("x/" + du.edge_str(rng.choice(q_edges)))
        labs = rng.sample(["one-qubit", "two-qubit", "Emitter", "Photonic", "Emitter-Emitter", "Emitter-Photonic", "CNOT", "Hadamard",
                           "Input", "Identity", "OneQubitGateWrapper", "mine", "nothing"], rng.choice([1, 1, 2]))
        qs.append("l/" + ".".join(labs))
        qs.append("e/" + ".".join(rng.sample(["one-qubit", "two-qubit", "Input", "Output", "CNOT", "Identity", "nothing"], 2)))
    return "+".join(qs)


class History:
    """one edit history run on the implementation, with everything needed to compare it with the model"""

    def __init__(self, init):
        self.init = init
        self.circ = du.new_circuit(*init)
        self.tokens = []
        self.errs = []
        self.hashes = []
        self.qs = []
        self.ans = []
        self.problems = []
        self.finding = None
        p, pr = du.canon_parts(self.circ)
        self.h0 = du.fnv64(du.canon_state(p))

    def step(self, ed, qs="*"):
        if ed[0] == "C":
            # continue on a deep copy (CircuitBase.copy): everything observable must be preserved
            try:
                self.circ = self.circ.copy()
                err = None
            except Exception as e:  # noqa: BLE001
                err = du.err_name(e)
        else:
            err = du.apply_edit(self.circ, ed)
        p, pr = du.canon_parts(self.circ)
        self.tokens.append(du.edit_token(ed))
        self.errs.append(err or "-")
        self.hashes.append(du.fnv64(du.canon_state(p)))
        self.problems += [(len(self.tokens) - 1, x) for x in pr]
        self.qs.append(qs)
        self.ans.append(du.answers(self.circ, qs) if qs != "*" else "*")
        return err

    def line(self, upto=None, full=None):
        toks = self.tokens if upto is None else self.tokens[:upto]
        qs = self.qs if upto is None else self.qs[:upto]
        s = f"dag.run ne={self.init[0]} np={self.init[1]} nc={self.init[2]} edits={du.emp(','.join(toks))} qs={du.emp(','.join(qs))}"
        if full is not None:
            s += f" full={full}"
        return s

    def input(self, upto=None):
        return {"ne": self.init[0], "np": self.init[1], "nc": self.init[2], "edits": list(self.tokens if upto is None else self.tokens[:upto])}


def violates(init, tokens, key):
    """does the stored history reproduce an oracle failure with this key on the implementation?"""
    circ = du.new_circuit(*init)
    for t in tokens:
        ed = du.parse_edit(t)
        before = reg_counts(circ)
        if ed[0] == "C":
            circ = circ.copy()
            err = None
        else:
            err = du.apply_edit(circ, ed)
        if err == "key" and ed[0] == "I":
            return False
        if any(k == key for k, _ in oracle_state(circ, before, ed, err)):
            return True
    return False


def shrink(init, tokens, key, budget_s=8.0):
    """greedy deletion of edits while the same oracle failure reproduces"""
    t0 = time.time()
    toks = list(tokens)
    changed = True
    while changed and time.time() - t0 < budget_s:
        changed = False
        for i in range(len(toks) - 1, -1, -1):
            cand = toks[:i] + toks[i + 1:]
            if violates(init, cand, key):
                toks = cand
                changed = True
            if time.time() - t0 > budget_s:
                break
    return toks


def report_violation(res, hist, step, key, clause):
    toks = hist.tokens[:step + 1]
    small = shrink(hist.init, toks, key) if not key.startswith("query:") else toks
    inp = {"ne": hist.init[0], "np": hist.init[1], "nc": hist.init[2], "edits": small}
    if key.startswith("query:") and step < len(hist.qs):
        inp["queries_after_last_edit"] = hist.qs[step]
    res.violation(key, clause, input=inp, original_length=len(toks))


def note_finding(res, h):
    """(no finding region is declared at present; D47/D48 are fixed in the repository)"""
    return


def compare_with_model(res, drv, hists):
    """send the histories to the driver and compare every step"""
    reps = drv.batch([h.line() for h in hists])
    for h, rep in zip(hists, reps):
        note_finding(res, h)
        if rep["_status"] != "ok":
            res.exact_break("dag.run:reply", input=h.input(), impl="ok", model=rep["_raw"][:300])
            continue
        m_errs = [] if rep["errs"] == "*" else rep["errs"].split(",")
        m_hs = [] if rep["hs"] == "*" else [int(x) for x in rep["hs"].split(",")]
        m_q = [] if rep["q"] == "*" else rep["q"].split(",")
        if int(rep["h0"]) != h.h0:
            res.exact_break("dag.init", input=h.input(0), impl=h.h0, model=rep["h0"])
            continue
        for k in range(len(h.tokens)):
            what = None
            if m_errs[k] != h.errs[k]:
                what = ("dag.edit:error-class", h.errs[k], m_errs[k])
            elif m_hs[k] != h.hashes[k]:
                what = ("dag.edit:state", None, None)
            elif m_q[k] != h.ans[k]:
                what = ("dag.query", h.ans[k], m_q[k])
            if what:
                # fetch both full states at the first diverging step
                rep2 = drv.ask(h.line(upto=k + 1, full=k))
                circ, _ = du.replay_edits(*h.init, h.tokens[:k + 1])
                parts, _ = du.canon_parts(circ)
                diff = {f: {"impl": parts[f][:1500], "model": rep2.get(f, "")[:1500]} for f in parts if parts[f] != rep2.get(f)}
                res.exact_break(what[0] + ":" + h.tokens[k].split("/")[0], input=h.input(k + 1), step=k, impl=what[1], model=what[2], differing_fields=diff)
                break
            res.traces_validated += 1
        for (k, pr) in h.problems[:1]:
            res.exact_break("dag.representation", input=h.input(k + 1), impl=pr, model="edge attributes equal the key; every node has an op")


# ------------------------------------------------------------------------------------------------------ random walks
def one_walk(ctx, res, drv, rng, init, steps, malformed_rate=0.04, query_every=1, max_regs=6, misuse_end=False):
    h = History(init)
    taint = False
    for s in range(steps):
        mal = rng.random() < malformed_rate
        ed = du.gen_edit(rng, h.circ, malformed=mal, max_regs=max_regs)
        before = reg_counts(h.circ)
        full = (s % query_every == 0) or s == steps - 1
        wires_before = wire_tokens(h.circ) if ed[0] in ("G", "U", "D") else None
        nodes_before = (wire_nodes(h.circ), h.circ._node_id) if (not mal and node_edit_covered(h.circ, ed)) else None
        # the un-memoised recursion of register_depth is exponential in the worst case: ask only when cheap
        err = h.step(ed, "*")
        if err == "skipped":
            continue
        if wires_before is not None and err is None:
            wires_after = wire_tokens(h.circ)
            res.count("branches", f"rewrite:{ed[0]}:list-edit-on-wired-wires-evaluated")
            for r, w in wires_before.items():
                if wires_after.get(r) != rewrite_wire(ed[0], r, w):
                    res.exact_break("rewrite.list-edit-on-wires:" + ed[0], input=h.input(), impl=wires_after.get(r), model=rewrite_wire(ed[0], r, w),
                                    note=f"wire {r} (operations as wired) after the rewrite is not the list edit of the wire before "
                                         "(theorem rewrite_history_on_wired_wires / group_is_fuse_of_runs_on_wired_wires contradicted by evaluation)")
                    break
        if nodes_before is not None and err is None:
            want, nid = wires_step(nodes_before[0], nodes_before[1], ed)
            got = wire_nodes(h.circ)
            res.count("branches", f"node-edit:{ed[0]}:list-edit-on-wires-evaluated")
            if got != want or h.circ._node_id != nid:
                res.exact_break("node-edit.list-edit-on-wires:" + ed[0], input=h.input(), impl=str(got)[:400], model=str(want)[:400],
                                note="the wires (node lists) after a node-addressed edit are not the list edit `wiresStep` of the wires before "
                                     "(theorem node_history_wires contradicted by evaluation)")
        res.evaluations += 1
        res.count("sizes", "nodes<=10" if len(h.circ.dag) <= 10 else ("nodes<=40" if len(h.circ.dag) <= 40 else ("nodes<=120" if len(h.circ.dag) <= 120 else "nodes>120")))
        res.branch([("mal:" if mal else "") + ed[0] + (":" + err if err else "")])
        if err:
            res.count("errors", err)
        if err == "key" and ed[0] == "I":
            # orphan node left behind by the failed _insert_at: the state is outside the property (see handoff) — for an ill-formed call.
            # A well-formed insert_at that raises is reported like every other well-formed edit that raises (it used to be dropped here).
            if not mal:
                report_violation(res, h, s, f"api:{ed[0]}:raises:{err}", f"{du.edit_token(ed)} raised {err} on a well-formed call")
                taint = True
            break
        qs = choose_queries(rng, h.circ, full)
        h.qs[-1] = qs
        h.ans[-1] = du.answers(h.circ, qs)
        bad = oracle_state(h.circ, before, ed, err) + oracle_queries(h.circ, qs, h.ans[-1])
        if err is not None and not mal:
            bad.append((f"api:{ed[0]}:raises:{err}", f"{du.edit_token(ed)} raised {err} on a well-formed call"))
        if bad:
            report_violation(res, h, s, bad[0][0], bad[0][1])
            taint = True
            break
        if len(h.circ.dag) > 3 or err:
            res.nontrivial(init, tuple(h.tokens))
    if misuse_end and not taint:
        # API misuse as the last edit (model must still mirror the code; no oracle): mis-keyed / incompatible / repeated register
        ed = gen_misuse(rng, h.circ)
        if ed is not None:
            h.step(ed, "*")
            res.evaluations += 1
            res.branch(["misuse:" + ed[0]])
    compare_with_model(res, drv, [h])
    if h.tokens:
        res.sample(h.line()[:500])
    return h


def gen_misuse(rng, circ):
    regs = reg_counts(circ)
    q_edges = [e for t in "ep" for e in circ.edge_dict.get(t, [])]
    k = rng.choice(["miskey", "samereg", "incompatible", "ghost-edge"])
    if k == "miskey" and len(q_edges) >= 1 and regs["e"] >= 1:
        e = rng.choice(q_edges)
        return ("I", du.one_q_token("Hadamard", "e", 0), [e])
    if k == "samereg" and regs["e"] >= 1:
        return ("A", du.two_q_token("CNOT", ("e", 0), ("e", 0)))
    if k == "incompatible" and len(q_edges) >= 2:
        e1 = rng.choice(q_edges)
        inc = [e for e in circ.find_incompatible_edges(e1) if e != e1 and e[2] != e1[2] and e[2][0] in "ep"]
        if inc:
            e2 = rng.choice(sorted(inc, key=du.edge_str))
            return ("I", du.two_q_token("CNOT", du.parse_reg(e1[2]), du.parse_reg(e2[2])), [e1, e2])
    if k == "ghost-edge" and regs["e"] >= 1:
        return ("I", du.one_q_token("Hadamard", "e", 0), [("e0_in", 10 ** 6, "e0")])
    return None


# -------------------------------------------------------------------------------------------- exhaustive short histories
def menu(circ, max_total_regs=3):
    """the finite alphabet of edits branched on at a state (every position, a fixed small set of operation classes)"""
    regs = reg_counts(circ)
    qregs = [("e", i) for i in range(regs["e"])] + [("p", i) for i in range(regs["p"])]
    total = sum(regs.values())
    out = []
    for t, r in qregs:
        out.append(("A", du.one_q_token("Hadamard", t, r)))
    if total < max_total_regs:
        out.append(("A", du.one_q_token("Hadamard", "e", regs["e"])))
        out.append(("E", "p", 1))
    for a in qregs:
        for b in qregs:
            if a != b:
                out.append(("A", du.two_q_token("CNOT", a, b)))
    if len(qregs) >= 2 and (regs["c"] > 0 or total < max_total_regs):
        out.append(("A", du.two_q_token("MeasurementCNOTandReset", qregs[0], qregs[-1], creg=0)))
    if qregs:
        t, r = qregs[0]
        out.append(("A", du.one_q_token("OneQubitGateWrapper", t, r, inner=("Hadamard", "Phase"))))
        out.append(("A", du.one_q_token("Identity", t, r)))
    q_edges = sorted([e for t in "ep" for e in circ.edge_dict.get(t, [])], key=du.edge_str)
    for e in q_edges:
        t, r = du.parse_reg(e[2])
        out.append(("I", du.one_q_token("Phase", t, r), [e]))
    for e1 in q_edges:
        inc = circ.find_incompatible_edges(e1)
        for e2 in q_edges:
            if e2 not in inc and e2[2] != e1[2]:
                out.append(("I", du.two_q_token("CZ", du.parse_reg(e1[2]), du.parse_reg(e2[2])), [e1, e2]))
    for n in du.op_nodes(circ):
        out.append(("R", n))
        op = circ.dag.nodes[n]["op"]
        qs = list(zip(op.q_registers_type, op.q_registers))
        if len(qs) == 1 and not op.c_registers:
            out.append(("P", n, du.one_q_token("OneQubitGateWrapper", qs[0][0], qs[0][1], inner=("SigmaX",))))
        elif len(qs) == 2 and not op.c_registers:
            out.append(("P", n, du.two_q_token("CZ", qs[0], qs[1])))
    out += [("U",), ("D",), ("G",)]
    return out


def exhaustive(ctx, res, drv, depth, inits, cap=None):
    """all histories of <= depth edits from the menu; every prefix is itself enumerated, so each history is compared at
    every step by hash and fully queried at its last step"""
    count = 0
    batch = []

    def flush():
        nonlocal batch
        if batch:
            compare_with_model(res, drv, batch)
            batch = []

    def rec(init, toks, d):
        nonlocal count
        h = History(init)
        before = None
        for i, t in enumerate(toks):
            before = reg_counts(h.circ)
            last = i == len(toks) - 1
            if h.step(du.parse_edit(t), "*") == "skipped":
                note_finding(res, h)
                return
            if last:
                qs = "d+v+h+r"
                e_all = sorted([e for tt in "epc" for e in h.circ.edge_dict.get(tt, [])], key=du.edge_str)
                if e_all:
                    qs += "+x/" + du.edge_str(e_all[count % len(e_all)])
                h.qs[-1] = qs
                h.ans[-1] = du.answers(h.circ, qs)
        if toks:
            count += 1
            res.evaluations += 1
            ed = du.parse_edit(toks[-1])
            bad = oracle_state(h.circ, before, ed, h.errs[-1] if h.errs[-1] != "-" else None) + oracle_queries(h.circ, h.qs[-1], h.ans[-1])
            if h.errs[-1] != "-":
                bad.append((f"api:{ed[0]}:raises:{h.errs[-1]}", f"{toks[-1]} raised on a well-formed call"))
            if bad:
                report_violation(res, h, len(toks) - 1, bad[0][0], bad[0][1])
            res.nontrivial(init, tuple(toks))
            batch.append(h)
            if len(batch) >= 400:
                flush()
        if d == 0 or (cap is not None and count >= cap):
            return
        for ed in menu(h.circ):
            rec(init, toks + [du.edit_token(ed)], d - 1)

    for init in inits:
        rec(init, [], depth)
    flush()
    return count


def class_table(res):
    """finite table: what each operation class reports to the circuit (labels, register description) — the model's
    `Op.oneQubit`, `mkWrapper`, `Op.io` hard-code these"""
    ops = du.ops_mod()
    for name in du.ONE_Q + ["OneQubitGateWrapper"]:
        tok = du.one_q_token(name, "p", 1, inner=("Hadamard",) if name == "OneQubitGateWrapper" else ())
        op = du.make_op(tok)
        if du.op_token(op) != tok or op.parse_q_reg_types() != "Photonic":
            res.exact_break("ops.table", input=name, impl=du.op_token(op), model=tok)
    for name in du.TWO_Q:
        tok = du.two_q_token(name, ("e", 0), ("p", 2))
        op = du.make_op(tok)
        if du.op_token(op) != tok or op.parse_q_reg_types() != "Emitter-Photonic":
            res.exact_break("ops.table", input=name, impl=du.op_token(op), model=tok)
    for name in du.CLASSICAL:
        tok = du.two_q_token(name, ("e", 0), ("p", 2), creg=1)
        op = du.make_op(tok)
        if du.op_token(op) != tok:
            res.exact_break("ops.table", input=name, impl=du.op_token(op), model=tok)
    w = ops.OneQubitGateWrapper([ops.Hadamard, ops.Phase, ops.SigmaX], register=2, reg_type="e")
    got = [du.op_token(x) for x in w.unwrap()]
    want = [du.one_q_token(k, "e", 2) for k in ("SigmaX", "Phase", "Hadamard")]
    if got != want:
        res.exact_break("ops.table:unwrap", input="OneQubitGateWrapper([H,P,X]).unwrap()", impl=got, model=want)
    res.evaluations += len(du.ONE_Q) + len(du.TWO_Q) + len(du.CLASSICAL) + 2


KNOWN_KEYS = set()


def new_violations(res):
    return [v for v in res.violations if v["key"] not in KNOWN_KEYS]


SMALL_INITS = [(1, 0, 0), (0, 1, 0), (1, 1, 0), (2, 0, 0), (1, 1, 1), (2, 1, 0), (1, 2, 0), (3, 0, 0), (0, 0, 0)]


def run(ctx):
    res = Result()
    res.rule = ("one evaluation = one edit applied to the implementation's current circuit and to the model (full state compared); "
                "non-trivial = the circuit has at least one operation node or the edit raised; distinct by (initial registers, whole edit history so far)")
    drv = du.RDriver()
    rng = ctx.rng
    # the streams run under common.impl_guard: graphiq calls made outside apply_edit / the query wrappers (constructors, copy(),
    # find_incompatible_edges while choosing an edit, op.unwrap() ...) that raise are reported instead of ending as exit 2
    with impl_guard(res, "ops.table"):
        class_table(res)
    n2 = n3 = 0
    if ctx.quick:
        with impl_guard(res, "exhaustive", promise=True):
            n2 = exhaustive(ctx, res, drv, 2, SMALL_INITS)
            n3 = exhaustive(ctx, res, drv, 3, [(1, 1, 0)], cap=2500)
        res.notes.append(f"exhaustive: {n2} histories of <= 2 edits on <= 3 registers from {len(SMALL_INITS)} initial circuits; {n3} histories of <= 3 edits from (1,1,0) (capped)")
        plan = [((rng.randrange(1, 3), rng.randrange(0, 3), rng.randrange(0, 2)), 60, 1) for _ in range(60)] + \
               [((rng.randrange(1, 4), rng.randrange(1, 4), rng.randrange(0, 3)), 300, 5) for _ in range(8)]
    else:
        with impl_guard(res, "exhaustive", promise=True):
            n3 = exhaustive(ctx, res, drv, 3, SMALL_INITS)
            res.exhaustive = True
        res.notes.append(f"exhaustive: all {n3} histories of <= 3 edits (menu of every position x fixed operation classes) on <= 3 registers from {len(SMALL_INITS)} initial circuits")
        plan = [((rng.randrange(0, 3), rng.randrange(0, 3), rng.randrange(0, 2)), 80, 1) for _ in range(400)] + \
               [((rng.randrange(1, 4), rng.randrange(1, 4), rng.randrange(0, 3)), 300, 4) for _ in range(80)]
    for k, (init, steps, qe) in enumerate(plan):
        with impl_guard(res, "walk", promise=True, input={"ne": init[0], "np": init[1], "nc": init[2], "walk": k}):
            one_walk(ctx, res, drv, rng, init, steps, query_every=qe, misuse_end=(k % 3 == 0))
        if new_violations(res):
            break
    res.extra["driver_lines"] = drv.n_lines
    if drv.restarts:
        res.notes.append(f"model driver restarted {drv.restarts}x (request re-sent)")
    drv.close()
    return res


def search(ctx, res, proof_broken):
    """proof or correspondence broke and the oracle has not failed yet: many short walks + the exhaustive short histories"""
    drv = du.RDriver()
    exhaustive(ctx, res, drv, 2, SMALL_INITS)
    for _ in range(300):
        if new_violations(res):
            break
        init = (ctx.rng.randrange(1, 3), ctx.rng.randrange(0, 3), ctx.rng.randrange(0, 2))
        one_walk(ctx, res, drv, ctx.rng, init, 80, malformed_rate=0.0)
    drv.close()


def replay(ctx, data):
    """re-run the stored history on the implementation and evaluate the oracle after every edit"""
    if data.get("kind") == "no-failing-input-found":
        # no oracle failure was found: re-run the stored diverging history on implementation and model
        for b in data.get("correspondence_breaks") or []:
            inp = b.get("input")
            if not isinstance(inp, dict) or "edits" not in inp:
                continue
            h = History((inp["ne"], inp["np"], inp["nc"]))
            for t in inp["edits"]:
                h.step(du.parse_edit(t), "d+v+h")
            r2 = Result()
            drv = du.RDriver()
            compare_with_model(r2, drv, [h])
            drv.close()
            for x in r2.exact_breaks[:1]:
                print("  model and implementation still differ:", x.get("correspondence"), "at step", x.get("step"))
                for fld, d in (x.get("differing_fields") or {}).items():
                    print(f"    {fld}: impl  {d['impl'][:300]}\n    {' ' * len(fld)}  model {d['model'][:300]}")
            if not r2.exact_breaks:
                print("  model and implementation agree on the stored history")
            return not r2.exact_breaks
        return None
    v = data.get("violation") or {}
    inp = v.get("input")
    if not inp:
        return None
    circ = du.new_circuit(inp["ne"], inp["np"], inp["nc"])
    ok = True
    key = v.get("key", "")
    for i, t in enumerate(inp["edits"]):
        ed = du.parse_edit(t)
        before = reg_counts(circ)
        if ed[0] == "C":
            circ = circ.copy()
            err = None
        else:
            err = du.apply_edit(circ, ed)
        bad = oracle_state(circ, before, ed, err)
        if err and (key.startswith("api:") or key.startswith("group:")) and i == len(inp["edits"]) - 1:
            bad.append((key, f"{t} raises {err}"))
        ref = du.ref_depths(circ)
        if ref is not None:
            try:
                if circ.depth != ref[0]:
                    bad.append(("query:depth", f"depth {circ.depth} vs {ref[0]}"))
                if du.max_depth_cost(circ, 4000) <= 4000:
                    rd = circ.register_depth
                    if any(list(map(int, rd[t])) != ref[1][t] for t in "epc"):
                        bad.append(("query:register_depth", f"{rd} vs {ref[1]}"))
            except Exception as e:  # noqa: BLE001
                bad.append(("query:raises", repr(e)))
        if i == len(inp["edits"]) - 1 and inp.get("queries_after_last_edit"):
            qs = inp["queries_after_last_edit"]
            bad += oracle_queries(circ, qs, du.answers(circ, qs))
        print(f"  {t:60s} -> {err or 'ok'}" + (f"   ORACLE FAILS: {bad[0]}" if bad else ""))
        if bad:
            ok = False
    return ok
