"""
implcov.py — line coverage of the *implementation* during a correspondence run, measured without any hook in /repo.

The reach of the correspondence check is bounded by its generators.  To make that bound visible, `check` records which lines of the
source files a property is anchored in (properties.jsonl: anchors.files) were executed while the harness drove the real code, and the
evidence lists, per function that was entered at least once, the lines that were never executed (a branch no generated input reached),
and the functions of those files that were never entered.  Python 3.12 `sys.monitoring` LINE events are used with DISABLE after the first
hit of every location, so the overhead is one callback per distinct line.

Limits (stated in the evidence): only the checking process is observed (C19 runs whole solver configurations in worker processes), and a
line counts as executed when it started executing, whatever happened inside it.
"""
import os
import sys


def _function_lines(path):
    """{qualname: sorted executable lines of the function body} for every function / method defined in `path`"""
    try:
        src = open(path).read()
        top = compile(src, path, "exec")
    except Exception:  # noqa: BLE001
        return {}
    out = {}

    def walk(code, is_func):
        if is_func:
            lines = sorted({ln for _, _, ln in code.co_lines() if ln is not None and ln != code.co_firstlineno})
            # a docstring is a constant expression statement: no line event of its own
            out.setdefault(code.co_qualname, set()).update(lines)
        for c in code.co_consts:
            if hasattr(c, "co_code"):
                # functions, lambdas, comprehensions (inlined in 3.12), class bodies (not functions, but their methods are)
                walk(c, c.co_name != "<module>" and not _is_class_body(c))

    def _is_class_body(c):
        return "__qualname__" in c.co_names and "__module__" in c.co_names

    walk(top, False)
    return {k: sorted(v) for k, v in out.items() if v}


class ImplCoverage:
    def __init__(self, repo, rel_files):
        self.repo = os.path.realpath(repo)
        self.files = {os.path.join(self.repo, f): f for f in rel_files if os.path.exists(os.path.join(self.repo, f))}
        self.hits = {}  # abs path -> set(lines)
        self.active = False
        self.mon = getattr(sys, "monitoring", None)

    def start(self):
        if self.mon is None or not self.files:
            return
        m = self.mon
        try:
            m.use_tool_id(m.COVERAGE_ID, "graphiq-verif-implcov")
        except ValueError:
            return
        wanted = self.files
        hits = self.hits
        real = {}

        def path_of(code):
            fn = code.co_filename
            p = real.get(fn)
            if p is None:
                p = real[fn] = os.path.realpath(fn)
            return p

        def on_line(code, line):
            hits.setdefault(path_of(code), set()).add(line)
            return m.DISABLE

        def on_start(code, offset):
            # LINE events are switched on only inside code objects of the anchored files (local events), so everything else — numpy,
            # networkx, the harness itself — runs uninstrumented; this callback fires once per distinct function
            if path_of(code) in wanted:
                try:
                    m.set_local_events(m.COVERAGE_ID, code, m.events.LINE)
                except ValueError:
                    pass
            return m.DISABLE

        m.register_callback(m.COVERAGE_ID, m.events.LINE, on_line)
        m.register_callback(m.COVERAGE_ID, m.events.PY_START, on_start)
        m.set_events(m.COVERAGE_ID, m.events.PY_START)
        self.active = True

    def stop(self):
        if not self.active:
            return
        m = self.mon
        m.set_events(m.COVERAGE_ID, 0)
        m.register_callback(m.COVERAGE_ID, m.events.LINE, None)
        m.register_callback(m.COVERAGE_ID, m.events.PY_START, None)
        m.free_tool_id(m.COVERAGE_ID)
        self.active = False

    def report(self, max_lines=40):
        """summary for the evidence file"""
        if self.mon is None:
            return {"available": False, "why": "sys.monitoring needs Python >= 3.12"}
        files = {}
        tot_exec = tot_hit = 0
        for p, rel in sorted(self.files.items(), key=lambda kv: kv[1]):
            fl = _function_lines(p)
            hit = self.hits.get(p, set())
            try:
                text = open(p).read().splitlines()
            except Exception:  # noqa: BLE001
                text = []
            never, partial = [], {}
            n_exec = n_hit = 0
            for q, lines in sorted(fl.items()):
                h = [ln for ln in lines if ln in hit]
                n_exec += len(lines)
                n_hit += len(h)
                if not h:
                    never.append(q)
                elif len(h) < len(lines):
                    miss = [ln for ln in lines if ln not in hit]
                    partial[q] = [f"{ln}: {text[ln - 1].strip()[:100]}" if 0 < ln <= len(text) else str(ln) for ln in miss[:max_lines]]
            tot_exec += n_exec
            tot_hit += n_hit
            files[rel] = {"executable_lines_in_functions": n_exec, "executed": n_hit, "functions_never_entered": never,
                          "unreached_lines_of_entered_functions": partial}
        return {"available": True, "scope": "source files named in the property's anchors; this process only (worker processes are not observed)",
                "executable_lines": tot_exec, "executed_lines": tot_hit, "files": files}
