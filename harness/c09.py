"""
C09 — local-Clifford equivalence of graph states is decided correctly, constructively.

Correspondence (exact): `local_comp_graph`, `Graph.local_complementation`, `_coeff_maker`, `row_reduction`, `_col_finder`,
`_solution_basis_finder`, `is_lc_equivalent` (both modes; the random draws are recorded from `np.random.randint` and handed
to the model), `local_clifford_ops` (all 16 blocks, every run), `lc_graph_operations`, `find_lc_operations`,
`converter_gate_list`/`lc_check` on graph and adjacency-matrix inputs are run on the real implementation and on the Lean
model (`graph.lc`, `lc.system`, `lc.equiv`, `lc.ops`, `lc.seq`, `lc.find`, `lc.check`) and compared; `lc_check` on two tableaux
(StabilizerTableau / CliffordTableau) is compared exactly with `lcCheckStates` (`lc.checkstates`: total gate list or error class), and
`_is_valid_clifford` with `lc.valid`.

Two versions of `is_lc_equivalent` are modelled: the one in the repository up to 70adac4 (`isLcEquivalent`: one linear system for
the whole graph; known finding D14) and the repaired one (handoff/repairs/d14: `isLcEquivalentR`: components compared, then the
unchanged algorithm — now `_is_lc_equivalent_component`, still `isLcEquivalent` in the model — on every induced pair, blocks
assembled).  `repaired()` probes the implementation once per process on two disjoint edges and selects the model function
(`repaired=1` on the driver lines); with the repaired code `_connected_components` is compared as well (`lc.components`, and with
the definition), the random draws are recorded per call of `_random_checker`, and *every* false `no` is a fresh violation — the
D14 key is only used while the defect reproduces.

Direct oracle (independent of graphiq and, except for the orbit table, of the model):
  * local complementation toggles exactly the pairs of distinct neighbours (numpy, by definition) and is an involution;
  * `yes` answers: the two graphs are in the same LC orbit (orbit table computed by the driver by BFS over the verified
    `localComp`, all graphs n <= 6); `Q` satisfies S^T Q^T P S' = 0 (matrix identity evaluated in numpy) with invertible
    blocks; the returned gates, applied to the graph state of A by the *verified tableau model*, give exactly the graph
    state of B (signs included); the returned vertex sequence, applied by definition, maps A to B;
  * `no` answers: the graphs are in different orbits (a false `no` in the region of known finding D14 — whole-graph solution
    dimension >= 5, unrepaired code only — is keyed as such);
  * `lc_check` on tableaux: no exception on stabilizer states (regression inputs of the repaired D40: |0>, |0>|+>, |0> x Bell compared
    with themselves); the total gate list, run by the verified tableau model on state 1, gives state 2; a false `no` is keyed by the
    solution dimension on the graphs state_to_graph chose (>= 5: D14 — e.g. every state with an unentangled qubit, n >= 2).
"""
import numpy as np

from harness import graphutil as gu
from harness import stabutil as su
from harness import tabutil as tu
from harness.common import Driver, Result, err_class

LEVEL = "proof"
TRUSTED_BASE = [
    "Lean 4.33 kernel",
    "hand-written model GraphiqModel/Model/{GraphOps,LC}.lean tied to lc_equivalence_check.py / linalg.py / graph/state.py / "
    "local_cliff_equi_check.py by this correspondence run (differential testing; exhaustive for all ordered pairs n<=4, n<=5 in thorough); "
    "which of the two modelled versions of is_lc_equivalent (unrepaired: isLcEquivalent; repaired per component, D14: isLcEquivalentR) "
    "the implementation is compared with is decided by probing the implementation on 2K2",
    "for the repaired function only: completeness of the pair-sum shortcut on CONNECTED graphs (Van den Nest-Dehaene-De Moor, PRA 70, 034302) is a "
    "stated hypothesis of decides_lc_equivalence_repaired_partial (shortcut_complete_on_connected_statement), not a theorem; it is tested "
    "(every false no of the implementation is a violation of the direct oracle; handoff/repairs/d14/validate.py: exhaustive for connected n<=6)",
    "np.linalg.inv on the unit-triangular 0/1 matrices that occur is exact in floating point (the model inverts over GF(2); that the matrices are "
    "upper unitriangular, that the exact inverse exists and is two-sided, and that no internal assertion of is_lc_equivalent can fire is proved: "
    "is_lc_equivalent_component_total, is_lc_equivalent_total)",
    "_phase_correction is modelled at specification level (the unique set of Z gates fixing the signs; proved: it exists for every valid Q, the model "
    "finds it, and the total gate list maps |A> onto |B> - gates_with_phase_correction_map_the_state, lc_check_total_and_right); that graphiq's "
    "computation from two canonical forms gives the same set is compared per input; canonical_form itself belongs to C05",
    "tensor-product lifting of the tableau semantics (C07) used to interpret the returned gates",
    "harness, line protocol, driver BFS orbit enumeration over the verified localComp",
]
ASSUMPTIONS = [
    "graphs are simple, n >= 1, nodes labelled 0..n-1 in order (as produced by nx.from_numpy_array); n = 0 is outside the quantifier (it makes "
    "row_reduction of the whole-graph algorithm loop for ever; the repaired is_lc_equivalent has no component to examine and returns (True, empty array))",
    "np.random.randint is the only randomness of mode='random' (recorded and replayed into the model)",
    "floating-point inverse of the pivot-column matrix is exact for the sizes explored (n <= 12)",
]

K_FALSE_NO_D14 = "is_lc_equivalent:solution_dim>=5:false-negative"
K_FIND_LC = "find_lc_operations:wrong-sequence"
FUEL = 400


# ---------------------------------------------------------------------------------------------------- implementation calls
class RandintRecorder:
    """records the values of np.random.randint; every np.random.seed starts a new segment (one per call of _random_checker)"""

    def __init__(self):
        self.real = np.random.randint
        self.real_seed = np.random.seed
        self.vals = []
        self.segments = []

    def __call__(self, *a, **k):
        v = self.real(*a, **k)
        self.vals.append(int(v))
        if not self.segments:
            self.segments.append([])
        self.segments[-1].append(int(v))
        return v

    def seed(self, *a, **k):
        self.segments.append([])
        return self.real_seed(*a, **k)


class Draws(list):
    """flat list of the recorded draws (what the model of the unrepaired function reads) + the per-call segments"""

    segments = ()


_REPAIRED = None


def repaired():
    """Is the implementation the repaired `is_lc_equivalent` (D14: linear system solved per connected component)?  Decided by
    behaviour, once per process: two disjoint edges compared with themselves are LC-equivalent; the unrepaired code answers no.
    The answer selects the model function the implementation is compared with (`isLcEquivalent` / `isLcEquivalentR`)."""
    global _REPAIRED
    if _REPAIRED is None:
        from graphiq.backends import lc_equivalence_check as lce

        k2k2 = np.array([[0, 1, 0, 0], [1, 0, 0, 0], [0, 0, 0, 1], [0, 0, 1, 0]])
        try:
            _REPAIRED = bool(lce.is_lc_equivalent(k2k2.copy(), k2k2.copy())[0])
        except Exception:  # noqa: BLE001
            _REPAIRED = False
    return _REPAIRED


def rep_tok():
    return " repaired=1" if repaired() else ""


def draws_tok(draws):
    """draws in the protocol of the selected model: flat for the unrepaired function, one list per _random_checker call otherwise"""
    if repaired():
        segs = [seg for seg in getattr(draws, "segments", ())]
        return "/".join("".join(map(str, seg)) or "-" for seg in segs) or "-"
    return "".join(map(str, draws)) or "-"


def impl_equiv(A, B, mode="deterministic", seed=0):
    """-> ('ok', yes, Q or None, draws) | ('err', class, None, draws)"""
    from graphiq.backends import lc_equivalence_check as lce

    rec = RandintRecorder()
    np.random.randint = rec
    np.random.seed = rec.seed
    draws = Draws()
    try:
        yes, Q = lce.is_lc_equivalent(np.array(A), np.array(B), mode=mode, seed=seed)
        return "ok", bool(yes), (None if Q is None else np.asarray(Q).astype(int)), draws
    except Exception as e:  # noqa: BLE001
        return "err", err_class(e), None, draws
    finally:
        np.random.randint = rec.real
        np.random.seed = rec.real_seed
        draws.extend(rec.vals)
        draws.segments = [seg for seg in rec.segments if seg]


def q_bits(Q):
    return "".join(str(int(v)) for v in np.asarray(Q).ravel())


def mode_tok(mode):
    return {"deterministic": "det", "random": "rand"}.get(mode, "other")


# ---------------------------------------------------------------------------------------------------- local complementation
def check_local_comp(res, drv, graphs, label):
    """both implementations x every vertex (+ one out-of-range vertex) on each graph"""
    from graphiq.backends.graph.state import Graph
    from graphiq.backends.lc_equivalence_check import local_comp_graph

    lines, meta = [], []
    for A in graphs:
        n = len(A)
        for v in list(range(n)) + [n]:
            inp = {"adj": gu.adj_args(A), "v": v}
            ref = gu.lc_ref(A, v) if v < n else None
            for impl in ("matrix", "pairs"):
                try:
                    if impl == "matrix":
                        out = gu.to_adj(local_comp_graph(gu.to_graph(A), v))
                    else:
                        g = Graph(gu.to_graph(A))
                        h = g.local_complementation(v, copy=(v % 2 == 0))
                        out = gu.to_adj(h.data)
                    err = None
                except Exception as e:  # noqa: BLE001
                    out, err = None, err_class(e)
                res.evaluations += 1
                res.count("sizes", f"lc:n={n}" if n <= 6 else "lc:n>6")
                if v < n:
                    if err is not None:
                        gu.viol(res, f"local_comp:{impl}:raises:{err}", "local complementation raised on a vertex of the graph", input=inp)
                        continue
                    if not np.array_equal(out, ref):
                        gu.viol(res, f"local_comp:{impl}:not-neighbour-toggle", "local complementation must toggle exactly the edges among the neighbours of the vertex",
                                      input=inp, impl=gu.bits(out), expected=gu.bits(ref))
                        continue
                    if not np.array_equal(gu.lc_ref(out, v), np.asarray(A)):
                        gu.viol(res, f"local_comp:{impl}:not-involution", "local complementation applied twice must give the graph back", input=inp)
                    if A.any():
                        res.nontrivial("lc", impl, gu.bits(A), v)
                else:
                    res.count("errors", f"lc:{err}")
                lines.append(f"graph.lc {gu.adj_args(A)} v={v} impl={impl}")
                meta.append((inp, impl, out, err))
    reps = drv.batch(lines)
    for rep, (inp, impl, out, err) in zip(reps, meta):
        if err is not None:
            if rep["_status"] != "err" or rep.get("_err") != err:
                res.exact_break(f"graph.lc:{impl}:error-class", input=inp, impl=f"err {err}", model=rep["_raw"][:200])
        elif rep["_status"] != "ok" or rep.get("a") != gu.bits(out):
            res.exact_break(f"graph.lc:{impl}", input=inp, impl=gu.bits(out), model=rep["_raw"][:200])
        else:
            res.traces_validated += 1
    if lines:
        res.sample(f"[{label}] {lines[len(lines) // 2]} -> {reps[len(lines) // 2]['_raw'][:120]}")


# ---------------------------------------------------------------------------------------------------- the 2x2 -> gate-name table
def check_ops_table(res, drv):
    """all 16 binary 2x2 blocks, alone and inside a 3-block solution (exhaustive, every run)"""
    from graphiq.backends.lc_equivalence_check import local_clifford_ops

    sym = {"I": np.eye(2, dtype=int), "H": np.array([[0, 1], [1, 0]]), "P": np.array([[1, 1], [0, 1]]), "P_dag": np.array([[1, 1], [0, 1]])}
    lines, meta = [], []
    for m in range(16):
        blk = np.array([[m >> 3 & 1, m >> 2 & 1], [m >> 1 & 1, m & 1]])
        for ctx_blocks in ([blk], [np.eye(2, dtype=int), blk, np.array([[0, 1], [1, 0]])]):
            Q = np.array(ctx_blocks)
            names = local_clifford_ops(Q)
            res.evaluations += 1
            lines.append(f"lc.ops q={q_bits(Q)}")
            meta.append((Q, names))
            # direct oracle: an invertible block is named, and the product of the named symplectic matrices (in the written
            # order, rightmost factor first on the column vector (z; x)) is the block itself
            det = (blk[0, 0] * blk[1, 1] + blk[0, 1] * blk[1, 0]) % 2
            if len(ctx_blocks) == 1:
                if det and len(names) != 1:
                    gu.viol(res, "local_clifford_ops:invertible-block-unnamed", "every invertible 2x2 block must be translated to gates", input={"block": blk.tolist()})
                elif det:
                    prod = np.eye(2, dtype=int)
                    for nm in names[0].split():
                        prod = prod @ sym[nm] % 2
                    if not np.array_equal(prod, blk):
                        gu.viol(res, "local_clifford_ops:wrong-gates", "the named gates do not multiply to the block", input={"block": blk.tolist()}, impl=names)
                    res.nontrivial("ops", m)
    reps = drv.batch(lines)
    for rep, (Q, names) in zip(reps, meta):
        want = ",".join(".".join(nm.split()) for nm in names) if names else "-"
        if rep["_status"] != "ok" or rep.get("ops") != want:
            res.exact_break("lc.ops", input={"q": q_bits(Q)}, impl=want, model=rep["_raw"][:200])
        else:
            res.traces_validated += 1


def check_valid_clifford(res, drv, rng, count):
    """`_is_valid_clifford` directly (since the repair of D14 the searches rarely meet a candidate with an all-ones block, so the
    reduction modulo 2 of the determinant is no longer exercised end to end): all 16 one-block and all 256 two-block vectors, random
    vectors up to 5 blocks; against the definition (every block invertible over GF(2)) and against the model"""
    from graphiq.backends.lc_equivalence_check import _is_valid_clifford

    vecs = [[(m >> k) & 1 for k in range(4)] for m in range(16)] + [[(m >> k) & 1 for k in range(8)] for m in range(256)]
    for _ in range(count):
        nb = rng.randrange(1, 6)
        # mostly-valid: start from invertible blocks and spoil at most one
        inv = [[1, 0, 0, 1], [0, 1, 1, 0], [1, 1, 0, 1], [1, 1, 1, 0], [0, 1, 1, 1], [1, 0, 1, 1]]
        v = [b for _ in range(nb) for b in rng.choice(inv)]
        if rng.random() < 0.6:
            k = rng.randrange(nb)
            v[4 * k:4 * k + 4] = rng.choice([[1, 1, 1, 1], [0, 0, 0, 0], [1, 1, 0, 0], [1, 0, 1, 0], [0, 0, 1, 1]])
        vecs.append(v)
    lines, meta = [], []
    for v in vecs:
        nb = len(v) // 4
        want = all((v[4 * i] * v[4 * i + 3] + v[4 * i + 1] * v[4 * i + 2]) % 2 == 1 for i in range(nb))
        try:
            got = bool(_is_valid_clifford(np.array(v).reshape(4 * nb, 1)))
        except Exception as e:  # noqa: BLE001
            got = f"err {err_class(e)}"
        res.evaluations += 1
        if got is not want:
            gu.viol(res, "_is_valid_clifford:wrong", "a vector is a valid local Clifford iff every 2x2 block is invertible over GF(2)",
                    input={"q": "".join(map(str, v))}, impl=str(got), expected=str(want))
        res.nontrivial("valid", "".join(map(str, v)))
        lines.append(f"lc.valid q={''.join(map(str, v))}")
        meta.append((v, got))
    reps = drv.batch(lines)
    for rep, (v, got) in zip(reps, meta):
        if rep["_status"] != "ok" or rep.get("valid") != ("1" if got is True else "0" if got is False else "?"):
            res.exact_break("lc.valid", input={"q": "".join(map(str, v))}, impl=str(got), model=rep["_raw"][:100])
        else:
            res.traces_validated += 1


# ---------------------------------------------------------------------------------------------------- one pair, everything
def components_ref(A):
    """connected components by definition (label propagation to a fixed point), independent of graphiq and of the model"""
    A = np.asarray(A)
    n = len(A)
    lab = list(range(n))
    changed = True
    while changed:
        changed = False
        for i in range(n):
            for j in range(n):
                if A[i, j] and lab[i] != lab[j]:
                    lab[i] = lab[j] = min(lab[i], lab[j])
                    changed = True
    return sorted(sorted(i for i in range(n) if lab[i] == c) for c in set(lab))


def system_lines(A, B):
    """implementation's intermediate quantities of is_lc_equivalent, in the model's format"""
    from graphiq.backends import lc_equivalence_check as lce
    import graphiq.backends.stabilizer.functions.linalg as sl

    n = len(A)
    coeff = lce._coeff_maker(np.array(A), np.array(B))
    c0 = coeff.copy()
    red, _, last = sl.row_reduction(coeff, coeff * 0)
    out = {"coeff": gu.bits(c0), "red": gu.bits(red), "last": str(int(last))}
    rank = last + 1
    m = np.array([row for row in red if row.any()])
    if rank >= 4 * n or m.shape[0] != rank:
        return out
    cols = lce._col_finder(m)
    out["cols"] = gu.seq_str(cols)
    try:
        basis = lce._solution_basis_finder(m, cols)
        out["basis"] = ";".join(gu.bits(v) for v in basis) if len(basis) else "-"
    except Exception as e:  # noqa: BLE001
        out["basis"] = f"err:{err_class(e)}"
    return out


def check_pair(res, drv, orb, A, B, modes=("deterministic",), seed=0, deep=True, label="pair", want_system=False, known_same=None):
    from graphiq.backends import lc_equivalence_check as lce
    from graphiq.backends.stabilizer.functions.local_cliff_equi_check import lc_check

    n = len(A)
    inp = {"a": gu.adj_args(A), "b": gu.adj_args(B, "b", with_n=False)}
    # ground truth: the orbit table (n <= 7); beyond, only what the caller knows by construction (B made from A by local complementations)
    same = orb.same_orbit(A, B) if n <= 7 else known_same
    lines, meta = [], []
    for mode in modes:
        st, yes, Q, draws = impl_equiv(A, B, mode, seed)
        res.evaluations += 1
        res.count("sizes", f"n={n}" if n <= 6 else "n>6")
        lines.append(f"lc.equiv {inp['a']} {inp['b']} mode={mode_tok(mode)} draws={draws_tok(draws)}{rep_tok()}")
        meta.append(("equiv", mode, (st, yes, Q, draws)))
        if st == "err":
            res.count("errors", f"equiv:{yes}")
            gu.viol(res, f"is_lc_equivalent:raises:{yes}", "the LC-equivalence test raised on two simple graphs of equal size", input=inp, mode=mode)
            continue
        if A.any() or B.any():
            res.nontrivial("equiv", mode, inp["a"], inp["b"])
        if yes:
            lin, det = gu.q_solves(A, B, Q)
            if not (lin and det):
                gu.viol(res, "is_lc_equivalent:invalid-Q", "a returned Q must satisfy S^T Q^T P S' = 0 with every block invertible", input=inp, mode=mode, Q=q_bits(Q))
            if same is False:
                gu.viol(res, "is_lc_equivalent:false-yes", "answered yes for two graphs in different LC orbits", input=inp, mode=mode, Q=q_bits(Q))
        else:
            if same is True:
                meta.append(("false-no", mode, None))
    # constructive outputs (deterministic Q)
    st, yes, Q, _ = meta[0][2]
    if deep and st == "ok" and yes:
        # vertex sequence
        try:
            with gu.time_limit(30):
                seq = [int(v) for v in lce.lc_graph_operations(np.array(A), Q)]
            serr = None
        except gu.Timeout:
            seq, serr = None, "runtime"
        except Exception as e:  # noqa: BLE001
            seq, serr = None, err_class(e)
        res.evaluations += 1
        lines.append(f"lc.seq {inp['a']} q={q_bits(Q)} fuel={FUEL}")
        meta.append(("seq", None, (seq, serr)))
        if serr is not None:
            gu.viol(res, f"lc_graph_operations:raises:{serr}", "no vertex sequence for an equivalent pair", input=inp, Q=q_bits(Q))
        elif not np.array_equal(gu.apply_seq_ref(A, seq), np.asarray(B)):
            gu.viol(res, "lc_graph_operations:wrong-sequence", "the returned local-complementation sequence does not map the first graph to the second", input=inp, seq=seq)
        # find_lc_operations
        try:
            with gu.time_limit(30):
                fseq = [int(v) for v in lce.find_lc_operations(np.array(A), np.array(B))]
            ferr = None
        except gu.Timeout:
            fseq, ferr = None, "runtime"
        except Exception as e:  # noqa: BLE001
            fseq, ferr = None, err_class(e)
        res.evaluations += 1
        lines.append(f"lc.find {inp['a']} {inp['b']} mode=det fuel={FUEL}{rep_tok()}")
        meta.append(("find", None, (fseq, ferr)))
        if ferr is not None or not np.array_equal(gu.apply_seq_ref(A, fseq), np.asarray(B)):
            gu.viol(res, K_FIND_LC, "find_lc_operations must return a sequence of local complementations mapping the first graph to the second",
                          input=inp, impl=(fseq if ferr is None else f"err {ferr}"))
    if deep and st == "ok":
        # gates: lc_check on graphs (validate=True) — alternate graph / adjacency-array inputs
        as_graph = (gu.mask_of(A) + gu.mask_of(B)) % 2 == 0
        s1, s2 = (gu.to_graph(A), gu.to_graph(B)) if as_graph else (np.array(A, dtype=float), np.array(B, dtype=float))
        try:
            ok, gates = lc_check(s1, s2, validate=True)
            gates = [(g[0], int(g[1])) for g in gates]
            cerr = None
        except Exception as e:  # noqa: BLE001
            ok, gates, cerr = None, None, err_class(e)
        res.evaluations += 1
        lines.append(f"lc.check {inp['a']} {inp['b']} validate=1{rep_tok()}")
        meta.append(("check", None, (ok, gates, cerr)))
        if cerr is not None:
            gu.viol(res, f"lc_check:raises:{cerr}", "lc_check raised on two graphs", input=inp)
        elif bool(ok) != bool(yes):
            gu.viol(res, "lc_check:disagrees-with-is_lc_equivalent", "lc_check and is_lc_equivalent answer differently", input=inp)
        elif ok:
            lines.append(f"lc.apply {inp['a']} {inp['b']} gates={gu.gates_str(gates)}")
            meta.append(("apply", None, gates))
    if deep and st == "ok" and n <= 6 and (gu.mask_of(A) * 7 + gu.mask_of(B)) % 4 == 0:
        # Graph.lc_equivalent (same decision through the Graph class) and state_converter_circuit (gate list as a circuit,
        # validated by graphiq's own compiler): must agree with is_lc_equivalent / lc_check
        from graphiq.backends.graph.state import Graph
        from graphiq.backends.stabilizer.functions.local_cliff_equi_check import state_converter_circuit

        res.evaluations += 2
        try:
            gy, gq = Graph(gu.to_graph(A)).lc_equivalent(Graph(gu.to_graph(B)))
            if bool(gy) != bool(yes) or (yes and q_bits(gq) != q_bits(Q)):
                res.exact_break("Graph.lc_equivalent", input=inp, impl=str((gy, None if gq is None else q_bits(gq))), model=f"is_lc_equivalent: {yes}")
        except Exception as e:  # noqa: BLE001
            gu.viol(res, f"Graph.lc_equivalent:raises:{err_class(e)}", "Graph.lc_equivalent raised on two graph states", input=inp)
        names = {"Hadamard": "H", "Phase": "P", "PhaseDagger": "P_dag", "SigmaX": "X", "SigmaY": "Y", "SigmaZ": "Z", "Identity": "I"}
        try:
            circ = state_converter_circuit(gu.to_graph(A), gu.to_graph(B), validate=True)
            per_q = {}
            for op in circ.sequence():
                nm = type(op).__name__
                if nm in names:
                    per_q.setdefault(int(op.register), []).append(names[nm])
            cerr2 = None
        except Exception as e:  # noqa: BLE001
            per_q, cerr2 = None, err_class(e)
        if yes:
            if cerr2 is not None:
                gu.viol(res, f"state_converter_circuit:raises:{cerr2}", "no converter circuit for an LC-equivalent pair (or its own validation failed)", input=inp)
            else:
                cg = [g for k, m_, g in [(k, m_, d) for (k, m_, d) in meta if k == "check"]]
                if cg and cg[0][2] is None and cg[0][1] is not None:
                    want = {}
                    for nm, q in cg[0][1]:
                        want.setdefault(int(q), []).append(nm)
                    if want != per_q:
                        res.exact_break("state_converter_circuit", input=inp, impl=str(per_q), model=f"lc_check gate list {cg[0][1]}")
                    else:
                        res.traces_validated += 1
        elif cerr2 != "assertion":
            res.exact_break("state_converter_circuit:not-equivalent", input=inp, impl=str(cerr2), model="err assertion")
    if want_system:
        sysd = system_lines(A, B)
        lines.append(f"lc.system {inp['a']} {inp['b']}")
        meta.append(("system", None, sysd))
        if repaired():
            # `_connected_components` of the repaired code against the model and against the definition
            for M in (A, B):
                try:
                    comps = [[int(v) for v in c] for c in lce._connected_components(np.array(M))]
                    cerr3 = None
                except Exception as e:  # noqa: BLE001
                    comps, cerr3 = None, err_class(e)
                res.evaluations += 1
                lines.append(f"lc.components {gu.adj_args(M)}")
                meta.append(("components", None, (comps, cerr3)))
                if cerr3 is not None or comps != components_ref(M):
                    gu.viol(res, "_connected_components:wrong-partition", "the vertex lists must be the connected components of the graph (sorted, ordered by smallest vertex)",
                            input={"adj": gu.adj_args(M)}, impl=str(comps if cerr3 is None else f"err {cerr3}"))
    # ---- model side
    reps = drv.batch(lines)
    k = 0
    dim = None
    for kind, mode, data in meta:
        if kind == "false-no":
            # after the repair of D14 no false no is known: every one is a new violation, whatever the dimension
            key = K_FALSE_NO_D14 if (dim is not None and dim >= 5 and not repaired()) else "is_lc_equivalent:false-negative"
            gu.viol(res, key, "answered no for two graphs in the same LC orbit", input=inp, mode=mode, solution_dim=dim)
            continue
        rep = reps[k]
        k += 1
        if kind == "equiv":
            st, yes, Q, draws = data
            if rep["_status"] == "ok":
                dim = int(rep.get("dim", 0))
                res.branch([f"equiv:{rep.get('path')}:{'yes' if rep['_raw'].startswith('ok yes') else 'no'}"])
                res.count("sizes", f"dim={dim}" if dim < 5 else "dim>=5")
            if st == "err":
                if rep["_status"] != "err" or rep.get("_err") != yes:
                    res.exact_break("lc.equiv:error-class", input=inp, mode=mode, impl=f"err {yes}", model=rep["_raw"][:200])
                continue
            want = f"ok yes q={q_bits(Q)}" if yes else "ok no"
            got = " ".join(rep["_raw"].split(" ")[:3 if yes else 2])
            if got != want:
                res.exact_break("lc.equiv", input=inp, mode=mode, impl=want, model=rep["_raw"][:300])
            elif mode == "random" and dim is not None and dim >= 5 and (
                    int(rep.get("used", -1)) if repaired() else int(rep.get("trials", 0)) * dim) != len(draws):
                res.exact_break("lc.equiv:random-draw-count", input=inp, impl=f"{len(draws)} draws", model=rep["_raw"][:300])
            else:
                res.traces_validated += 1
        elif kind in ("seq", "find"):
            seq, serr = data
            want = f"err {serr}" if serr is not None else f"ok seq={gu.seq_str(seq)}"
            if rep["_raw"] != want:
                res.exact_break(f"lc.{kind}", input=inp, impl=want, model=rep["_raw"][:300])
            else:
                res.traces_validated += 1
        elif kind == "check":
            ok, gates, cerr = data
            want = f"err {cerr}" if cerr is not None else f"ok yes={int(bool(ok))} gates={gu.gates_str(gates)}"
            if rep["_raw"] != want:
                res.exact_break("lc.check", input=inp, impl=want, model=rep["_raw"][:300])
            else:
                res.traces_validated += 1
        elif kind == "apply":
            if rep["_status"] != "ok" or rep.get("same") != "1":
                gu.viol(res, "lc_check:gates-do-not-map-state", "the returned single-qubit Clifford gates, run by the verified tableau semantics on the first graph state, must give exactly the second graph state",
                              input=inp, gates=gu.gates_str(data), model=rep["_raw"][:200])
        elif kind == "components":
            comps, cerr3 = data
            want = f"err {cerr3}" if cerr3 is not None else "ok comps=" + (";".join(".".join(map(str, c)) for c in comps) or "-")
            if rep["_raw"] != want:
                res.exact_break("lc.components", input=inp, impl=want, model=rep["_raw"][:300])
            else:
                res.traces_validated += 1
        elif kind == "system":
            for f in ("coeff", "red", "last", "cols", "basis"):
                if f in data and rep.get(f) != data[f]:
                    res.exact_break(f"lc.system:{f}", input=inp, impl=data[f][:300], model=str(rep.get(f))[:300])
                    break
            else:
                res.traces_validated += 1
    if lines and res.evaluations % 97 == 0:
        res.sample(f"[{label}] {lines[0][:200]} -> {reps[0]['_raw'][:160]}")


# ---------------------------------------------------------------------------------------------------- lc_check on tableaux
def rotated_tableau(rng, A, kind):
    """a stabilizer / Clifford tableau LC-equivalent to the graph state of A (random one-qubit Cliffords), as graphiq objects"""
    from graphiq.backends.stabilizer.functions.rep_conversion import get_clifford_tableau_from_graph, get_stabilizer_tableau_from_graph
    from graphiq.backends.stabilizer.functions.transformation import run_circuit

    g = gu.to_graph(A)
    t = get_stabilizer_tableau_from_graph(g) if kind == "stab" else get_clifford_tableau_from_graph(g)
    gates = [(rng.choice(["H", "P", "P_dag", "X", "Z"]), rng.randrange(len(A))) for _ in range(rng.randrange(0, 2 * len(A) + 1))]
    return run_circuit(t, list(gates)), gates


def stab_of(t):
    """(x, z, r) of the stabilizer generators of a graphiq StabilizerTableau / CliffordTableau"""
    from graphiq.backends.stabilizer.clifford_tableau import CliffordTableau

    if isinstance(t, CliffordTableau):
        return np.asarray(t.stabilizer_x).astype(int), np.asarray(t.stabilizer_z).astype(int), np.asarray(t.phase)[t.n_qubits:].astype(int)
    return np.asarray(t.x_matrix).astype(int), np.asarray(t.z_matrix).astype(int), np.asarray(t.phase).astype(int)


TOK = {"H": "h", "P": "s", "P_dag": "sdg", "X": "x", "Y": "y", "Z": "z"}


def check_tableau_pair(res, drv, t1, t2, same, inp, target=None):
    """lc_check(t1, t2) on two stabilizer states (graphiq tableaux; t2 may be a graph whose generators are `target`); `same` = the two
    states are LC-equivalent (decided by the caller independently of graphiq).  Direct oracle: no exception; the answer equals `same`;
    a returned gate list, run by the verified tableau model on state 1, gives exactly state 2.  A false `no` is classified by the
    dimension of the solution space on the two graphs `state_to_graph` chose (>= 5: the known finding D14)."""
    from graphiq.backends.stabilizer.functions.local_cliff_equi_check import lc_check
    from graphiq.backends.stabilizer.clifford_tableau import CliffordTableau as _CT

    # exact correspondence with the model of the tableau path (`lcCheckStates`: state_to_graph on both states, converter_gate_list on the
    # graphs, gates1 + gate_list + reversed(gates2 with P <-> P_dag), validation) — repaired is_lc_equivalent, both inputs tableaux
    model_line = None
    if repaired():
        s1 = t1.to_stabilizer() if isinstance(t1, _CT) else t1
        if target is None:
            s2 = t2.to_stabilizer() if isinstance(t2, _CT) else t2
            model_line = f"lc.checkstates {su.stab_args(s1, 'a')} {su.stab_args(s2, 'b')} validate=1"
        else:
            # second argument a graph: `lcCheckStateGraph`
            B2 = gu.to_adj(t2)
            model_line = f"lc.checkstategraph {su.stab_args(s1, 'a')} n={len(B2)} b={gu.bits(B2)} validate=1"
    try:
        ok, gates = lc_check(t1, t2, validate=True)
    except Exception as e:  # noqa: BLE001
        err = err_class(e)
        res.count("errors", f"tab:{err}")
        gu.viol(res, f"lc_check:tableau:raises:{err}", f"lc_check raised on two stabilizer states: {str(e)[:80]}", input=inp)
        if model_line is not None:
            rep = drv.ask(model_line)
            if rep["_status"] != "err" or rep.get("_err") != err:
                res.exact_break("lc.checkstates:error-class", input=inp, impl=f"err {err}", model=rep["_raw"][:200])
        return "raises"
    if model_line is not None:
        rep = drv.ask(model_line)
        want = f"ok yes={int(bool(ok))} gates={gu.gates_str([(g[0], int(g[1])) for g in gates])}"
        if rep["_raw"] != want:
            res.exact_break("lc.checkstates", input=inp, impl=want[:300], model=rep["_raw"][:300])
        else:
            res.traces_validated += 1
    if ok and not same:
        gu.viol(res, "lc_check:tableau:false-yes", "lc_check answered yes for states whose graphs lie in different LC orbits", input=inp)
        return "false-yes"
    if not ok:
        if same:
            # the decision is taken on the graphs chosen by state_to_graph: classify a false no by the solution dimension there
            from graphiq.backends.state_rep_conversion import state_to_graph

            g1, g2 = gu.to_adj(state_to_graph(t1)[0]), gu.to_adj(state_to_graph(t2)[0])
            rep = drv.ask(f"lc.equiv {gu.adj_args(g1)} {gu.adj_args(g2, 'b', with_n=False)} mode=det{rep_tok()}")
            dim = int(rep.get("dim", 0)) if rep["_status"] == "ok" else 0
            key = K_FALSE_NO_D14 if (dim >= 5 and not repaired()) else "lc_check:tableau:false-no"
            gu.viol(res, key, "lc_check answered no for two LC-equivalent stabilizer states", input=inp, solution_dim=dim,
                    graphs=[gu.adj_args(g1), gu.adj_args(g2)])
            return "false-no:dim>=5" if dim >= 5 else "false-no"
        return "no"
    # run the gates with the verified tableau model on state 1, compare the signed stabilizer group with state 2
    # build a Clifford tableau line for tab.run: destabilizers are irrelevant for the stabilizer group; use state 1's own
    from graphiq.backends.stabilizer.functions.rep_conversion import clifford_from_stabilizer
    from graphiq.backends.stabilizer.clifford_tableau import CliffordTableau

    c1 = t1 if isinstance(t1, CliffordTableau) else clifford_from_stabilizer(t1)
    ops = ",".join(f"{TOK[g[0]]}:{int(g[1])}" for g in gates if g[0] != "I") or "-"
    rep = drv.ask(f"tab.run {tu.tab_args(c1)} ops={ops}")
    x2, z2, r2 = target if target is not None else stab_of(t2)
    if rep["_status"] != "ok" or tu.canon_from_reply(rep) != tu.span_canon(x2, z2, r2):
        gu.viol(res, "lc_check:tableau:gates-do-not-map-state", "the returned gate list, run by the verified tableau semantics on state 1, must give state 2",
                input=inp, gates=gu.gates_str(gates), model=rep["_raw"][:200])
        return "wrong-gates"
    res.traces_validated += 1
    return "yes"


def check_tableau_inputs(res, drv, orb, rng, count, nmax):
    """lc_check on tableau inputs: every returned gate list is run by the verified tableau model on state 1"""
    for _ in range(count):
        n = rng.randrange(1, nmax + 1)
        A = gu.structured_graph(rng, n)
        if rng.random() < 0.7:
            B, _ = gu.random_lc_walk(rng, A, rng.randrange(0, 6))
        else:
            B = gu.structured_graph(rng, n)
        k1, k2 = rng.choice(["stab", "cliff"]), rng.choice(["stab", "cliff", "graph"])
        t1, g1 = rotated_tableau(rng, A, k1)
        if k2 == "graph":
            t2, g2 = gu.to_graph(B), []
        else:
            t2, g2 = rotated_tableau(rng, B, k2)
        inp = {"a": gu.adj_args(A), "b": gu.adj_args(B, "b", with_n=False), "kinds": [k1, k2], "gates1": gu.gates_str(g1), "gates2": gu.gates_str(g2)}
        res.evaluations += 1
        res.count("sizes", f"tab:n={n}")
        out = check_tableau_pair(res, drv, t1, t2, orb.same_orbit(A, B), inp, target=gu.graph_state_generators(B) if k2 == "graph" else None)
        if out != "raises":
            res.nontrivial("tab", inp["a"], inp["b"], inp["gates1"], inp["gates2"], k1, k2)
        res.branch(["tab:" + out])


# states whose qubit 0 has no X component after row reduction: state_to_graph raised on them before the repair of D40 (/repo 86ab4f1)
# (generators as Pauli strings, all signs +): |0>, |0>|+>, |0> x Bell
FORMER_D40_STATES = [["Z"], ["ZX", "ZI"], ["IXX", "ZII", "IZZ"]]


def stab_of_paulis(rows):
    from graphiq.backends.stabilizer.tableau import StabilizerTableau

    x = np.array([[int(c in "XY") for c in r] for r in rows], dtype=int)
    z = np.array([[int(c in "ZY") for c in r] for r in rows], dtype=int)
    return StabilizerTableau([x, z], np.zeros(len(rows), dtype=int))


def former_d40_inputs(res, drv):
    """regression inputs of the repaired defect D40: `lc_check(state, state)` on states with qubit 0 in |0> must not raise.  The state is
    LC-equivalent to itself, so the only correct answer is `yes` with a gate list fixing the state; for n >= 2 the graph chosen by
    state_to_graph has vertex 0 isolated and `is_lc_equivalent` answers no there — reported through the D14 key when (and only when)
    the solution space of that pair has dimension >= 5, as for every other false no."""
    for rows in FORMER_D40_STATES:
        t1, t2 = stab_of_paulis(rows), stab_of_paulis(rows)
        inp = {"generators": ",".join(rows), "kinds": ["stab", "stab"], "case": "former-D40:lc_check(state, state)"}
        res.evaluations += 1
        res.count("sizes", f"tab:n={len(rows)}")
        out = check_tableau_pair(res, drv, t1, t2, True, inp)
        res.nontrivial("tab:former-D40", inp["generators"])
        res.branch(["tab:former-D40:" + out])
        res.sample(f"lc_check({inp['generators']}, same) -> {out}")


# ---------------------------------------------------------------------------------------------------- run
def exhaustive_pairs(res, drv, orb, n, deep_every=1, modes_dim5=True):
    N = gu.n_graphs(n)
    graphs = [gu.graph_of_mask(n, m) for m in range(N)]
    for a in range(N):
        for b in range(N):
            deep = ((a * N + b) % deep_every == 0)
            check_pair(res, drv, orb, graphs[a], graphs[b], modes=("deterministic",), deep=deep, label=f"all-pairs n={n}",
                       want_system=(a * N + b) % 7 == 0)


def _n5_worker(args):
    """all ordered pairs (a, b) of 5-vertex graphs with a in the worker's residue class, until the deadline"""
    import time

    wid, nworkers, deadline, step = args
    sub = Result()
    drv = gu.RDriver()
    orb = gu.OrbitOracle(drv)
    N = gu.n_graphs(5)
    graphs = [gu.graph_of_mask(5, m) for m in range(N)]
    done = 0
    complete = True
    # b-major order so that a run cut short by the deadline is still spread over all first graphs
    for b in range(N):
        if time.time() > deadline:
            complete = False
            break
        for a in range(wid, N, nworkers):
            check_pair(sub, drv, orb, graphs[a], graphs[b], modes=("deterministic",), deep=((a * N + b) % 50 == step), label="all-pairs n=5")
            done += 1
    sub.extra["driver_lines"] = drv.n_lines
    drv.close()
    return sub, done, complete


def exhaustive_n5_sharded(ctx, res):
    """thorough tier: every ordered pair of graphs on 5 vertices (1,048,576), sharded over worker processes, with a
    wall-clock guard (the evidence says how many pairs were covered)"""
    import multiprocessing as mp
    import os
    import time

    nworkers = max(2, min(12, (os.cpu_count() or 4) - 2))
    deadline = time.time() + float(os.environ.get("VERIF_C09_N5_BUDGET_S", "900"))
    step = int(ctx.rng.randrange(50))
    with mp.get_context("fork").Pool(nworkers) as pool:
        outs = pool.map(_n5_worker, [(w, nworkers, deadline, step) for w in range(nworkers)])
    total = 0
    complete = True
    for sub, done, comp in outs:
        gu.merge_results(res, sub)
        total += done
        complete = complete and comp
    res.extra["n5_pairs_covered"] = total
    res.notes.append(("exhaustive: all 1,048,576 ordered pairs n=5" if complete else f"n=5: {total} of 1,048,576 ordered pairs within the time guard") +
                     " (decision + Q + orbit oracle + exact model comparison; constructive outputs on every 50th)")


def d14_witnesses(res, drv, orb):
    """the kernel-checked refutation witnesses of Properties/C09, replayed on the implementation every run"""
    k2 = gu.complete_graph(2)
    hit = False
    for A in (gu.disjoint_union(k2, k2), gu.disjoint_union(k2, np.zeros((1, 1), dtype=int))):
        for mode in ("deterministic", "random"):
            st, yes, Q, _ = impl_equiv(A, A, mode, 0)
            res.evaluations += 1
            if st == "ok" and not yes:
                hit = True
    if hit:
        res.known.append((K_FALSE_NO_D14, "2K2 / K2+K1 compared with themselves answer no"))
    else:
        res.known_gone.append(K_FALSE_NO_D14)


def random_pairs(res, drv, orb, rng, count, nmin, nmax, modes, deep=True):
    for _ in range(count):
        n = rng.randrange(nmin, nmax + 1)
        A = gu.structured_graph(rng, n)
        w = rng.random()
        known = None
        if w < 0.6:
            B, _ = gu.random_lc_walk(rng, A, rng.randrange(0, 3 * n))
            known = True
        elif w < 0.8:
            B = gu.permute(A, gu.random_perm(rng, n))
        else:
            B = gu.structured_graph(rng, n)
        check_pair(res, drv, orb, A, B, modes=modes, seed=rng.randrange(100), deep=deep, label=f"random n={n}", want_system=rng.random() < 0.3,
                   known_same=known)


def connected_large_space(rng, n):
    """a connected graph whose linear system tends to have a large solution space (many twins / pendant vertices): random tree,
    distance-hereditary graph (pendant / twin extensions), complete multipartite graph, caterpillar, tree plus a chord; relabelled"""
    A = np.zeros((n, n), dtype=int)
    k = rng.randrange(5)
    if k == 0:
        for i in range(1, n):
            j = rng.randrange(i)
            A[i, j] = A[j, i] = 1
    elif k == 1:
        A[0, 1] = A[1, 0] = 1
        for i in range(2, n):
            j, kind = rng.randrange(i), rng.randrange(3)
            if kind == 0:
                A[i, j] = A[j, i] = 1
            else:
                A[i, :i] = A[j, :i]
                A[:i, i] = A[:i, j]
                if kind == 1:
                    A[i, j] = A[j, i] = 1
    elif k == 2:
        parts, r = [], n
        while r > 0:
            p = rng.randrange(1, r + 1)
            parts.append(p)
            r -= p
        if len(parts) == 1:
            parts = [1, n - 1]
        A[:] = 1
        s = 0
        for p in parts:
            A[s:s + p, s:s + p] = 0
            s += p
    elif k == 3:
        spine = rng.randrange(1, max(2, n // 3) + 1)
        for i in range(1, spine):
            A[i - 1, i] = A[i, i - 1] = 1
        for v in range(spine, n):
            u = rng.randrange(spine)
            A[u, v] = A[v, u] = 1
    else:
        for i in range(1, n):
            j = rng.randrange(i)
            A[i, j] = A[j, i] = 1
        i, j = rng.sample(range(n), 2)
        A[i, j] = A[j, i] = 1
    return gu.permute(A, gu.random_perm(rng, n))


def shortcut_on_connected(res, drv, orb, rng, count, nmax):
    """The one hypothesis of the decision theorem for the repaired function (`shortcut_complete_on_connected_statement`): on a
    CONNECTED graph a `no` of the pair-sum search is right.  Tested on every run: connected graphs with large solution spaces,
    second graph made by random local complementations (so `yes` is the only right answer, for every n); a `no` is a violation."""
    for _ in range(count):
        n = rng.randrange(5, nmax + 1)
        A = connected_large_space(rng, n)
        B, _ = gu.random_lc_walk(rng, A, rng.randrange(0, 3 * n))
        check_pair(res, drv, orb, A, B, modes=("deterministic",), deep=False, label=f"connected n={n}", known_same=True)
        res.branch(["shortcut-hypothesis:connected-pair"])


def check_iso_equal(res, drv, orb, rng, count):
    """iso_equal_check(g1, g2): "g1 is LC-equivalent to some graph isomorphic to g2" — direct oracle on `True` answers: the
    returned graph is isomorphic to g2 and lies in the LC orbit of g1 (a `False` may be a D14 false negative and is only counted)"""
    from graphiq.backends.lc_equivalence_check import iso_equal_check

    for _ in range(count):
        n = rng.randrange(2, 5)
        A = gu.structured_graph(rng, n)
        B = gu.permute(gu.random_lc_walk(rng, A, rng.randrange(0, 5))[0], gu.random_perm(rng, n)) if rng.random() < 0.7 else gu.structured_graph(rng, n)
        inp = {"a": gu.adj_args(A), "b": gu.adj_args(B, "b", with_n=False)}
        try:
            ok, G = iso_equal_check(gu.to_graph(A), gu.to_graph(B))
        except Exception as e:  # noqa: BLE001
            gu.viol(res, f"iso_equal_check:raises:{err_class(e)}", "iso_equal_check raised on two graphs", input=inp)
            continue
        res.evaluations += 1
        res.branch([f"iso_equal_check:{'yes' if ok else 'no'}"])
        if ok:
            g = gu.to_adj(G)
            iso = drv.ask(f"graph.iso {gu.adj_args(g)} b={gu.bits(B)}").get("iso") == "1"
            if not iso or not orb.same_orbit(A, g):
                gu.viol(res, "iso_equal_check:wrong-witness", "the returned graph must be isomorphic to the second graph and LC-equivalent to the first", input=inp, impl=gu.bits(g))
            else:
                res.traces_validated += 1
                res.nontrivial("iso_equal", inp["a"], inp["b"])


def malformed(res, drv, rng):
    """different sizes, unknown mode"""
    from graphiq.backends import lc_equivalence_check as lce

    cases = [(gu.complete_graph(3), gu.path_graph(4), "deterministic"), (gu.path_graph(2), gu.path_graph(3), "random")]
    k2 = gu.complete_graph(2)
    # the mode is only read when a solution space of dimension >= 5 is met: on the whole of 2K2 (dimension 8) before the repair of
    # D14, on no component of it (dimension 4 each) after; on K4 (dimension 5) in both
    cases.append((gu.disjoint_union(k2, k2), gu.disjoint_union(k2, k2), "foo"))
    cases.append((gu.complete_graph(4), gu.complete_graph(4), "foo"))
    lines, meta = [], []
    for A, B, mode in cases:
        st, yes, Q, draws = impl_equiv(A, B, mode, 0)
        res.evaluations += 1
        res.count("errors", f"malformed:{yes if st == 'err' else 'ok'}")
        lines.append(f"lc.equiv n={len(A)} a={gu.bits(A)} b={gu.bits(B)} mode={mode_tok(mode)}{rep_tok()}")
        meta.append((st, yes, Q))
    # different sizes cannot be expressed with one `n` in the protocol: only the mode cases go to the driver
    for k in (2, 3):
        rep = drv.ask(lines[k])
        st, yes, Q = meta[k]
        want = f"err {yes}" if st == "err" else (f"ok yes q={q_bits(Q)}" if yes else "ok no")
        got = rep["_raw"] if rep["_status"] == "err" else " ".join(rep["_raw"].split(" ")[:3 if rep["_raw"].startswith("ok yes") else 2])
        if got != want:
            res.exact_break("lc.equiv:bad-mode", impl=want, model=rep["_raw"][:100])
    if meta[3][0] != "err" or meta[3][1] != "value":
        res.exact_break("lc.equiv:bad-mode:K4", impl=str(meta[3][:2]), model="err value")
    for (st, yes, _) in meta[:2]:
        if st != "err" or yes != "assertion":
            res.exact_break("lc.equiv:size-mismatch", impl=str((st, yes)), model="err assertion")


def run(ctx):
    res = Result()
    res.rule = ("one evaluation = one call of an LC function of graphiq on one input (pair of graphs / graph and vertex / block); "
                "non-trivial = at least one of the graphs has an edge; distinct by (function, mode, both adjacency matrices, arguments)")
    drv = gu.RDriver()
    orb = gu.OrbitOracle(drv)
    rng = ctx.rng
    check_ops_table(res, drv)
    check_valid_clifford(res, drv, rng, 100 if ctx.quick else 2000)
    d14_witnesses(res, drv, orb)
    former_d40_inputs(res, drv)
    malformed(res, drv, rng)
    # local complementation: exhaustive small, random larger
    nlc = 4 if ctx.quick else 5
    for n in range(1, nlc + 1):
        check_local_comp(res, drv, [gu.graph_of_mask(n, m) for m in range(gu.n_graphs(n))], f"all graphs n={n}")
    check_local_comp(res, drv, [gu.structured_graph(rng, rng.randrange(5, 13)) for _ in range(30 if ctx.quick else 200)], "random")
    # all ordered pairs
    for n in (1, 2, 3):
        exhaustive_pairs(res, drv, orb, n)
    exhaustive_pairs(res, drv, orb, 4, deep_every=1 if not ctx.quick else 3)
    res.exhaustive = True
    res.notes.append("exhaustive: all ordered pairs of graphs on n<=4 vertices (4,165 pairs), deterministic mode; all 16 blocks of local_clifford_ops; local complementation on all graphs n<=4 x all vertices")
    # random mode and larger graphs
    random_pairs(res, drv, orb, rng, 150 if ctx.quick else 1500, 2, 6, ("deterministic", "random"))
    random_pairs(res, drv, orb, rng, 12 if ctx.quick else 150, 7, 9 if ctx.quick else 12, ("deterministic", "random"))
    shortcut_on_connected(res, drv, orb, rng, 60 if ctx.quick else 1500, 10 if ctx.quick else 14)
    check_tableau_inputs(res, drv, orb, rng, 150 if ctx.quick else 1500, 5 if ctx.quick else 6)
    check_iso_equal(res, drv, orb, rng, 60 if ctx.quick else 600)
    if not ctx.quick:
        exhaustive_n5_sharded(ctx, res)
    res.extra["driver_lines"] = drv.n_lines
    drv.close()
    return res


def search(ctx, res, proof_broken):
    """proof or correspondence broke and no failing input yet: all ordered pairs n<=4 with every deep check, then random n<=6"""
    drv = gu.RDriver()
    orb = gu.OrbitOracle(drv)
    for n in (2, 3, 4):
        exhaustive_pairs(res, drv, orb, n)
        if res.violations:
            break
    if not [v for v in res.violations if v["key"] != K_FALSE_NO_D14]:
        random_pairs(res, drv, orb, ctx.rng, 600, 2, 6, ("deterministic", "random"))
        check_local_comp(res, drv, [gu.graph_of_mask(5, m) for m in range(0, 1024, 3)], "search n=5")
    drv.close()


def replay(ctx, data):
    """re-evaluate the stored failing case on the implementation with the direct oracle"""
    v = data.get("violation") or {}
    inp = v.get("input") or {}
    res = Result()
    drv = gu.RDriver()
    orb = gu.OrbitOracle(drv)
    try:
        if "adj" in inp:
            kv = dict(t.split("=", 1) for t in inp["adj"].split())
            n = int(kv["n"])
            A = gu.adj_from_bits(kv["a"], n)
            check_local_comp(res, drv, [A], "replay")
        elif "q" in inp and "a" not in inp and "adj" not in inp:
            from graphiq.backends.lc_equivalence_check import _is_valid_clifford

            v = [int(c) for c in inp["q"]]
            nb = len(v) // 4
            want = all((v[4 * i] * v[4 * i + 3] + v[4 * i + 1] * v[4 * i + 2]) % 2 == 1 for i in range(nb))
            got = bool(_is_valid_clifford(np.array(v).reshape(4 * nb, 1)))
            print("replay _is_valid_clifford:", inp["q"], "->", got, "expected", want)
            return got is want
        elif "a" in inp and "kinds" not in inp:
            kv = dict(t.split("=", 1) for t in (inp["a"] + " " + inp["b"]).split())
            n = int(kv["n"])
            A, B = gu.adj_from_bits(kv["a"], n), gu.adj_from_bits(kv["b"], n)
            check_pair(res, drv, orb, A, B, modes=("deterministic", "random"), deep=True)
        else:
            return None
    finally:
        drv.close()
    for w in res.violations:
        print("replay violation:", w["key"], "-", w["clause"])
    return not [w for w in res.violations if w["key"] == v.get("key")]
