"""
C19 — random-search solvers are reproducible and report honest, ordered results.

Tie between the Lean model (GraphiqModel/Model/Evo.lean, theorems in Properties/C19.lean) and the code in $REPO:

1. *Unit correspondences* (real functions called in-process on synthetic inputs, compared exactly with the model driver):
   `np.isclose` (the rule update_hof relies on), `RandomSearchSolver.update_hof` (fake circuits with a node count and a
   `copy()`; exhaustive small populations from every reached hall-of-fame state + random histories + a malformed stream),
   `tournament_selection` (draws recorded by wrapping `random.choices`), `adapt_probabilities` /
   `initialize_transformation_probabilities` / `randomize_circuit`'s table, `np.random.choice(p=…)` as a function of the
   uniform draw, `_select_possible_cnot_position` / `_select_possible_measurement_position` (ordered candidate lists).
2. *Whole runs*: EvolutionarySolver and HybridEvolutionarySolver are subclassed (no repository hooks) so that every
   generation's population (scores, object identities, content fingerprints, node counts), hall of fame, tournament draws
   and transformation probabilities are recorded; the model's `solve` replays the run from that draw stream and must give
   the same hall of fame (scores, contents *and aliasing structure*) after every generation, the same result, the same
   probabilities and the same error class/generation when the run raises.
3. *Direct oracle* on the implementation (independent of the model): hall of fame has n_hof entries, is ordered
   (adjacent entries `<=` or `np.isclose`), best score never gets worse (same tolerance), every stored score equals the
   metric re-evaluated by a fresh compiler + fresh metric on the stored circuit (also for the population at the moment
   update_hof sees it), stored circuits never change after insertion and are never the population's objects, result is
   hof[0], logs agree with the hall of fame, and — reproducibility — the same seeded configuration run twice in one
   process and in processes with different PYTHONHASHSEED gives the identical trace.
"""
import itertools
import json
import os
import queue
import random as pyrandom
import subprocess
import sys
import threading
from fractions import Fraction

import numpy as np

from harness import common
from harness import evoutil as eu
from harness.common import Driver, Result, err_class

LEVEL = "proof"
TRUSTED_BASE = [
    "Lean 4.33 kernel",
    "hand-written model GraphiqModel/Model/Evo.lean tied to solver_base.py / evolutionary_solver.py / hybrid_solvers.py by this correspondence run "
    "(differential testing: exhaustive small update_hof populations, random histories, traced whole runs)",
    "the circuit transformations and the compile+metric pipeline are *parameters* of the model (Params.mutate/metric); that the metric is a "
    "function of the circuit is assumed by the honest-score theorem and tested by re-evaluation with a fresh compiler and metric",
    "Python object semantics (deepcopy creates an object disjoint from everything reachable before) is modelled by heap allocation",
    "harness, line protocol, numpy (np.isclose as tolerance notion of the direct oracle)",
    "scores are modelled as exact rationals: np.isclose is evaluated exactly; floating-point rounding inside np.isclose is outside the model "
    "(generated scores keep a margin of 1e-9 relative to the threshold)",
]
ASSUMPTIONS = [
    "NaN scores are outside the quantifier (no metric of the library returns NaN)",
    "reproducibility across processes is tested (2-3 PYTHONHASHSEED values per configuration, plus the regression witness of the fixed "
    "get_node_exclude_labels order defect), not proved: a functional model cannot exhibit hash order",
    "n_hof > n_pop (solver raises AttributeError in update_logs at generation 0) is treated as an error path: model and implementation must agree on the error class and generation",
    "measurement_determinism='probabilistic' runs are checked for reproducibility/order/aliasing only (the metric is then not a function of the circuit)",
]

# D28 residue (fixed in /repo 6f7407b): get_node_exclude_labels returned list(set(dag.nodes) - excluded), whose order depended on
# PYTHONHASHSEED; remove_op indexed it with a seeded random integer.  WITNESS_JOB (seed 149 gave different halls of fame under hash
# seeds 0 and 1) and the node_order walks are kept as regression tests: a divergence is reported under this key.
NODE_ORDER_KEY = "repro:hashseed:candidate-order:remove_op"

# ---------------------------------------------------------------------------------------------------------------- pool
N_WORKERS = int(os.environ.get("C19_WORKERS", "8"))


class Pool:
    """subprocess workers, worker i runs with PYTHONHASHSEED=i"""

    def __init__(self, n):
        self.n = n
        self.procs = []
        for i in range(n):
            env = dict(os.environ)
            env["PYTHONHASHSEED"] = str(i)
            env["REPO"] = common.REPO
            env["PYTHONWARNINGS"] = "ignore"
            p = subprocess.Popen([sys.executable, "-m", "harness.evoutil", "--worker"], cwd=common.VERIF, env=env,
                                 stdin=subprocess.PIPE, stdout=subprocess.PIPE, stderr=subprocess.DEVNULL, text=True)
            self.procs.append(p)

    def run(self, tasks):
        """tasks: list of (worker index, job) -> list of result dicts in task order"""
        qs = [queue.Queue() for _ in range(self.n)]
        out = [None] * len(tasks)
        for k, (w, job) in enumerate(tasks):
            qs[w % self.n].put((k, job))

        def feed(w):
            p = self.procs[w]
            while True:
                try:
                    k, job = qs[w].get_nowait()
                except queue.Empty:
                    return
                try:
                    p.stdin.write(json.dumps(job) + "\n")
                    p.stdin.flush()
                    line = p.stdout.readline()
                    out[k] = json.loads(line) if line else {"job": job, "infra_error": "worker died"}
                except Exception as e:  # noqa: BLE001
                    out[k] = {"job": job, "infra_error": f"{type(e).__name__}: {e}"}

        ths = [threading.Thread(target=feed, args=(w,), daemon=True) for w in range(self.n)]
        for t in ths:
            t.start()
        for t in ths:
            t.join()
        # one retry (on a restarted worker with the same hash seed) for jobs lost to an infrastructure failure
        for k, (w, job) in enumerate(tasks):
            if out[k] is None or "infra_error" in out[k]:
                first = (out[k] or {}).get("infra_error")
                self.restart(w % self.n)
                qs[w % self.n].put((k, job))
                feed(w % self.n)
                if out[k] is not None and "infra_error" not in out[k]:
                    out[k]["retried_after"] = str(first)
        return out

    def restart(self, w):
        try:
            self.procs[w].kill()
        except Exception:  # noqa: BLE001
            pass
        env = dict(os.environ)
        env["PYTHONHASHSEED"] = str(w)
        env["REPO"] = common.REPO
        env["PYTHONWARNINGS"] = "ignore"
        self.procs[w] = subprocess.Popen([sys.executable, "-m", "harness.evoutil", "--worker"], cwd=common.VERIF, env=env,
                                         stdin=subprocess.PIPE, stdout=subprocess.PIPE, stderr=subprocess.DEVNULL, text=True)

    def close(self):
        for p in self.procs:
            try:
                p.stdin.close()
            except Exception:  # noqa: BLE001
                pass
        for p in self.procs:
            try:
                p.wait(timeout=10)
            except Exception:  # noqa: BLE001
                p.kill()


# ---------------------------------------------------------------------------------------------------------------- fakes
class FakeDag:
    def __init__(self, n):
        self.nodes = list(range(n))


class FakeCircuit:
    """what update_hof / tournament_selection use of a circuit: len(circuit.dag.nodes), .copy(), deep-copyability"""

    def __init__(self, n, origin=None):
        self.dag = FakeDag(n)
        self.origin = origin  # the object this one was copied from (identity), None for an original

    def copy(self, *args, **kwargs):  # extra arguments of a refactored caller are accepted
        return FakeCircuit(len(self.dag.nodes), origin=self)

    def __deepcopy__(self, memo):
        return FakeCircuit(len(self.dag.nodes), origin=self)

    @property
    def depth(self):
        return 1


def root(c):
    while c is not None and c.origin is not None:
        c = c.origin
    return c


def fr(x):
    """float -> Fraction or 'inf'"""
    x = float(x)
    return "inf" if x == float("inf") else Fraction(*x.as_integer_ratio())


def parse_score(s):
    if s == "inf":
        return "inf"
    n, d = s.split("/")
    return Fraction(int(n), int(d))


_CLOSE = {}


def np_close(a, b):
    """np.isclose on two Python floats (memoised: the oracle asks for the same pairs of grid scores many times)"""
    k = (float(a), float(b))
    v = _CLOSE.get(k)
    if v is None:
        v = _CLOSE[k] = bool(np.isclose(k[0], k[1]))
    return v


def le_tol(a, b):
    """a <= b up to the tolerance update_hof itself uses"""
    return a <= b or np_close(a, b) or np_close(b, a)


def coherent(scores):
    """isclose is symmetric + transitive on the scores and compatible with < (the hypothesis of the class-level theorems)"""
    ss = sorted(set(scores))
    for a in ss:
        for b in ss:
            if np_close(a, b) != np_close(b, a):
                return False
            for c in ss:
                if np_close(a, b) and np_close(b, c) and not np_close(a, c):
                    return False
                if np_close(a, b) and b < c and not np_close(b, c) and not a < c:
                    return False
    return True


# score grid: clusters around 0, 1/4, 1/2, 3/4, 1 with members inside / outside the isclose tolerance, one float-noise
# neighbour, and an asymmetric pair (isclose(a,b) but not isclose(b,a)); all at least 1e-9 (relative) away from a threshold
def score_grid():
    g = []
    for b in (0.0, 0.25, 0.5, 0.75, 1.0):
        tol = 1e-8 + 1e-5 * b
        g += [b, b + 0.4 * tol, b + 0.9 * tol, b + 1.7 * tol, b + 3.0 * tol]
        if b > 0:
            g += [b - 0.4 * tol, b - 1.7 * tol]
    g += [0.4999999999999999, 1.0 - 1.00099995e-5]
    return sorted(set(g))


GRID = score_grid()
# exhaustive grid: a cluster {b, b+0.9tol, b+1.7tol} (neighbours close, ends not: isclose is not transitive on it), the
# asymmetric pair (1 - 1.00099995e-5, 1) [isclose(a, b) but not isclose(b, a)], and a float-noise pair
SMALL_GRID = [0.25, 0.25 + 0.9 * (1e-8 + 0.25e-5), 0.25 + 1.7 * (1e-8 + 0.25e-5), 1.0 - 1.00099995e-5, 1.0, 0.4999999999999999, 0.5]


# ---------------------------------------------------------------------------------------------------------------- 1a isclose
def synth_isclose(ctx, res, drv):
    rng = ctx.rng
    pairs = []
    vals = GRID + [float("inf")]
    for a in vals:
        for b in vals:
            pairs.append((a, b))
    for _ in range(300 if ctx.quick else 3000):
        b = rng.choice([0.0, rng.random(), rng.random() * 10, 1.0])
        tol = 1e-8 + 1e-5 * abs(b)
        f = rng.choice([0.0, 0.5, 0.99, 0.999999, 1.000001, 1.01, 2.0, 10.0])
        a = b + rng.choice([-1, 1]) * f * tol
        pairs.append((a, b))
        pairs.append((b, a))
    lines = [f"evo.isclose a={eu.ratio(a)} b={eu.ratio(b)}" for a, b in pairs]
    reps = drv.batch(lines)
    for (a, b), rep in zip(pairs, reps):
        res.evaluations += 1
        impl = (int(np_close(a, b)), int(a < b))
        model = (int(rep.get("close", -1)), int(rep.get("lt", -1)))
        if impl != model:
            # rounding band of the float evaluation?
            if a != float("inf") and b != float("inf"):
                lhs = abs(Fraction(*a.as_integer_ratio()) - Fraction(*b.as_integer_ratio()))
                rhs = Fraction(1, 10 ** 8) + Fraction(1, 10 ** 5) * abs(Fraction(*b.as_integer_ratio()))
                if rhs > 0 and abs(lhs - rhs) / rhs < Fraction(1, 10 ** 12):
                    res.count("errors", "isclose:rounding-band")
                    continue
            res.exact_break("np.isclose", input={"a": repr(a), "b": repr(b)}, impl=str(impl), model=rep["_raw"])
    res.branch(["isclose"] * len(pairs))


# ---------------------------------------------------------------------------------------------------------------- 1b update_hof
def hof_functions():
    """the update_hof / tournament_selection implementations in use (deduplicated by function identity)"""
    from graphiq.solvers.evolutionary_solver import EvolutionarySolver
    from graphiq.solvers.hybrid_solvers import HybridEvolutionarySolver
    from graphiq.solvers.solver_base import RandomSearchSolver

    ups, tos = [], []
    for cls in (RandomSearchSolver, EvolutionarySolver, HybridEvolutionarySolver):
        if cls.update_hof not in [f for _, f in ups]:
            ups.append((cls.__name__, cls.update_hof))
        if cls.tournament_selection not in [f for _, f in tos]:
            tos.append((cls.__name__, cls.tournament_selection))
    return ups, tos


def mk_solver(n_hof, n_pop=5):
    from graphiq.solvers.solver_base import RandomSearchSolver, RandomSearchSolverSetting

    return RandomSearchSolver(target=None, metric=None, compiler=None,
                              solver_setting=RandomSearchSolverSetting(n_hof=n_hof, n_pop=n_pop, n_stop=1))


def hof_line(n_hof, hof, pop):
    h = ",".join(f"{eu.ratio(s)}:{'none' if c is None else len(c.dag.nodes)}" for s, c in hof) or "-"
    p = ",".join(f"{eu.ratio(s)}:{len(c.dag.nodes)}" for s, c in pop) or "-"
    return f"evo.update_hof nhof={n_hof} hof={h} pop={p}"


def describe_hof(before, pop, after):
    """origin tags of the entries of `after` by object identity"""
    tags = []
    for s, c in after:
        if c is None:
            tags.append("none")
            continue
        hit = [i for i, (_, b) in enumerate(before) if b is c]
        if hit:
            tags.append(f"h{hit[0]}")
            continue
        hit = [j for j, (_, p) in enumerate(pop) if p is c]
        if hit:
            tags.append(f"alias-p{hit[0]}")
            continue
        hit = [j for j, (_, p) in enumerate(pop) if c.origin is p]
        if hit:
            tags.append(f"p{hit[0]}")
            continue
        hit = [i for i, (_, b) in enumerate(before) if b is not None and c.origin is b]
        tags.append(f"copy-h{hit[0]}" if hit else "?")
    return tags


def oracle_update_hof(res, n_hof, before, pop, after, inp):
    """the clauses of C19 that concern one update_hof call, evaluated on the implementation's result"""
    ok = True

    def bad(key, clause):
        nonlocal ok
        ok = False
        res.violation(key, clause, input=inp, impl=[(repr(float(s)), None if c is None else len(c.dag.nodes)) for s, c in after])

    if len(after) != len(before):
        bad("update_hof:length", "update_hof changed the length of the hall of fame")
        return False
    tags = describe_hof(before, pop, after)
    if any(t.startswith("alias") for t in tags):
        bad("update_hof:stores-population-object", "a hall-of-fame entry is the population's own circuit object (no copy)")
    if any(t in ("?",) or t.startswith("copy-h") for t in tags):
        bad("update_hof:foreign-entry", "a hall-of-fame entry is neither an old entry nor a copy of a population member")
    for t, (s, c) in zip(tags, after):
        if t.startswith("p"):
            j = int(t[1:])
            if float(s) != float(pop[j][0]) or len(c.dag.nodes) != len(pop[j][1].dag.nodes):
                bad("update_hof:copy-differs", "stored (score, circuit) differs from the population member it was copied from")
        if t.startswith("h"):
            i = int(t[1:])
            if float(s) != float(before[i][0]):
                bad("update_hof:old-score-changed", "score of a kept entry changed")
    ss = [float(s) for s, _ in after]
    if any(not le_tol(a, b) for a, b in zip(ss, ss[1:])):
        bad("update_hof:unsorted", "hall of fame not ordered by non-decreasing score (beyond the isclose tolerance)")
    allscores = [float(s) for s, _ in before] + [float(s) for s, _ in pop]
    # one insertion moves the best score by at most the tolerance (theorem update_hof_best_one_member); over a whole call the
    # steps can add up when isclose is not transitive on the scores, so the clause is demanded exactly on coherent scores and
    # with one tolerance per population member otherwise
    if ss and before:
        b0 = float(before[0][0])
        if coherent(allscores):
            if not (ss[0] <= b0 or np_close(ss[0], b0)):
                bad("update_hof:best-got-worse", "best score increased")
        elif b0 != float("inf") and ss[0] > b0 + len(pop) * 1.01 * (1e-8 + 1e-5 * max(abs(x) for x in allscores if x != float("inf"))):
            bad("update_hof:best-got-worse", "best score increased by more than one tolerance per processed member")
    if coherent(allscores) and ss:
        # exact statement on isclose classes: sorted by (class, node count) and nothing strictly better than the last entry was dropped
        for (a, ca), (b, cb) in zip(after, after[1:]):
            a, b = float(a), float(b)
            if np_close(a, b):
                if ca is not None and cb is not None and len(ca.dag.nodes) > len(cb.dag.nodes) and _lex_sorted_before(before):
                    bad("update_hof:tie-not-by-size", "entries with equal (isclose) scores are not ordered by node count")
            elif not a < b:
                bad("update_hof:unsorted", "hall of fame not ordered by score classes")
        last = ss[-1]
        for j, (s, c) in enumerate(pop):
            s = float(s)
            if s < last and not np_close(s, last) and f"p{j}" not in tags:
                # a copy of it may have been pushed out by later, better members only if n_hof better ones exist
                better = sum(1 for x in ss if x < s or np_close(x, s))
                if better < len(ss):
                    bad("update_hof:better-member-dropped", "a population member strictly better than the last entry is not in the hall of fame")
    return ok


def _lex_sorted_before(before):
    """the size-order clause is an invariant: demanded only when the start state already satisfies it"""
    for (a, ca), (b, cb) in zip(before, before[1:]):
        a, b = float(a), float(b)
        if np_close(a, b) and ca is not None and cb is not None and len(ca.dag.nodes) > len(cb.dag.nodes):
            return False
    return True


def run_update_hof_case(res, drv_lines, fn, solver, pop, tag):
    """call the real update_hof; queue the model line; returns the comparison record"""
    n_hof = solver.setting.n_hof
    before = list(solver.hof)
    inp = {"kind": "update_hof", "n_hof": n_hof,
           "hof": [(repr(float(s)), None if c is None else len(c.dag.nodes)) for s, c in before],
           "pop": [(repr(float(s)), len(c.dag.nodes)) for s, c in pop], "via": tag}
    line = hof_line(n_hof, before, pop)
    err = None
    try:
        fn(solver, pop)
    except Exception as e:  # noqa: BLE001
        err = err_class(e)
    after = list(solver.hof)
    res.evaluations += 1
    drv_lines.append(line)
    return (line, inp, before, pop, after, err)


def compare_update_hof(res, rep, rec, malformed=False):
    line, inp, before, pop, after, err = rec
    n_hof = inp["n_hof"]
    if err is not None:
        res.count("errors", f"update_hof:{err}")
        if rep["_status"] != "err" or rep.get("_err") != err:
            res.exact_break("update_hof:error-class", input=inp, impl=f"err {err}", model=rep["_raw"][:300])
        if not malformed:
            res.violation(f"update_hof:raises:{err}", "update_hof raised on a well-formed call", input=inp)
        return
    if rep["_status"] != "ok":
        res.exact_break("update_hof:error-class", input=inp, impl="ok", model=rep["_raw"][:300])
        oracle_update_hof(res, n_hof, before, pop, after, inp)
        return
    oracle_ok = oracle_update_hof(res, n_hof, before, pop, after, inp)
    tags = describe_hof(before, pop, after)
    m_tags = [] if rep.get("hof", "-") == "-" else rep["hof"].split(",")
    m_scores = [] if rep.get("scores", "-") == "-" else [parse_score(s) for s in rep["scores"].split(",")]
    same = tags == m_tags and [fr(s) for s, _ in after] == m_scores and rep.get("fold") == "1"
    if not same and oracle_ok:
        res.exact_break("update_hof", input=inp, impl=",".join(tags) + " " + ",".join(eu.ratio(s) for s, _ in after), model=rep["_raw"][:400])
    if any(t.startswith("p") for t in tags):
        res.nontrivial("uh", line)
        res.branch(["update_hof:insert"])
    else:
        res.branch(["update_hof:no-insert"])
    res.traces_validated += 1


def random_entry(rng, grid, sizes):
    return (rng.choice(grid), FakeCircuit(rng.choice(sizes)))


def synth_update_hof(ctx, res, drv, heavy=False):
    rng = ctx.rng
    ups, _ = hof_functions()
    res.extra["update_hof_implementations"] = [n for n, _ in ups]
    sizes = [3, 4, 6]
    for name, fn in ups:
        # -------- exhaustive: every population of length <= L over the small grid x 2 sizes, from every reached state
        L = 2 if (ctx.quick and not heavy) else 3
        entries = [(s, n) for s in SMALL_GRID for n in (3, 4)]
        for n_hof in ((1, 2) if (ctx.quick and not heavy) else (1, 2, 3)):
            states = [[]]  # histories (lists of populations) leading to distinct hof states
            seen = set()
            frontier = [[]]
            depth = 0
            max_states = 12 if (ctx.quick and not heavy) else 40
            while frontier and depth < 2:
                nxt = []
                for hist in frontier:
                    for k in range(0, L + 1):
                        if depth > 0 and k == L and L == 3:
                            continue  # keep the second level to populations of length <= 2
                        combos = list(itertools.product(entries, repeat=k))
                        lines, recs = [], []
                        for combo in combos:
                            solver = mk_solver(n_hof)
                            for past in hist:
                                fn(solver, [(s, FakeCircuit(n)) for s, n in past])
                            pop = [(s, FakeCircuit(n)) for s, n in combo]
                            recs.append(run_update_hof_case(res, lines, fn, solver, pop, f"{name}:exhaustive"))
                            if recs[-1][5] is not None:
                                # the case raised (already compared / reported by run_update_hof_case): its history must not be replayed at the
                                # next depth — the replay is not under a `try` and would end run() as a harness crash, losing the report
                                continue
                            sig = tuple((float(s), None if c is None else len(c.dag.nodes)) for s, c in solver.hof)
                            if sig not in seen and len(seen) < max_states:
                                seen.add(sig)
                                nxt.append(hist + [list(combo)])
                        for rep, rec in zip(drv.batch(lines), recs):
                            compare_update_hof(res, rep, rec)
                frontier = nxt
                depth += 1
            res.count("sizes", f"update_hof:exhaustive:n_hof={n_hof}:states", len(seen))
        # -------- random histories over the full grid
        for _ in range(60 if ctx.quick else 600):
            n_hof = rng.randrange(1, 5)
            solver = mk_solver(n_hof)
            lines, recs = [], []
            for step in range(rng.randrange(1, 7)):
                pop = [random_entry(rng, GRID, sizes) for _ in range(rng.randrange(0, 6))]
                recs.append(run_update_hof_case(res, lines, fn, solver, pop, f"{name}:history"))
                if recs[-1][5] is not None:
                    break
            for rep, rec in zip(drv.batch(lines), recs):
                compare_update_hof(res, rep, rec)
            if lines and len(res.samples) < 2:
                res.sample(lines[-1][:300])
        # -------- malformed stream: inf scores against (inf, None) entries, hof shorter than n_hof, n_hof = 0
        for _ in range(20 if ctx.quick else 100):
            n_hof = rng.randrange(0, 4)
            solver = mk_solver(n_hof)
            lines, recs = [], []
            kind = rng.choice(["inf", "short", "plain"])
            if kind == "short" and solver.hof:
                solver.hof.pop()
            pop = [random_entry(rng, GRID + ([float("inf")] if kind == "inf" else []), sizes) for _ in range(rng.randrange(1, 4))]
            if kind == "inf":
                pop.insert(rng.randrange(len(pop) + 1), (float("inf"), FakeCircuit(3)))
            recs.append(run_update_hof_case(res, lines, fn, solver, pop, f"{name}:malformed:{kind}"))
            for rep, rec in zip(drv.batch(lines), recs):
                compare_update_hof(res, rep, rec, malformed=True)


# ---------------------------------------------------------------------------------------------------------------- 1c tournament
def synth_tournament(ctx, res, drv):
    rng = ctx.rng
    _, tos = hof_functions()
    for name, fn in tos:
        lines, recs = [], []
        for _ in range(150 if ctx.quick else 1500):
            n_pop = rng.randrange(0, 7)
            m = rng.randrange(1, 7)
            k = rng.choice([0, 1, 2, 2, 2, 3, 5])
            solver = mk_solver(2, n_pop)
            grid = rng.choice([GRID, SMALL_GRID, [0.25, 0.5]])
            pop = [(rng.choice(grid), FakeCircuit(rng.randrange(3, 7))) for _ in range(m)]
            seed = rng.getrandbits(30)
            draws = []
            orig = pyrandom.choices

            def recording(p, *a, **kw):
                r = orig(p, *a, **kw)
                ix = {id(t): i for i, t in enumerate(p)}
                draws.append([ix[id(t)] for t in r])
                return r

            pyrandom.seed(seed)
            pyrandom.choices = recording
            err = None
            try:
                new = fn(solver, pop, k=k)
            except Exception as e:  # noqa: BLE001
                err = err_class(e)
                new = None
            finally:
                pyrandom.choices = orig
            res.evaluations += 1
            inp = {"kind": "tournament", "n_pop": n_pop, "k": k, "scores": [repr(s) for s, _ in pop], "seed": seed, "draws": draws, "via": name}
            dstr = ",".join(".".join(map(str, d)) for d in draws) or "-"
            lines.append(f"evo.tournament npop={n_pop} k={k} scores={','.join(eu.ratio(s) for s, _ in pop)} draws={dstr}")
            recs.append((inp, pop, new, err, draws, k, n_pop))
        for rep, (inp, pop, new, err, draws, k, n_pop) in zip(drv.batch(lines), recs):
            if err is not None:
                res.count("errors", f"tournament:{err}")
                if rep["_status"] != "err" or rep.get("_err") != err:
                    res.exact_break("tournament_selection:error-class", input=inp, impl=f"err {err}", model=rep["_raw"][:300])
                continue
            if rep["_status"] != "ok":
                res.exact_break("tournament_selection:error-class", input=inp, impl="ok", model=rep["_raw"][:300])
                continue
            # direct oracle
            ok = True
            if k == 0:
                if new is not pop:
                    pass  # the property does not demand the same list object
                sel = list(range(len(pop)))
                fresh = 0
            else:
                sel = []
                if len(new) != n_pop:
                    res.violation("tournament:length", "selected population does not have n_pop members", input=inp)
                    ok = False
                for t, (s, c) in enumerate(new):
                    j = [i for i, (_, p) in enumerate(pop) if c.origin is p]
                    if any(c is p for _, p in pop) or any(new[t] is tp for tp in pop):
                        res.violation("tournament:no-deepcopy", "selected member is the population's own object", input=inp)
                        ok = False
                    if not j:
                        res.violation("tournament:foreign-member", "selected member is not a copy of a population member", input=inp)
                        ok = False
                        sel.append(-1)
                        continue
                    sel.append(j[0])
                    tour = draws[t] if t < len(draws) else []
                    best = min(float(pop[i][0]) for i in tour) if tour else None
                    if best is None or float(s) != best or float(pop[j[0]][0]) != best:
                        res.violation("tournament:not-best", "selected member does not have the minimal score of its tournament", input=inp)
                        ok = False
                    else:
                        first = [i for i in tour if float(pop[i][0]) == best][0]
                        if j[0] != first:
                            res.count("errors", "tournament:tie-not-first")  # not demanded by the property; the model comparison reports it
                if len({id(c) for _, c in new}) != len(new):
                    res.violation("tournament:shared-object", "two selected members share one circuit object", input=inp)
                    ok = False
                fresh = 1
            m_sel = [] if rep.get("sel", "-") == "-" else [int(x) for x in rep["sel"].split(",")]
            if ok and (m_sel != sel or (k != 0 and rep.get("fresh") != "1") or (k != 0 and rep.get("distinct") != "1")):
                res.exact_break("tournament_selection", input=inp, impl=str(sel), model=rep["_raw"][:300])
            if k != 0 and len(set(inp["scores"])) > 1:
                res.nontrivial("ts", json.dumps(inp, sort_keys=True))
            res.branch([f"tournament:k={'0' if k == 0 else '>0'}"])
            res.traces_validated += 1
        if lines:
            res.sample(lines[0][:300])


# ---------------------------------------------------------------------------------------------------------------- 1d probabilities
def synth_adapt(ctx, res, drv):
    import networkx as nx

    from graphiq.backends.stabilizer.compiler import StabilizerCompiler
    from graphiq.metrics import Infidelity
    from graphiq.solvers.evolutionary_solver import EvolutionarySolver, EvolutionarySolverSetting
    from graphiq.solvers.hybrid_solvers import HybridEvolutionarySolver
    from graphiq.state import QuantumState

    def target_of(g):
        t = QuantumState(g, rep_type="g")
        t.convert_representation("s")
        return t

    cases = []
    for n_stop in ([1, 2, 3, 7, 10, 50] if ctx.quick else list(range(1, 31)) + [50, 100]):
        for kind, n_emit in (("evo", 1), ("evo", 2), ("hybrid", 1), ("hybrid", 2)):
            cases.append((kind, n_emit, n_stop))
    lines, recs = [], []
    for kind, n_emit, n_stop in cases:
        setting = EvolutionarySolverSetting(n_stop=n_stop, n_pop=2, n_hof=1)
        if kind == "evo":
            t = target_of(nx.path_graph(3))
            s = EvolutionarySolver(target=t, metric=Infidelity(t), compiler=StabilizerCompiler(), n_emitter=n_emit, n_photon=3, solver_setting=setting)
        else:
            t = target_of(nx.path_graph(3) if n_emit == 1 else nx.cycle_graph(4))
            s = HybridEvolutionarySolver(target=t, metric=Infidelity(t), compiler=StabilizerCompiler(), solver_setting=setting)
            if s.n_emitter != n_emit:
                # the hybrid solver takes its emitter number from the target (path on 3 vertices: 1, 4-cycle: 2 — C03's height function); a
                # different number used to drop the case with a note only
                res.notes.append(f"hybrid n_emitter for case is {s.n_emitter}, expected {n_emit}")
                res.exact_break("adapt:hybrid-n_emitter", input={"kind": "adapt", "solver": kind, "n_emitter": n_emit}, impl=f"n_emitter = {s.n_emitter}",
                                model=f"{n_emit} emitters for {'the path on 3 vertices' if n_emit == 1 else 'the 4-cycle'}")
                continue
        steps = n_stop + 3
        seq = [[float(v) for v in s.trans_probs.values()]]
        keys = [k.__name__ for k in s.trans_probs.keys()]
        for _ in range(steps):
            s.adapt_probabilities()
            seq.append([float(v) for v in s.trans_probs.values()])
        lines.append(f"evo.adapt nstop={n_stop} nemit={n_emit} kind={kind} steps={steps}")
        recs.append((kind, n_emit, n_stop, keys, seq))
    # randomize_circuit's table (hybrid): read by running randomize_circuit with a recording np.random.choice
    for n_emit, g in ((1, nx.path_graph(3)), (2, nx.cycle_graph(4))):
        t = target_of(g)
        s = HybridEvolutionarySolver(target=t, metric=Infidelity(t), compiler=StabilizerCompiler(),
                                     solver_setting=EvolutionarySolverSetting(n_stop=1, n_pop=1, n_hof=1))
        seen = {}
        orig = np.random.choice

        def rec_choice(a, *args, **kw):
            # numpy: choice(a, size=None, replace=True, p=None) — the probabilities may arrive by keyword or as the 4th positional argument
            pr = kw["p"] if "p" in kw else (args[2] if len(args) > 2 else None)
            if pr is not None and not isinstance(a, int):
                seen["keys"] = [k.__name__ for k in a]
                seen["p"] = [float(x) for x in pr]
            return orig(a, *args, **kw)

        np.random.choice = rec_choice
        try:
            s.seed(3)
            pop = s.population_initialization()
        finally:
            np.random.choice = orig
        if "p" in seen:
            lines.append(f"evo.adapt nstop=1 nemit={n_emit} kind=randomize steps=0")
            recs.append(("randomize", n_emit, 1, seen["keys"], [seen["p"]]))
        else:
            # randomize_circuit draws its transformation with np.random.choice(list, p=table): not seeing that draw means the table is no
            # longer observed (another generator / another call shape) and this comparison would silently disappear
            res.exact_break("adapt:randomize-table-not-observed", input={"kind": "adapt", "solver": "randomize", "n_emitter": n_emit},
                            impl="population_initialization drew no transformation through np.random.choice(..., p=...)", model="the randomize table is drawn from")
    for rep, (kind, n_emit, n_stop, keys, seq) in zip(drv.batch(lines), recs):
        res.evaluations += 1
        inp = {"kind": "adapt", "solver": kind, "n_emitter": n_emit, "n_stop": n_stop}
        for p in seq:
            if abs(sum(p) - 1) > 1e-9 or min(p) <= 0:
                res.violation("adapt:not-a-distribution", "transformation probabilities are not a probability vector", input=inp, impl=str(p))
        m_keys = rep.get("keys", "").split(",")
        m_seq = [[float(Fraction(x)) for x in g.split(",")] for g in rep.get("probs", "").split("|")]
        ok = m_keys == keys and len(m_seq) == len(seq) and all(len(a) == len(b) and all(abs(x - y) < 1e-12 for x, y in zip(a, b)) for a, b in zip(seq, m_seq))
        if not ok:
            res.exact_break("adapt_probabilities", input=inp, impl=str((keys, seq[:3])), model=rep["_raw"][:400])
        res.nontrivial("adapt", kind, n_emit, n_stop)
        res.traces_validated += 1
    res.branch(["adapt"] * len(recs))


def synth_choice(ctx, res, drv):
    rng = ctx.rng
    lines, recs = [], []
    for _ in range(200 if ctx.quick else 2000):
        n = rng.randrange(1, 7)
        w = [rng.choice([0.25, 0.1, 0.5, rng.random()]) for _ in range(n)]
        tot = float(np.sum(w))
        p = [x * (1 / tot) for x in w]
        seed = rng.getrandbits(31)
        np.random.seed(seed)
        u = float(np.random.random_sample())
        np.random.seed(seed)
        idx = int(np.random.choice(n, p=p))
        lines.append(f"evo.choice p={','.join(eu.ratio(x) for x in p)} u={eu.ratio(u)}")
        recs.append((p, u, idx))
    for rep, (p, u, idx) in zip(drv.batch(lines), recs):
        res.evaluations += 1
        if rep["_status"] != "ok" or int(rep["idx"]) != idx:
            cdf = np.cumsum(p) / np.sum(p)
            if min(abs(cdf - u)) < 1e-12:
                res.count("errors", "choice:rounding-band")
                continue
            res.exact_break("np.random.choice", input={"p": p, "u": u}, impl=str(idx), model=rep["_raw"][:200])
        res.traces_validated += 1
    res.branch(["choice"] * len(recs))


def synth_sort_by(ctx, res, drv):
    """SolverResult.sort_by on a score column (rows must stay together, order stable)"""
    from graphiq.solvers.solver_result import SolverResult

    rng = ctx.rng
    lines, recs = [], []
    for _ in range(60 if ctx.quick else 600):
        n = rng.randrange(0, 8)
        keys = [rng.choice(SMALL_GRID + [float("inf"), 0.0]) for _ in range(n)]
        circuits = [FakeCircuit(3 + i) for i in range(n)]
        tags = [f"t{i}" for i in range(n)]
        sr = SolverResult(list(circuits), properties=["score", "tag"])
        sr["score"] = list(keys)
        sr["tag"] = list(tags)
        err = None
        try:
            sr.sort_by("score")
        except Exception as e:  # noqa: BLE001
            err = err_class(e)
        res.evaluations += 1
        inp = {"kind": "sort_by", "keys": [repr(k) for k in keys]}
        if err is not None:
            res.violation(f"sort_by:raises:{err}", "SolverResult.sort_by raised on a well-formed table", input=inp)
            continue
        order = [circuits.index(c) for c in sr["circuit"]]
        # direct oracle: rows intact, keys non-decreasing, stable
        if [sr["tag"][i] for i in range(n)] != [tags[j] for j in order] or [sr["score"][i] for i in range(n)] != [keys[j] for j in order] \
                or sorted(order) != list(range(n)):
            res.violation("sort_by:rows-torn", "sort_by separated a circuit from its properties", input=inp, impl=str(order))
        ks = [keys[j] for j in order]
        if any(a > b for a, b in zip(ks, ks[1:])):
            res.violation("sort_by:unsorted", "sort_by did not order the rows by the column", input=inp, impl=str(order))
        if any(keys[a] == keys[b] and a > b for a, b in zip(order, order[1:])):
            res.violation("sort_by:unstable", "sort_by swapped rows with equal keys", input=inp, impl=str(order))
        lines.append("evo.sort_by keys=" + (",".join(eu.ratio(k) for k in keys) or "-"))
        recs.append((inp, order))
    for rep, (inp, order) in zip(drv.batch(lines), recs):
        m = [] if rep.get("order", "-") == "-" else [int(x) for x in rep["order"].split(",")]
        if rep["_status"] != "ok" or m != order:
            res.exact_break("SolverResult.sort_by", input=inp, impl=str(order), model=rep["_raw"][:200])
        if len(set(inp["keys"])) > 1:
            res.nontrivial("sort_by", tuple(inp["keys"]))
        res.traces_validated += 1
    res.branch(["sort_by"] * len(recs))


# ---------------------------------------------------------------------------------------------------------------- 2 whole runs
def gen_jobs(ctx, n_jobs, long_small=0):
    rng = ctx.rng
    jobs = []
    graphs3 = ["p2", "p3", "k3"]
    graphs4 = ["p4", "s4", "c4", "paw", "dia", "k4"]
    for i in range(n_jobs):
        solver = "hybrid" if i % 2 else "evo"
        graph = rng.choice(graphs3 + graphs4 + graphs4)
        n = 1 + max(max(e) for e in eu.GRAPHS[graph])
        n_pop = rng.randrange(1, 9)
        w = rng.random()
        if w < 0.12:
            n_hof = min(4, n_pop + rng.randrange(1, 3))  # error path: n_hof > n_pop
        else:
            n_hof = rng.randrange(1, min(4, n_pop) + 1)
        job = {"solver": solver, "graph": graph, "n_emitter": rng.choice([1, 2]) if n > 2 else 1, "n_hof": n_hof, "n_pop": n_pop,
               "n_stop": rng.randrange(1, 11), "sel": rng.randrange(2), "adapt": rng.randrange(2),
               "k": rng.choice([2, 2, 2, 1, 3, 0]), "seed": rng.randrange(10 ** 6), "det": rng.choice([1, 1, 1, 0]),
               "backend": "s", "positions": 2}
        if i % 9 == 4 and n <= 3 and solver == "evo":
            # (HybridEvolutionarySolver + DensityMatrixCompiler always raises UnboundLocalError in Infidelity.evaluate: the
            # time-reversed solver converts the shared target to 's' in place and metrics.py then tests state.rep_data instead of
            # rep_data — outside C19, recorded in handoff/evo.md)
            job["backend"] = "dm"
        if i % 11 == 7:
            job["det"] = "p"
        if i % 23 == 5:
            job["n_pop"], job["n_hof"] = 0, 1          # malformed: empty population -> IndexError in update_logs
        if i % 29 == 7:
            job["n_hof"] = 0                             # malformed: empty hall of fame -> IndexError in update_logs
        if solver == "evo" and i % 8 == 2:
            # the public `circuit=` argument: population_initialization copies one given circuit n_pop times; the circuit is
            # built by the solver's own transformations and has large node ids
            job["bump"] = rng.randrange(1, 10 ** 6)
            job["bump_steps"] = rng.randrange(10, 60)
        jobs.append(job)
    # configurations that a uniform draw reaches too rarely (each needs a specific combination to matter):
    #  * the seed 0 — the only falsy seed (`if seed:` instead of `if seed is not None:` leaves the generators unseeded);
    #  * selection switched on with tournament_k = 0 — `tournament_selection` then hands back the very same population list, so whatever the
    #    hall of fame shares with the population is transformed in place in the next generation.
    #    (numpy's and Python's generators are seeded separately; Python's `random` is consumed only by the tournament, so the seed-0 jobs run
    #    with selection off AND on)
    for solver, sel in (("evo", 0), ("evo", 1), ("hybrid", 1)):
        jobs.append({"solver": solver, "graph": rng.choice(graphs3 + graphs4), "n_emitter": 1, "n_hof": rng.randrange(1, 4), "n_pop": rng.randrange(4, 8),
                     "n_stop": rng.randrange(4, 9), "sel": sel, "adapt": rng.randrange(2), "k": 2, "seed": 0, "det": 1, "backend": "s",
                     "positions": 0})
    for solver in ("evo", "evo", "hybrid"):
        jobs.append({"solver": solver, "graph": rng.choice(graphs3 + graphs4), "n_emitter": 1, "n_hof": rng.randrange(2, 5), "n_pop": rng.randrange(5, 9),
                     "n_stop": rng.randrange(5, 11), "sel": 1, "adapt": rng.randrange(2), "k": 0, "seed": rng.randrange(10 ** 6), "det": 1, "backend": "s",
                     "positions": 0})
    for i in range(long_small):
        jobs.append({"solver": "evo", "graph": rng.choice(["p2", "p3"]), "n_emitter": 1, "n_hof": rng.randrange(2, 7), "n_pop": rng.randrange(4, 11),
                     "n_stop": rng.randrange(30, 61) if ctx.quick else rng.randrange(40, 151), "sel": rng.randrange(2), "adapt": rng.randrange(2),
                     "k": 2, "seed": rng.randrange(10 ** 6), "det": 1, "backend": "s", "positions": 0})
    return jobs


WITNESS_JOB = {"solver": "evo", "graph": "p2", "n_emitter": 1, "n_hof": 6, "n_pop": 10, "n_stop": 150, "sel": 0, "adapt": 0, "k": 2,
               "seed": 149, "det": 1, "backend": "s", "positions": 0}


def cost(job):
    return job["n_stop"] * job["n_pop"] * (3 if job.get("backend") == "dm" else 1) + 5


def schedule(jobs, n_workers, extra=(), third=False):
    """-> tasks [(worker, job)], roles [(job index, role)]; run A and A2 on one worker, B (and C) on others"""
    load = [0] * n_workers
    tasks, roles = [], []
    order = sorted(range(len(jobs)), key=lambda i: -cost(jobs[i]))
    for i in order:
        a = min(range(n_workers), key=lambda w: load[w])
        load[a] += 2 * cost(jobs[i])
        b = min((w for w in range(n_workers) if w != a), key=lambda w: load[w])
        load[b] += cost(jobs[i])
        tasks += [(a, jobs[i]), (a, jobs[i]), (b, jobs[i])]
        roles += [(i, "A"), (i, "A2"), (i, "B")]
        if third and n_workers > 2:
            c = min((w for w in range(n_workers) if w not in (a, b)), key=lambda w: load[w])
            load[c] += cost(jobs[i])
            tasks.append((c, jobs[i]))
            roles.append((i, "C"))
    for w, job, role in extra:
        tasks.append((w, job))
        roles.append((job, role))
    return tasks, roles


def first_divergence(t1, t2):
    """-> (event index, description, cause) for two traces of the same job"""
    for k, (e1, e2) in enumerate(zip(t1, t2)):
        s1 = {kk: v for kk, v in e1.items() if kk != "positions"}
        s2 = {kk: v for kk, v in e2.items() if kk != "positions"}
        if s1 == s2:
            continue
        cause = "other"
        desc = f"event {k} ({e1.get('ev')}, generation {e1.get('gen')}) differs"
        # the transformations of this phase are logged with the next update_hof event (for `init`: the moves of
        # randomize_circuit are flushed into generation 0)
        u1 = next((e for e in t1[k:] if e.get("ev") == "update_hof"), None)
        u2 = next((e for e in t2[k:] if e.get("ev") == "update_hof"), None)
        if u1 is not None and u2 is not None:
            for m1, m2 in zip(u1.get("moves", []), u2.get("moves", [])):
                if m1 != m2:
                    if m1["t"] == m2["t"] and sorted(m1["c"]) == sorted(m2["c"]):
                        cause = f"candidate-order:{m1['t']}"
                        desc += f"; candidate list of {m1['t']} has the same members in a different order: {m1['c']} vs {m2['c']}"
                    break
        return k, desc, cause
    if len(t1) != len(t2):
        return min(len(t1), len(t2)), "traces have different lengths", "other"
    return None, "", "other"


def solve_line(job, out):
    """build the `evo.solve` request that replays the observed draw stream; returns (line, impl summary) or None"""
    tr = out.get("trace") or []
    init = [e for e in tr if e["ev"] == "init"]
    if not init:
        return None
    fps = {}

    def fpi(fp):
        if fp not in fps:
            fps[fp] = len(fps) + 1
        return fps[fp]

    init_s = ",".join(f"{d['n']}.{fpi(d['fp'])}" for d in init[0]["pop"]) or "-"
    ups = [e for e in tr if e["ev"] == "update_hof"]
    tos = {e["gen"]: e for e in tr if e["ev"] == "tournament"}
    gens = "|".join(",".join(f"{d['s']}:{d['n']}:{fpi(d['fp'])}" for d in e["pop"]) or "-" for e in ups) or "-"
    if job["sel"]:
        tourn = "|".join(",".join(".".join(map(str, dr)) for dr in tos[g]["draws"]) or "-" if g in tos else "-" for g in range(len(ups))) or "-"
    else:
        tourn = "-"
    kind = "hybrid" if job["solver"] == "hybrid" else "evo"
    line = (f"evo.solve nhof={job['n_hof']} nstop={job['n_stop']} npop={job['n_pop']} k={job.get('k', 2)} sel={job['sel']} adapt={job['adapt']} "
            f"nemit={out.get('n_emitter', job.get('n_emitter', 1))} kind={kind} init={init_s} gens={gens} tourn={tourn}")
    return line, fps


def partition(seq):
    m = {}
    return [None if x is None else m.setdefault(x, len(m)) for x in seq]


def compare_run(res, job, out, rep, fps):
    """exact correspondence of a traced run with the model's replay"""
    inp = {"kind": "job", "job": job}
    tr = out["trace"]
    ups = [e for e in tr if e["ev"] == "update_hof"]
    if "error" in out:
        # the run raised: the model must fail with the same class in the same generation
        gen_fail = len(ups) - 1 if ups else 0
        logs_done = len([e for e in tr if e["ev"] == "logs"])
        if len(ups) == logs_done:
            # raised while building the population, transforming, compiling or evaluating: these are parameters of the model
            # (Params.mutate / Params.metric are total), so there is nothing to compare; reproducibility of the failure is still checked
            res.count("errors", f"solve:raised-outside-model:{out['error']}")
            # ... but the model is still asked: for the malformed configurations it predicts an error class itself (and a well-formed one
            # raising is a violation, run_jobs_analyse); an error the model does not predict, or of another class, is a correspondence break
            if rep["_status"] != "err" or rep.get("_err") != out["error"]:
                res.exact_break("solve:error-stage", input=inp, impl=f"err {out['error']} before any update_hof / update_logs event of generation {logs_done}: {out.get('error_msg')}",
                                model=rep["_raw"][:300])
            return
        if rep["_status"] != "err" or rep.get("_err") != out["error"] or int(rep.get("gen", -1)) != max(gen_fail, logs_done):
            res.exact_break("solve:error-class", input=inp, impl=f"err {out['error']} after {len(ups)} update_hof / {logs_done} update_logs calls: {out.get('error_msg')}",
                            model=rep["_raw"][:300])
        return
    if rep["_status"] != "ok":
        res.exact_break("solve:error-class", input=inp, impl="ok", model=rep["_raw"][:300])
        return
    fp_of = fps
    m_hofs = [g.split(",") for g in rep["hofs"].split("|")] if rep.get("hofs", "-") != "-" else []
    m_pops = [g.split(",") if g != "-" else [] for g in rep["pops"].split("|")] if rep.get("pops", "-") != "-" else []
    tos = {e["gen"]: e for e in tr if e["ev"] == "tournament"}
    init = [e for e in tr if e["ev"] == "init"][0]
    impl_seq = [("o", d["o"]) for d in init["pop"]]
    model_seq = [("r", j) for j in range(len(init["pop"]))]
    ok = len(m_hofs) == len(ups)
    why = "" if ok else "number of generations"
    for g, e in enumerate(ups):
        if not ok:
            break
        mh = [x.split(":") for x in m_hofs[g]]
        ih = e["hof"]
        if len(mh) != len(ih):
            ok, why = False, f"hof length at generation {g}"
            break
        for (ms, mtag, mref), d in zip(mh, ih):
            if parse_score(ms) != parse_score(d["s"]) or (mtag == "none") != (d["fp"] == "none") or (mtag != "none" and int(mtag) != fp_of.get(d["fp"])):
                ok, why = False, f"hof entry at generation {g}"
            impl_seq.append(None if d["o"] is None else ("o", d["o"]))
            model_seq.append(None if mref == "none" else ("r", int(mref)))
        after = tos[g]["pop"] if g in tos else e["pop"]
        mp = m_pops[g] if g < len(m_pops) else []
        if len(mp) != len(after):
            ok, why = False, f"population size at generation {g}"
            break
        for d, r in zip(after, mp):
            impl_seq.append(("o", d["o"]))
            model_seq.append(("r", int(r)))
    if ok and partition(impl_seq) != partition(model_seq):
        ok, why = False, "aliasing structure (which entries are the same object)"
    if ok:
        ms, mtag, _ = rep["result"].split(":")
        r = out["result"]
        if r is None or parse_score(ms) != parse_score(r["s"]) or (mtag != "none" and int(mtag) != fp_of.get(r["fp"])):
            ok, why = False, "result"
    if ok and rep.get("same") != "1":
        ok, why = False, "model: solve and stepwise generations disagree"
    if ok:
        # transformation probabilities after each generation
        m_probs = [[float(Fraction(x)) for x in g.split(",")] for g in rep["probs"].split("|")] if rep.get("probs", "-") != "-" else []
        cur = init["probs"]
        ad = {e["gen"]: e for e in tr if e["ev"] == "adapt"}
        for g in range(len(ups)):
            if g in ad:
                cur = ad[g]["after"]
            if g < len(m_probs) and (len(cur) != len(m_probs[g]) or any(abs(x - y) > 1e-12 for x, y in zip(cur, m_probs[g]))):
                ok, why = False, f"transformation probabilities at generation {g}"
                break
        if job["adapt"] and len(ad) != len(ups):
            ok, why = False, "adapt_probabilities not called once per generation"
    if not ok:
        res.exact_break("solve", input=inp, impl=f"differs in: {why}", model=rep["_raw"][:600])
    res.count("sizes", f"coherent={rep.get('coherent')}")
    res.traces_validated += 1


def oracle_run(res, job, out):
    """direct oracle on one traced run of the implementation"""
    inp = {"kind": "job", "job": job, "hashseed": out.get("hashseed")}
    tr = out.get("trace") or []
    det = job.get("det", 1) in (0, 1)

    def bad(key, clause, **kw):
        res.violation(key, clause, input=inp, **kw)

    ups = [e for e in tr if e["ev"] == "update_hof"]
    n_hof = job["n_hof"]
    run_coherent = coherent([eu.unratio(d["s"]) for e in ups for d in e["pop"]] + [float("inf")])
    prev_best = None
    hof_obj_fp = {}
    for g, e in enumerate(ups):
        hof = e["hof"]
        ss = [eu.unratio(d["s"]) for d in hof]
        if len(hof) != n_hof:
            bad("solve:hof-length", f"hall of fame has {len(hof)} entries at generation {g}, n_hof={n_hof}")
        if any(not le_tol(a, b) for a, b in zip(ss, ss[1:])):
            bad("solve:hof-unsorted", f"hall of fame not ordered by non-decreasing score at generation {g}", impl=str(ss))
        if ss and prev_best is not None and not (ss[0] <= prev_best or np_close(ss[0], prev_best)):
            if run_coherent:
                bad("solve:best-got-worse", f"best score rose from {prev_best} to {ss[0]} at generation {g}")
            else:
                res.count("errors", "solve:best-moved-within-incoherent-scores")
        if ss:
            prev_best = ss[0]
        pop_objs = {d["o"] for d in e["pop"]}
        if len(pop_objs) != len(e["pop"]):
            bad("solve:population-shares-object", f"two population members are the same circuit object at generation {g}")
        for d in hof:
            if d["o"] is None:
                continue
            if d["o"] in pop_objs:
                bad("solve:hof-aliases-population", f"a hall-of-fame circuit is a population member's object at generation {g}")
            if d["o"] in hof_obj_fp and hof_obj_fp[d["o"]] != d["fp"]:
                bad("solve:hof-circuit-changed", f"a stored hall-of-fame circuit changed after it was stored (generation {g})")
            hof_obj_fp[d["o"]] = d["fp"]
            if det and "re" in d and abs(eu.unratio(d["re"]) - eu.unratio(d["s"])) > 1e-9:
                bad("solve:stored-score-dishonest", f"hall-of-fame score {eu.unratio(d['s'])} but its circuit re-evaluates to {eu.unratio(d['re'])} (generation {g})")
        hof_objs = [d["o"] for d in hof if d["o"] is not None]
        if len(set(hof_objs)) != len(hof_objs):
            bad("solve:hof-shares-object", f"two hall-of-fame entries are the same circuit object at generation {g}")
        if det:
            for j, d in enumerate(e["pop"]):
                if "re" in d and abs(eu.unratio(d["re"]) - eu.unratio(d["s"])) > 1e-9:
                    bad("solve:population-score-dishonest", f"population[{j}] has score {eu.unratio(d['s'])} but its circuit re-evaluates to {eu.unratio(d['re'])} (generation {g})")
        # every new hof entry's content is that of a population member of this generation with the same score
        before = {(d["o"]) for d in e["hof_before"] if d["o"] is not None}
        for d in hof:
            if d["o"] is not None and d["o"] not in before:
                if not any(p["fp"] == d["fp"] and p["s"] == d["s"] for p in e["pop"]):
                    bad("solve:hof-entry-from-nowhere", f"a new hall-of-fame entry is not (score, content) of a population member (generation {g})")
    if "error" in out:
        return
    # event order per generation
    evs = [e["ev"] for e in tr if e["ev"] != "init"]
    per = ["update_hof"] + (["adapt"] if job["adapt"] else []) + ["logs", "save"] + (["tournament"] if job["sel"] else [])
    if evs != per * job["n_stop"]:
        # the order of the steps inside a generation is not a clause of the property: it is part of the correspondence with the
        # model's `generation` (update_hof before selection is what the "keeps the best" theorems rest on)
        res.exact_break("solve:step-order", input=inp, impl=str(evs[:12]), model=str(per))
    # selection: new objects, honest copies
    for e in tr:
        if e["ev"] == "tournament" and job.get("k", 2) != 0:
            src_objs = {d["o"] for d in e["src"]}
            new_objs = [d["o"] for d in e["pop"]]
            if any(o in src_objs for o in new_objs) or len(set(new_objs)) != len(new_objs):
                bad("solve:selection-aliases", f"tournament selection returned shared or old circuit objects (generation {e['gen']})")
            for t, d in enumerate(e["pop"]):
                tour = e["draws"][t] if t < len(e["draws"]) else []
                cand = [e["src"][i] for i in tour if 0 <= i < len(e["src"])]
                if not cand or eu.unratio(d["s"]) != min(eu.unratio(c["s"]) for c in cand) or not any(c["fp"] == d["fp"] and c["s"] == d["s"] for c in cand):
                    bad("solve:selection-not-best", f"selected member {t} is not the best of its tournament (generation {e['gen']})")
    # result
    r = out.get("result")
    fh = out.get("final_hof") or []
    if r is None or not r["is_hof0_circuit"] or not r["is_hof0_score"]:
        bad("solve:result-not-hof0", "solver.result is not (hof[0][0], hof[0][1])")
    if fh:
        ss = [eu.unratio(d["s"]) for d in fh]
        if r is not None and any(eu.unratio(r["s"]) > s and not np_close(eu.unratio(r["s"]), s) for s in ss):
            bad("solve:result-not-best", "reported result is not the best entry of the hall of fame")
        if det:
            for i, d in enumerate(fh):
                if d["re"] is not None and abs(eu.unratio(d["re"]) - eu.unratio(d["s"])) > 1e-9:
                    bad("solve:stored-score-dishonest", f"final hof[{i}] has score {eu.unratio(d['s'])} but its circuit re-evaluates to {eu.unratio(d['re'])}",
                        circuit=d.get("text"))
        if ups and [(d["s"], d["fp"]) for d in fh] != [(d["s"], d["fp"]) for d in ups[-1]["hof"]]:
            bad("solve:hof-changed-after-last-generation", "final hall of fame differs from the one after the last update_hof")
    # logs
    logs = out.get("logs") or {}
    if "error" in logs:
        # the worker could not read solver.logs (evoutil.run_job): the clause "the logs agree with the hall of fame" would disappear silently
        bad("solve:logs-unreadable", f"solver.logs of a finished run cannot be read as (iteration, cost_min, cost_max, cost_mean) columns: {logs['error']}")
    if "hof" in logs and ups:
        cm = logs["hof"]["cost_min"]
        if len(cm) != len(ups) or any(abs(c - min(eu.unratio(d["s"]) for d in e["hof"])) > 1e-12 for c, e in zip(cm, ups)):
            bad("solve:logs-hof", "logs['hof'].cost_min is not the best hall-of-fame score per generation")
        pm = logs["population"]["cost_min"]
        if len(pm) != len(ups) or any(abs(c - min(eu.unratio(d["s"]) for d in e["pop"])) > 1e-12 for c, e in zip(pm, ups) if e["pop"]):
            bad("solve:logs-population", "logs['population'].cost_min is not the best population score per generation")


def positions_checks(res, drv, outs):
    lines, recs = [], []
    seen = set()
    for job, out in outs:
        for e in out.get("trace") or []:
            for p in e.get("positions", []) or []:
                if p["line"] in seen:
                    continue
                seen.add(p["line"])
                lines.append("evo.positions " + p["line"])
                recs.append((job, p))
    for rep, (job, p) in zip(drv.batch(lines), recs):
        res.evaluations += 1
        inp = {"kind": "positions", "dag": p["line"], "job": job}
        for key in ("cnot", "meas"):
            impl = p[key]
            model = rep.get(key, "?")
            if impl != model:
                if sorted(impl.split(",")) == sorted(model.split(",")):
                    res.violation(f"positions:{key}:order", f"_select_possible_{'cnot' if key == 'cnot' else 'measurement'}_position returns the right pairs in an order "
                                  "that is not the nested list order of edge_dict (set iteration?) — seeded runs then depend on hash order",
                                  input=inp, impl=impl[:600], model=model[:600])
                else:
                    res.exact_break(f"_select_possible_{key}_position", input=inp, impl=impl[:600], model=model[:600])
            elif impl != "-":
                res.nontrivial("pos", key, p["line"])
        res.traces_validated += 1
    res.branch(["positions"] * len(recs))


def _guard(f, box, *a):
    try:
        f(box, *a)
        return None
    except Exception as e:  # noqa: BLE001
        return e


def run_jobs(ctx, res, drv, pool, jobs, with_witness=True, node_order=True):
    box = {}
    run_jobs_collect(box, ctx, pool, jobs, with_witness, node_order)
    run_jobs_analyse(ctx, res, drv, pool, jobs, box["collected"])


def run_jobs_collect(box, ctx, pool, jobs, with_witness=True, node_order=True):
    """start everything that runs in the worker processes; -> box['collected'] = (roles, outs)"""
    extra = []
    if with_witness:
        extra += [(0, WITNESS_JOB, "W0"), (1, WITNESS_JOB, "W1")]
    no_jobs = []
    if node_order:
        for k, lo in enumerate((0, 40) if ctx.quick else range(0, 400, 40)):
            nj = {"kind": "node_order", "n_photon": 2 + (k % 3 == 2), "n_emitter": 1 + (k % 5 == 4), "seed_lo": lo, "seed_hi": lo + 40, "steps": 120}
            no_jobs.append(nj)
            extra += [((3 * k) % pool.n, nj, "N0"), ((3 * k + 1) % pool.n, nj, "N1"), ((3 * k + 2) % pool.n, nj, "N2")]
    tasks, roles = schedule(jobs, pool.n, extra, third=not ctx.quick)
    outs = pool.run(tasks)
    box["collected"] = (roles, outs)


def run_jobs_analyse(ctx, res, drv, pool, jobs, collected):
    roles, outs = collected
    by_job = {}
    wit = {}
    nod = {}
    for (ji, role), out in zip(roles, outs):
        if out is not None and "infra_error" in out and out.get("impl_error"):
            # the worker failed inside $REPO code outside solve() (reading solver.result / hof / to_openqasm after the run, or the
            # node-order walk): the implementation raising on a valid configuration, not an infrastructure failure
            res.count("errors", f"worker:raises:{out['impl_error']}")
            res.violation(f"solve:result-unreadable:{out['impl_error']}", f"reading the result of a finished run (or the transformation walk) raised: {str(out.get('infra_error'))[:200]}",
                          input={"kind": "job", "job": out.get("job"), "role": role}, where=str(out.get("tb", ""))[-400:])
            continue
        if out is None or "infra_error" in (out or {}):
            res.notes.append(f"infrastructure: worker failed on a job: {(out or {}).get('infra_error')}")
            res.extra["infra_failures"] = res.extra.get("infra_failures", 0) + 1
            continue
        if role in ("W0", "W1"):
            wit[role] = out
        elif role.startswith("N"):
            nod.setdefault(json.dumps(ji, sort_keys=True), {})[role] = out
        else:
            by_job.setdefault(ji, {})[role] = out
    # ---- per configuration: correspondence, oracle, reproducibility
    lines, recs = [], []
    n_runs_seen = 0
    for ji, runs in by_job.items():
        job = jobs[ji]
        a = runs.get("A")
        if a is None:
            res.count("errors", "solve:first-run-missing")  # the worker's failure is reported where it was received (infra / result-unreadable)
            continue
        res.evaluations += 1
        res.count("sizes", f"{job['solver']}:{job['graph']}")
        res.count("sizes", f"n_pop={job['n_pop']},n_hof={job['n_hof']}")
        if "error" in a:
            res.count("errors", f"solve:{a['error']}")
            if 0 < job["n_hof"] <= job["n_pop"]:
                res.notes.append(f"run raised {a.get('error_msg')} for job {job}")
                res.count("errors", "solve:unexpected:" + a["error"])
                # a well-formed configuration has a result (termination / 'the reported result is the best entry'): raising is a violation
                res.violation(f"solve:raises:{a['error']}", f"solve() raised on a well-formed configuration (0 < n_hof <= n_pop): {str(a.get('error_msg'))[:200]}",
                              input={"kind": "job", "job": job, "hashseed": a.get("hashseed")})
        for role, out in runs.items():
            oracle_run(res, job, out)
        sl = solve_line(job, a)
        n_runs_seen += 1
        if sl is not None:
            lines.append(sl[0])
            recs.append((job, a, sl[1]))
        elif "error" not in a:
            # a finished run without an `init` event in its trace (population_initialization renamed / bypassed) cannot be replayed by the
            # model: it used to be left out of the whole-run correspondence without a word
            res.count("errors", "solve:no-init-event")
            res.exact_break("solve:no-init-event", input={"kind": "job", "job": job}, impl="the traced run finished without a population_initialization event",
                            model="every run starts with population_initialization")
        # reproducibility
        for role in ("A2", "B", "C"):
            o = runs.get(role)
            if o is None:
                continue
            if o.get("digest") != a.get("digest") or o.get("error") != a.get("error"):
                k, desc, cause = first_divergence(a.get("trace") or [], o.get("trace") or [])
                if role == "A2":
                    res.violation("repro:in-process", "the same seeded configuration run twice in one process gives different runs: " + desc,
                                  input={"kind": "job", "job": job, "hashseeds": [a["hashseed"], a["hashseed"]]})
                else:
                    res.violation(f"repro:hashseed:{cause}", "the same seeded configuration gives different runs under different PYTHONHASHSEED: " + desc,
                                  input={"kind": "job", "job": job, "hashseeds": [a["hashseed"], o["hashseed"]]},
                                  final_hof_a=[(d["s"], d["fp"]) for d in a.get("final_hof", [])], final_hof_b=[(d["s"], d["fp"]) for d in o.get("final_hof", [])])
        ups = [e for e in (a.get("trace") or []) if e["ev"] == "update_hof"]
        if ups and any(d["o"] is not None for d in ups[-1]["hof"]):
            res.nontrivial("run", json.dumps(job, sort_keys=True))
    common.coverage_floor(res, "whole runs replayed by the model", len(lines), n_runs_seen, what="traced runs")
    for rep, (job, a, fps) in zip(drv.batch(lines), recs):
        compare_run(res, job, a, rep, fps)
        res.branch([f"solve:{job['solver']}:sel={job['sel']}:adapt={job['adapt']}"])
    if lines:
        res.sample(lines[0][:500])
    positions_checks(res, drv, [(jobs[ji], runs["A"]) for ji, runs in by_job.items() if "A" in runs])
    # ---- regression witness of the fixed node-order defect (see NODE_ORDER_KEY)
    if "W0" in wit and "W1" in wit:
        w0, w1 = wit["W0"], wit["W1"]
        res.evaluations += 1
        fh0 = [(d["s"], d["qasm"]) for d in w0.get("final_hof", [])]
        fh1 = [(d["s"], d["qasm"]) for d in w1.get("final_hof", [])]
        for w in (w0, w1):
            if "error" in w:
                # the witness configuration is well-formed and is not among `jobs`: two runs that raise identically have equal digests and
                # would be recorded as "identical"
                res.violation(f"solve:raises:{w['error']}", f"solve() raised on the (well-formed) regression configuration: {str(w.get('error_msg'))[:200]}",
                              input={"kind": "job", "job": WITNESS_JOB, "hashseed": w.get("hashseed")})
                break
        if w0.get("digest") != w1.get("digest"):
            k, desc, cause = first_divergence(w0.get("trace") or [], w1.get("trace") or [])
            res.violation(f"repro:hashseed:{cause}",
                          "the same seeded configuration gives different halls of fame under PYTHONHASHSEED=0 and 1: " + desc
                          if fh0 != fh1 else "the same seeded configuration gives different populations under PYTHONHASHSEED=0 and 1: " + desc,
                          input={"kind": "job", "job": WITNESS_JOB, "hashseeds": ["0", "1"]}, final_hof_differs=fh0 != fh1,
                          final_hof_a=fh0, final_hof_b=fh1)
            res.extra["witness_final_hof_differs"] = fh0 != fh1
        else:
            res.extra["witness_runs_identical"] = True
    for key, runs in nod.items():
        outs_ = [runs[r] for r in sorted(runs)]
        base = outs_[0]
        for o in outs_[1:]:
            res.evaluations += 1
            if o["recs"] != base["recs"]:
                d = next((x, y) for x, y in zip(base["recs"], o["recs"]) if x != y)
                which = "remove_op" if d[0][2] != d[1][2] else "replace_photon_one_qubit_op"
                res.violation(f"repro:hashseed:candidate-order:{which}",
                              f"the candidate list of {which} (get_node_{'exclude' if which == 'remove_op' else 'by'}_labels) for the same circuit has a different order under "
                              f"PYTHONHASHSEED={base['hashseed']} and {o['hashseed']}: {d[0][2 if which == 'remove_op' else 3]} vs {d[1][2 if which == 'remove_op' else 3]} "
                              f"(walk seed {d[0][0]}, step {d[0][1]})",
                              input={"kind": "node_order", "job": base["job"], "hashseeds": [base["hashseed"], o["hashseed"]]})
                break


# ---------------------------------------------------------------------------------------------------------------- entry points
def run(ctx):
    res = Result()
    res.rule = ("one evaluation = one call of the real function (np.isclose / update_hof / tournament_selection / adapt sequence / np.random.choice / "
                "_select_possible_*) or one traced seeded solver configuration (run 3x: twice in one process, once under another PYTHONHASHSEED); "
                "non-trivial = update_hof inserted at least one entry / tournament with k>0 over unequal scores / a run whose final hall of fame holds a circuit / "
                "a non-empty candidate list; distinct by full input")
    drv = Driver()
    pool = Pool(N_WORKERS)
    import time as _time

    phases = {}

    def timed(name, f, *a, **k):
        # every phase runs under common.impl_guard: the solver constructors, adapt_probabilities / seed / population_initialization and the
        # SolverResult calls of the unit streams are made outside a `try`; an exception of graphiq there is reported with the phase's name
        t0 = _time.time()
        with common.impl_guard(res, name, promise=True):
            f(*a, **k)
        phases[name] = round(_time.time() - t0, 1)

    try:
        jobs = gen_jobs(ctx, 44 if ctx.quick else 420, long_small=2 if ctx.quick else 40)
        # whole runs execute in the worker processes while the unit correspondences run in this process
        box = {}
        th = threading.Thread(target=lambda: box.update(err=_guard(run_jobs_collect, box, ctx, pool, jobs)), daemon=True)
        th.start()
        timed("isclose", synth_isclose, ctx, res, drv)
        timed("update_hof", synth_update_hof, ctx, res, drv)
        timed("tournament", synth_tournament, ctx, res, drv)
        timed("adapt", synth_adapt, ctx, res, drv)
        timed("choice", synth_choice, ctx, res, drv)
        timed("sort_by", synth_sort_by, ctx, res, drv)
        t0 = _time.time()
        th.join()
        phases["waiting_for_workers"] = round(_time.time() - t0, 1)
        if box.get("err"):
            raise box["err"]
        timed("runs_analysis", run_jobs_analyse, ctx, res, drv, pool, jobs, box["collected"])
        res.extra["phase_seconds"] = phases
        if res.extra.get("infra_failures"):
            raise RuntimeError(f"{res.extra['infra_failures']} worker job(s) failed for infrastructure reasons: {res.notes[:3]}")
        res.extra["configurations"] = len(jobs)
        res.extra["hashseeds"] = list(range(pool.n))
    finally:
        pool.close()
        res.extra["driver_lines"] = drv.n_lines
        drv.close()
    res.exhaustive = False
    res.notes.append("exhaustive part: update_hof on every population of length <= 2 (quick) / <= 3 (thorough) over a 6-score x 2-size grid from every "
                     "reached hall-of-fame state (two levels), n_hof <= 2 (quick) / <= 3 (thorough)")
    return res


def search(ctx, res, proof_broken):
    """proof or correspondence broke and the oracle found nothing yet: more of everything, oracle only matters"""
    drv = Driver()
    pool = Pool(N_WORKERS)
    try:
        synth_update_hof(ctx, res, drv, heavy=True)
        synth_tournament(ctx, res, drv)
        if not res.violations:
            jobs = gen_jobs(ctx, 80)
            run_jobs(ctx, res, drv, pool, jobs, with_witness=False, node_order=False)
    finally:
        pool.close()
        drv.close()


def replay(ctx, data):
    """re-evaluate the stored failing case on the implementation with the direct oracle; True = property holds on it"""
    v = data.get("violation") or {}
    inp = v.get("input") or {}
    res = Result()
    kind = inp.get("kind")
    if kind == "update_hof":
        solver = mk_solver(inp["n_hof"])
        solver.hof = [(float(s), None if n is None else FakeCircuit(n)) for s, n in inp["hof"]]
        pop = [(float(s), FakeCircuit(n)) for s, n in inp["pop"]]
        before = list(solver.hof)
        try:
            solver.update_hof(pop)
        except Exception as e:  # noqa: BLE001
            print("implementation raises", type(e).__name__, e)
            return False
        print("hall of fame after update_hof:", [(float(s), None if c is None else len(c.dag.nodes)) for s, c in solver.hof],
              describe_hof(before, pop, solver.hof))
        return oracle_update_hof(res, inp["n_hof"], before, pop, list(solver.hof), inp)
    if kind == "tournament":
        solver = mk_solver(2, inp["n_pop"])
        pop = [(float(s), FakeCircuit(3)) for s in inp["scores"]]
        pyrandom.seed(inp["seed"])
        new = solver.tournament_selection(pop, k=inp["k"])
        print("selected:", [float(s) for s, _ in new])
        return all(not any(c is p for _, p in pop) for _, c in new) and all(
            float(s) == min(float(pop[i][0]) for i in d) for (s, _), d in zip(new, inp["draws"])) if inp["k"] else True
    if kind in ("job", "node_order"):
        hs = [int(h) if str(h).isdigit() else 0 for h in inp.get("hashseeds", ["0", "1"])]
        pool = Pool(max(hs) + 1 if len(set(hs)) > 1 else max(hs) + 2)
        try:
            job = inp["job"]
            outs = pool.run([(hs[0], job), (hs[0] if hs[0] == hs[-1] else hs[-1], job)])
        finally:
            pool.close()
        if kind == "node_order":
            same = outs[0]["recs"] == outs[1]["recs"]
            print("candidate lists identical under both hash seeds:", same)
            return same
        for o in outs:
            oracle_run(res, job, o)
            print(f"PYTHONHASHSEED={o.get('hashseed')}: final hall of fame", [(d['s'], d['fp']) for d in o.get('final_hof', [])], "error:", o.get("error"))
        for vv in res.violations:
            print("oracle:", vv["key"], vv["clause"])
        same = outs[0].get("digest") == outs[1].get("digest")
        print("runs identical:", same)
        return same and not res.violations
    if kind == "positions":
        print("stored candidate lists (implementation vs model):", v.get("impl"), v.get("model"))
        return None
    return None
