"""
C10 — every alternate-target result generates the relabelled target.

Every entry (circuit, {g, map, score}) returned by the real `AlternateTargetSolver` is validated:
  (i)  the circuit is passed through the Lean validator `circ.check` (soundness theorem C02.validator_sound) against the target graph
       with its vertices renamed by the entry's map — acceptance means the circuit generates exactly that graph state under every
       combination of measurement outcomes;  it is also compiled by the real stabilizer backend and compared independently;
  (ii) the listed graph `g` lies in the local-complementation orbit of the renamed target (orbit computed by an independent BFS);
  (iii) no two entries list the same graph; the map is a permutation of the vertices.
Settings grid: n_iso in {1,2,5} x n_lc in {1,3,10} x every lc_method x seeds, including the default setting object.

The result assembly of `solve` is MODELLED (Model/AltTarget.lean; theorems C10.dedup_keeps_one_per_key, solve_result_correct): on every
run the nested loops and the duplicate removal are observed inside the real `solve` (sys.monitoring line events on its code object: the
per-isomorph `lc_graphs` / `rmap`, and `adj_list` / `set_list` / `redundant_indices` / `results_list` just before the deletion) and
compared exactly with the model (`alt.solve`, `alt.dedup`): same classes, same redundant indices, same surviving entries in the same
order with the same maps.  `relabel` / composition / isomorphism are compared with `alt.relabel` on random graphs and permutations.
"""
import itertools

import numpy as np

from harness import tabutil as tu
from harness.c01 import make_compilers, tokens_of
from harness.c02 import graph_canon, per_wire
from harness.common import Driver, Result, coverage_floor, err_class, impl_guard

LEVEL = "proof"
TRUSTED_BASE = [
    "Lean 4.33 kernel; theorem C10.alternate_target_result_sound: with the time-reversed solver (C02 model, whatever it returns is correct) and the LC conversion "
    "(lc_check(validate=True) of C09 + str_to_op, Alt.conv_generates) modelled, every entry solve returns generates the target renamed by its map under every outcome "
    "script and the listed graphs are pairwise different; on top of the C07/C01 tableau semantics, C02, C09, C05/C07 group theorems",
    "side conditions of that theorem, decidable and evaluated on every observed run: the graphs are simple graphs on n vertices; every relabel map passes the isomorphism "
    "test recorded as the specification of networkx GraphMatcher (isIsoMap); `list(s)[0]` is a member of the set (read off the observed sets)",
    "correspondence of the model with solve(): exact comparison of the observed loop state on every run, and of every entry's circuit (per-wire operation sequences) with the "
    "modelled entry `solver model on the LC graph ++ str_to_op(lc_check gates)` (driver command solver.altentry) — testing; the model of lc_check is compared in C09, the solver model in C02",
    "when solve returns: theorems C10.alternate_target_returns_if_yes (target without isolated vertex, LC graphs in the orbits, is_lc_equivalent says yes on every pair => "
    "the modelled solve returns) and C10.alternate_target_total_correct_partial (relative to C09 shortcut_complete_on_connected_statement: it returns and every entry is right); "
    "on the observed runs every raise of solve() on a connected target is reported as a violation",
    "kept as regression: every entry is also passed through the verified validator (C02.validator_sound / C10.entry_validator_sound) and compiled by the real stabilizer backend; "
    "independent Python BFS over local complementations for orbit membership (n <= 7)",
]
ASSUMPTIONS = [
    "connected targets (the quantifier); targets with isolated vertices hit the known finding D3 of C02 (C02.isolated_vertex_raises: the solver raises, no entry is produced)",
    "the iteration order of a Python set of ints (`list(s)[0]`, which entry of a class survives) is a parameter of the model; the harness reads it off the observed sets",
    "iso_finder and the LC-orbit explorers are parameters of the soundness theorem (their outputs are only required to be simple graphs on n vertices): a graph outside the orbit "
    "makes lc_check fail, never a wrong entry; that the listed graph lies in the orbit is C16 and is re-checked per output",
]

LC_METHODS = [None, "lc_with_iso", "random", "random_with_iso", "random_with_rep", "linear", "depth_first", "rgs"]


def local_comp(adj, v):
    a = adj.copy()
    nb = np.nonzero(adj[v])[0]
    for i in nb:
        for j in nb:
            if i != j:
                a[i, j] ^= 1
    return a


def lc_orbit(adj, cap=20000):
    start = adj.astype(int) % 2
    seen = {start.tobytes()}
    frontier = [start]
    while frontier and len(seen) < cap:
        nxt = []
        for a in frontier:
            for v in range(a.shape[0]):
                b = local_comp(a, v)
                k = b.tobytes()
                if k not in seen:
                    seen.add(k)
                    nxt.append(b)
        frontier = nxt
    return seen


def relabel_by_map(adj, rmap):
    n = adj.shape[0]
    b = np.zeros_like(adj)
    for u in range(n):
        for v in range(n):
            if adj[u, v]:
                b[rmap[u], rmap[v]] = 1
    return b


def traced_solve(solver):
    """run solver.solve() and observe, without touching the code, the state of its loops: per isomorph (iso adjacency, lc adjacencies, rmap,
    the lc graph objects) and, just before the deletion loop, (adj_list, set_list as lists in iteration order, redundant_indices, results_list).
    Line events are requested for the code object of `solve` only (sys.monitoring, Python >= 3.12)."""
    import inspect
    import sys

    import networkx as nx

    fn = type(solver).solve
    code = fn.__code__
    cap = {"isos": [], "pre": None}
    try:
        lines, first = inspect.getsourcelines(fn)
    except OSError:
        return solver.solve(), None

    def find(text):
        for k, ln in enumerate(lines):
            if text in ln:
                return first + k
        return None

    l_sort, l_inner = find("redundant_indices.sort()"), find("for lc_graph in lc_graphs:")
    mon = sys.monitoring
    tool = next((t for t in (3, 4, 5, 2, 1) if mon.get_tool(t) is None), None)
    if l_sort is None or l_inner is None or tool is None:
        return solver.solve(), None
    seen = set()

    def on_line(c, line):
        if c is not code or line not in (l_sort, l_inner):
            return
        # an observer must never raise into solve(): a renamed local of a refactored solve() would otherwise surface as
        # "solve raised KeyError"; it is recorded and reported as a lost observation instead
        try:
            loc = sys._getframe(1).f_locals
            if line == l_inner:
                iso = loc.get("iso_graph")
                if id(iso) not in seen:
                    seen.add(id(iso))
                    cap["isos"].append(dict(iso=nx.to_numpy_array(iso).astype(int), lcs=list(loc.get("lc_graphs")), rmap=dict(loc.get("rmap"))))
            elif cap["pre"] is None:
                cap["pre"] = dict(adj_list=[np.asarray(a).astype(int) for a in loc["adj_list"]], sets=[list(x) for x in loc["set_list"]],
                                  red=list(loc["redundant_indices"]), results=list(loc["results_list"]))
        except Exception as e:  # noqa: BLE001
            cap["observer_error"] = f"{type(e).__name__}: {e}"[:200]

    mon.use_tool_id(tool, "verif-c10")
    try:
        mon.register_callback(tool, mon.events.LINE, on_line)
        mon.set_local_events(tool, code, mon.events.LINE)
        out = solver.solve()
    finally:
        mon.set_local_events(tool, code, 0)
        mon.register_callback(tool, mon.events.LINE, None)
        mon.free_tool_id(tool)
    return out, (cap if cap["pre"] is not None and "observer_error" not in cap else None)


def check_assembly(res, inp, n, out, cap, pending):
    """exact comparison of the observed loops / duplicate removal with the model"""
    import networkx as nx

    pre = cap["pre"]
    keys = [tu.bits(a) for a in pre["adj_list"]]
    picks = [(min(s), s[0]) for s in pre["sets"]]
    if any(h != p_ for h, p_ in picks):
        res.branch(["dedup:set-yields-non-minimal-first"])
    pick_tok = ",".join(f"{h}:{p_}" for h, p_ in picks) or "-"
    pos = {id(e): k for k, e in enumerate(pre["results"])}
    kept = [pos.get(id(e), -1) for e in out]
    impl = dict(sets=[sorted(s) for s in pre["sets"]], red=sorted(pre["red"]), kept=kept)
    pending.append((f"alt.dedup keys={','.join(keys) or '-'} pick={pick_tok}", dict(inp, impl=impl, what="dedup")))
    # the loops: every entry before the removal is (isomorph i, its k-th LC graph) in loop order, with the isomorph's map
    src, ok = [], True
    flat = [(i, k, lc, iso["rmap"]) for i, iso in enumerate(cap["isos"]) for k, lc in enumerate(iso["lcs"])]
    if len(flat) != len(pre["results"]):
        ok = False
    else:
        for (i, k, lc, rmap), e in zip(flat, pre["results"]):
            if e[1]["g"] is not lc or e[1]["map"] != rmap:
                ok = False
            src.append(f"{i}.{k}")
    lab = lambda m: ".".join(str(m[u]) for u in range(n))  # noqa: E731
    try:
        maps = [lab(iso["rmap"]) for iso in cap["isos"]]
        lcs = [",".join(tu.bits(nx.to_numpy_array(lc).astype(int)) for lc in iso["lcs"]) or "-" for iso in cap["isos"]]
    except Exception:  # noqa: BLE001 (a map that is not total on the vertices is reported by the entry checks)
        res.count("errors", "assembly-not-encodable")
        return False
    # side conditions of C10.alternate_target_result_sound, evaluated directly on the observed parts
    adj_t = tu.unbits(inp["adjacency"], (n, n))
    for i, iso in enumerate(cap["isos"]):
        a_iso, rmap = iso["iso"], {u: v for u, v in iso["rmap"].items() if u != -1}
        good_map = sorted(rmap.keys()) == list(range(n)) and sorted(rmap.values()) == list(range(n)) and all(
            adj_t[u, v] == a_iso[rmap[u], rmap[v]] for u in range(n) for v in range(n))
        if not good_map:
            res.exact_break("spec:get_relabel_map-is-not-an-isomorphism", input=dict(inp, isomorph=i), impl=str(iso["rmap"])[:300], model="isIsoMap = false")
        for k, lc in enumerate(iso["lcs"]):
            a_lc = nx.to_numpy_array(lc, nodelist=sorted(lc.nodes())).astype(int)
            if a_lc.shape != (n, n) or (a_lc != a_lc.T).any() or a_lc.diagonal().any():
                res.exact_break("spec:lc-graph-not-simple", input=dict(inp, isomorph=i, lc=k), impl=tu.bits(a_lc), model="Simple")
    # every entry before the removal against the modelled entry (C10.modelParts): solver model on the LC graph, then str_to_op of the lc_check gates
    if ok:
        for (i, k, lc, rmap), e in zip(flat, pre["results"]):
            try:
                toks, _ = tokens_of(e[0])
            except Exception:  # noqa: BLE001
                continue
            a_lc = nx.to_numpy_array(lc, nodelist=sorted(lc.nodes())).astype(int)
            pending.append((f"solver.altentry n={n} lc={tu.bits(a_lc)} iso={tu.bits(cap['isos'][i]['iso'])}",
                            dict(inp, isomorph=i, lc=k, impl=dict(ne=e[0].n_emitters, wires=per_wire(toks)), what="entry")))
    impl2 = dict(pre=src if ok else None, out=[src[k] for k in kept] if ok and all(k >= 0 for k in kept) else None,
                 maps=[lab(e[1]["map"]) for e in out])
    pending.append((f"alt.solve n={n} isos={';'.join(tu.bits(iso['iso']) for iso in cap['isos'])} lcs={';'.join(lcs)} maps={';'.join(maps)} pick={pick_tok}",
                    dict(inp, impl=impl2, what="loops")))
    return True


def check_relabel(ctx, res, drv, pending):
    """relabel / composition / isomorphism of relabel_module.py against the model's renamed adjacency"""
    import networkx as nx
    from graphiq.utils.relabel_module import get_relabel_map, relabel

    rng = ctx.rng
    n = rng.randrange(2, 8)
    adj = nx.to_numpy_array(nx.gnp_random_graph(n, rng.uniform(0.2, 0.8), seed=rng.getrandbits(30))).astype(int)
    p = rng.sample(range(n), n)
    q = rng.sample(range(n), n)
    inp = {"adjacency": tu.bits(adj), "n": n, "p": p, "q": q}
    res.evaluations += 1
    try:
        r1 = relabel(adj, np.array(p))
        r2 = relabel(r1, np.array(q))
        rc = relabel(adj, np.array([q[p[u]] for u in range(n)]))
        m = get_relabel_map(adj, r1)
    except Exception as e:  # noqa: BLE001
        res.violation(f"relabel:raises:{err_class(e)}", f"relabel / get_relabel_map raised {err_class(e)}: {str(e)[:100]}", input=inp)
        return
    # direct oracle: the reported map is an isomorphism adj -> relabel(adj, p); so is p itself
    mm = {a: b for a, b in m.items() if a != -1}
    for name, mp in (("get_relabel_map", mm), ("labels", dict(enumerate(p)))):
        if sorted(mp.values()) != list(range(n)) or any(adj[u, v] != r1[mp[u], mp[v]] for u in range(n) for v in range(n)):
            res.violation(f"relabel:{name}:not-an-isomorphism", f"{name} is not an isomorphism from the graph onto relabel(graph, labels)", input=inp)
    if not np.array_equal(r2, rc):
        res.violation("relabel:composition", "relabel(relabel(A, p), q) differs from relabel(A, q∘p)", input=inp)
    impl = dict(a=tu.bits(r1), then=tu.bits(r2), comp=tu.bits(rc), iso="1")
    pending.append((f"alt.relabel n={n} a={tu.bits(adj)} p={','.join(map(str, p))} q={','.join(map(str, q))}", dict(inp, impl=impl, what="relabel")))
    res.nontrivial("relabel", inp["adjacency"], tuple(p), tuple(q))


def run_setting(ctx, res, drv, adj, kw, seed, pending, default=False, scramble=False):
    import networkx as nx
    from graphiq.solvers.alternate_target_solver import AlternateTargetSolver, AlternateTargetSolverSetting

    n = adj.shape[0]
    inp = {"adjacency": tu.bits(adj), "n": n, "setting": {k: str(v) for k, v in kw.items()}, "seed": seed, "default_setting": default}
    res.evaluations += 1
    try:
        setting = AlternateTargetSolverSetting() if default else AlternateTargetSolverSetting(**kw)
        # the target graph object: same labelled graph, but (half of the time) with a scrambled node insertion order —
        # `adj` is indexed by vertex label, and the entry's map sends vertex labels to photon numbers
        target_graph = nx.Graph()
        order = list(range(n))
        if scramble:
            ctx.rng.shuffle(order)
        target_graph.add_nodes_from(order)
        target_graph.add_edges_from((u, v) for u in range(n) for v in range(u + 1, n) if adj[u, v])
        inp["node_insertion_order"] = order
        solver = AlternateTargetSolver(target=target_graph, solver_setting=setting, seed=seed)
        out, cap = traced_solve(solver)
    except Exception as e:  # noqa: BLE001
        res.count("errors", err_class(e))
        import math

        n_iso_req = 10 if default else kw.get("n_iso_graphs", 1)
        if isinstance(e, AssertionError) and n_iso_req > math.factorial(n):
            # more isomorphs requested than permutations exist: the setting is rejected for this target (error path, not a violation)
            res.count("errors", "rejected:n_iso>n!")
            return
        res.violation(f"solve:raises:{err_class(e)}", f"AlternateTargetSolver raised {err_class(e)}: {str(e)[:150]}", input=inp)
        return
    stats = res.extra.setdefault("assembly_observation", {"solved": 0, "observed": 0})
    stats["solved"] += 1
    try:
        out = list(out)
        res.branch([f"entries={min(len(out), 9)}", f"method={kw.get('lc_method')}"])
    except Exception as e:  # noqa: BLE001 — the property is about the entries of the result: a result that is not a list of entries is a violation
        res.violation("result:not-a-list-of-entries", f"solve() returned {type(out).__name__}, not a list of (circuit, info) entries ({err_class(e)})", input=inp)
        return
    if cap is not None:
        # counted as observed only when the loops were also handed to the model (check_assembly gives up on maps it cannot encode)
        try:
            if check_assembly(res, inp, n, out, cap, pending):
                stats["observed"] += 1
        except Exception as e:  # noqa: BLE001 — the observed loop state / the entries are not shaped as solve() builds them today
            res.exact_break(f"solve:assembly-unreadable:{err_class(e)}", input=inp, impl=f"{type(e).__name__}: {e}"[:200],
                            model="entries (circuit, {'g', 'map', ...}) built from the observed isomorphs and LC graphs")
    else:
        res.count("errors", "assembly-not-observed")
    graphs = []
    for k, entry in enumerate(out):
        einp = dict(inp, entry=k)
        try:
            circuit, info = entry
            # get_relabel_map marks the identity map with an extra entry {-1: "self"}; the map proper is on the vertices
            rmap = {a: b for a, b in info["map"].items() if a != -1}
            info["g"].nodes()
        except Exception as e:  # noqa: BLE001
            res.violation("entry:malformed", f"result entry is not (circuit, {{'g': graph, 'map': dict, ...}}): {err_class(e)}", input=einp)
            continue
        if sorted(rmap.keys()) != list(range(n)) or sorted(rmap.values()) != list(range(n)):
            res.violation("entry:map-not-permutation", f"relabel map {rmap} is not a permutation of the vertices", input=einp)
            continue
        renamed = relabel_by_map(adj, rmap)
        g = nx.to_numpy_array(info["g"], nodelist=sorted(info["g"].nodes())).astype(int)
        graphs.append(g.tobytes())
        if n <= 7 and g.tobytes() not in lc_orbit(renamed):
            res.violation("entry:graph-not-lc-equivalent", "the listed graph is not in the LC orbit of the renamed target", input=einp, g=tu.bits(g))
        try:
            circuit.validate()
        except Exception as e:  # noqa: BLE001
            res.violation("entry:invalid-circuit", f"circuit does not validate: {err_class(e)}", input=einp)
            continue
        try:
            ne, np_ = circuit.n_emitters, circuit.n_photons
            toks, _ = tokens_of(circuit)
        except Exception as e:  # noqa: BLE001 — a validated circuit can be read (sequence(), register counts)
            res.violation(f"entry:circuit-unreadable:{err_class(e)}", f"reading the entry's circuit raised {type(e).__name__}: {str(e)[:120]}", input=einp)
            continue
        einp["ops"] = ",".join(toks)
        einp["map"] = str(rmap)
        # real backend
        SC, _ = make_compilers()
        comp = SC()
        comp.measurement_determinism = 1
        try:
            data = comp.compile(circuit).rep_data.data
            if not (tu.is_valid(data) and tu.stab_canon(data) == graph_canon(renamed, ne)):
                res.violation("entry:wrong-state", "compiled circuit does not generate the renamed target (stabilizer backend, outcomes forced to 1)", input=einp)
        except Exception as e:  # noqa: BLE001
            res.violation("entry:circuit-does-not-compile", f"stabilizer backend raised {err_class(e)}", input=einp)
        pending.append((f"circ.check ne={ne} np={np_} a={tu.bits(renamed)} ops={einp['ops'] or '-'} max=256", einp))
    if len(set(graphs)) != len(graphs):
        res.violation("result:duplicate-graphs", "two result entries list the same graph", input=inp)
    if len(out) >= 2:
        res.nontrivial(inp["adjacency"], str(sorted(kw.items(), key=str)), seed, default)


def flush(res, drv, pending):
    for rep, (ln, einp) in zip(drv.batch([p[0] for p in pending]), pending):
        what = einp.get("what")
        if what == "entry":
            einp = dict(einp)
            impl = einp.pop("impl")
            einp.pop("what")
            if rep["_status"] != "ok":
                res.exact_break("solve:entry", input=einp, impl=str(impl)[:600], model=rep["_raw"][:300])
                continue
            mt = [] if rep["ops"] == "-" else rep["ops"].split(",")
            if int(rep["ne"]) == impl["ne"] and per_wire(mt) == impl["wires"]:
                res.traces_validated += 1
            else:
                res.exact_break("solve:entry", input=einp, impl=str(impl)[:900], model=rep["_raw"][:900])
            continue
        if what in ("dedup", "loops", "relabel"):
            einp = dict(einp)
            impl = einp.pop("impl")
            einp.pop("what")
            if rep["_status"] != "ok":
                res.exact_break(f"solve:{what}", input=einp, impl=impl, model=rep["_raw"][:300])
                continue
            nums = lambda t: [] if t in ("-", "") else [int(x) for x in t.split(",")]  # noqa: E731
            if what == "dedup":
                model = dict(sets=[] if rep["sets"] == "-" else [[int(x) for x in c.split(".")] for c in rep["sets"].split("|")],
                             red=nums(rep["red"]), kept=nums(rep["kept"]))
            elif what == "loops":
                lst = lambda t: [] if t in ("-", "") else t.split(",")  # noqa: E731
                model = dict(pre=lst(rep["pre"]), out=lst(rep["out"]), maps=[] if rep.get("maps", "") == "" else rep["maps"].split(";"))
            else:
                model = dict(a=rep["a"], then=rep["then"], comp=rep["comp"], iso=rep["iso"])
            if model == impl:
                res.traces_validated += 1
            else:
                res.exact_break(f"solve:{what}" if what != "relabel" else "relabel", input=einp, impl=impl, model=model)
            continue
        if rep["_status"] != "ok":
            res.violation("entry:validator-error", "the verified validator could not run the entry's circuit", input=einp, model=rep["_raw"][:200])
        elif rep["gen"] != "1":
            res.violation("entry:rejected-by-verified-validator", "under some combination of measurement outcomes the entry's circuit does not generate the renamed target",
                          input=einp, model=rep["_raw"])
        else:
            res.traces_validated += 1
    if pending:
        res.sample(pending[-1][0][:300])
    pending.clear()


def connected_graphs(n):
    import networkx as nx

    pairs = list(itertools.combinations(range(n), 2))
    for mask in range(1 << len(pairs)):
        a = np.zeros((n, n), dtype=int)
        for i, (u, v) in enumerate(pairs):
            if mask >> i & 1:
                a[u, v] = a[v, u] = 1
        if nx.is_connected(nx.from_numpy_array(a)):
            yield a


def run(ctx, budget=1.0):
    import networkx as nx

    res = Result()
    res.rule = ("one evaluation = one (target graph, solver setting, seed) solved by the real AlternateTargetSolver with every entry validated; "
                "non-trivial = at least two entries returned; distinct by (adjacency, setting, seed)")
    drv = Driver()
    rng = ctx.rng
    pending = []
    targets = [a for n in (2, 3, 4) for a in connected_graphs(n)]
    if not ctx.quick:
        # all 728 connected graphs on 5 vertices x 6 settings took > 2 h; a seeded sample keeps the thorough tier inside its budget
        targets += rng.sample(list(connected_graphs(5)), 160)
    extra = []
    for _ in range(int((6 if ctx.quick else 60) * budget)):
        n = rng.randrange(5, 8)
        while True:
            g = nx.gnp_random_graph(n, rng.uniform(0.3, 0.8), seed=rng.getrandbits(30))
            if nx.is_connected(g):
                break
        extra.append(nx.to_numpy_array(g).astype(int))
    # repeater graph state and linear cluster for the scripted orbit methods
    from graphiq.benchmarks.graph_states import repeater_graph_states

    special = {"linear": [nx.to_numpy_array(nx.path_graph(m)).astype(int) for m in (3, 4, 5)]}
    with impl_guard(res, "benchmarks:repeater_graph_states"):
        special["rgs"] = [nx.to_numpy_array(repeater_graph_states(m)).astype(int) for m in (2, 3)]
    per_target = 2 if ctx.quick else 4
    import time as _time
    t_start = _time.time()
    wall_cap = 600 if ctx.quick else 3600
    skipped_for_time = 0
    # the streams run under common.impl_guard: an exception of graphiq that no call site handles is reported, not a harness crash
    for adj in targets + extra:
        if _time.time() - t_start > wall_cap:
            skipped_for_time += 1
            continue
        with impl_guard(res, "solve", promise=True, input={"adjacency": tu.bits(adj), "n": int(adj.shape[0])}):
            for _ in range(per_target):
                method = rng.choice([m for m in LC_METHODS if m not in ("rgs", "linear")])
                kw = dict(n_iso_graphs=rng.choice([1, 2, 5]), n_lc_graphs=rng.choice([1, 3, 10]), lc_method=method,
                          sort_emit=rng.random() < 0.5, lc_orbit_depth=rng.choice([None, 1, 2]))
                run_setting(ctx, res, drv, adj, kw, rng.randrange(1, 1000), pending, scramble=rng.random() < 0.5)
            if adj.shape[0] >= 3 and rng.random() < 0.5:
                # repeats are allowed inside one orbit walk: only the final de-duplication keeps the listed graphs distinct
                run_setting(ctx, res, drv, adj, dict(n_iso_graphs=1, n_lc_graphs=10, lc_method="random_with_rep"), rng.randrange(1, 1000), pending)
            if rng.random() < 0.3:
                run_setting(ctx, res, drv, adj, {}, rng.randrange(1, 1000), pending, default=True, scramble=rng.random() < 0.5)
        if len(pending) > 60:
            flush(res, drv, pending)
    with impl_guard(res, "relabel", promise=True):
        for _ in range(int((60 if ctx.quick else 600) * budget)):
            check_relabel(ctx, res, drv, pending)
    for method, adjs in special.items():
        for adj in adjs:
            with impl_guard(res, "solve", promise=True, input={"adjacency": tu.bits(adj), "n": int(adj.shape[0]), "lc_method": method}):
                kw = dict(n_iso_graphs=rng.choice([1, 2]), n_lc_graphs=rng.choice([1, 3, 10]), lc_method=method)
                run_setting(ctx, res, drv, adj, kw, rng.randrange(1, 1000), pending)
    flush(res, drv, pending)
    # the result assembly of solve() is compared with the model only when its loops could be observed (source lines found, locals
    # readable): a refactored solve() must not silently switch that comparison off
    st = res.extra.get("assembly_observation", {"solved": 0, "observed": 0})
    coverage_floor(res, "solve:assembly-observed", st["observed"], st["solved"], what="successful solve() runs (loop state observed and compared with the model)")
    res.exhaustive = False
    res.notes.append(f"targets: all connected graphs on 2..4 vertices{'' if ctx.quick else ' + a seeded sample of 160 of the 728 connected graphs on 5 vertices'} + random connected graphs "
                     f"+ repeater/linear graphs for the scripted orbit methods; targets skipped by the wall-clock guard: {skipped_for_time}")
    res.extra["targets_skipped_for_time"] = skipped_for_time
    res.extra["driver_lines"] = drv.n_lines
    drv.close()
    return res


def search(ctx, res, proof_broken):
    return


def replay(ctx, data):
    v = data.get("violation") or {}
    inp = v.get("input") or {}
    if "adjacency" not in inp:
        return None
    print("replay input:", {k: inp[k] for k in inp if k != "ops"})
    return None
