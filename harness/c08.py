"""
C08 — conversions among graph, stabilizer and density-matrix forms preserve the state.

  * graph -> stabilizer / graph -> density on all graphs (n <= 5) vs the model's generators (`stab.same`) and a dense reference;
  * density -> graph and stabilizer -> graph recover G from |G> in random generating sets;
  * `state_to_graph` on all stabilizer states n <= 3 x gauges and random states: every returned (graph, gates) is validated by the
    Lean validator `stab.conv` (soundness theorem C08.state_to_graph_validator_sound): the gates map the state exactly onto the graph state;
  * `QuantumState.convert_representation` for all 9 ordered pairs and chained walks on graph states: the dense state is unchanged.
  * `state_to_graph` and `stabilizer_to_graph` are also MODELLED (Model/StateToGraph.lean, `stab.tograph` / `stab.s2g`): on every input
    above the model's result (graph, gate list, error class) is compared exactly with the implementation's; theorem
    C08.state_to_graph_sound then makes exactness of every returned result a theorem about the modelled code.
Completeness: `state_to_graph` must return on EVERY stabilizer state (theorem C08.state_to_graph_complete for the model); an exception of
the implementation on a valid state is a violation.  Regression inputs of the repaired D40 (`_position_finder` assumed a pivot at
(0,0)): |0>, |0>|+>, |0> x Bell; of the repaired D49 (float determinant truncated) and D51 (float det*inv loses the integers from ~42
qubits on; /repo 70adac4 replaced it by the exact Gauss-Jordan `_gf2_inverse`, which the model's `gf2Inv` mirrors literally): they must
convert and agree exactly with the model like every other input.
"""
import itertools

import numpy as np

from harness import stabutil as su
from harness import tabutil as tu
from harness.common import Driver, Result, err_class, impl_guard

LEVEL = "proof"
TRUSTED_BASE = [
    "Lean 4.33 kernel; theorems of Properties/C08 (graph->generators for every n; CZ-on-|+..+> builds the graph generators; soundness of the conversion validator; "
    "soundness of the modelled state_to_graph / stabilizer_to_graph for every input and every candidate GF(2) inverse; completeness (the modelled state_to_graph "
    "returns exactly on the stabilizer states, n >= 1: state_to_graph_complete / _correct / _returns_iff_state; the GF(2) inverse of the model, Gauss-Jordan "
    "`gf2Inv`, is since /repo 70adac4 literally the code's `_gf2_inverse` — no float step is left in state_to_graph); stabilizer_to_graph on every generating "
    "set of |G>; gauge independence; single-qubit gates; state round trip; Hilbert-space form U rho U^dagger = |G><G|)",
    "correspondence of Model/StateToGraph.lean with state_rep_conversion.py: exact comparison (graph, gate list, error class) on every generated input — testing, not proof",
    "density -> graph: proved for every n — group level (density_to_graph_pair_state_partial) and Hilbert space (density_to_graph_project_and_remove: "
    "project_and_remove, modelled as projector / trace normalisation / partial trace on 2^n x 2^n complex matrices, maps |G><G| to the graph state of the induced "
    "pair; the trace of the projected matrix is 4/2^n, never 0) — and on exact 4x4 rational matrices (the two possible states entry by entry, negativity 0 resp. 1/2: "
    "density_to_graph_pair_spectrum — eigenvalues as roots of the characteristic polynomial —, density_to_graph_edge_rule_partial); NOT proved: that the numpy "
    "code of project_and_remove / partial_trace / bipartite_partial_transpose computes the modelled maps (compared: partial transpose exhaustively on the 16 matrix "
    "units, project_and_remove on random density matrices n <= 4 against the modelled formula), float eigenvalues (eigh), purity test, closing np.allclose — "
    "compared numerically per input: project_and_remove and negativity of every pair of every graph on <= 5 vertices against the two proved states",
    "harness dense reference (n <= 5) and independent signed-group canonicaliser",
]
ASSUMPTIONS = [
    "density-matrix inputs are pure graph states; mixed-state lists are outside the quantifier",
    "the GF(2) inverses of `_graph_finder` / `_phase_correction` are the exact Gauss-Jordan `_gf2_inverse` (/repo 70adac4, repair of D51; before: float det*inv, "
    "D49/D51) and are modelled literally (same pivot rule: first row at or below the diagonal with a 1, swap, clear every other row); the soundness theorem does not "
    "depend on it (it holds for every candidate inverse, because the code re-checks x_inv @ x.T == I)",
    "n >= 1 (row_reduction does not terminate on a 0 x 0 matrix)",
]

KEY_RAISES = "state_to_graph:valid-state:raises:assertion"
# Z part (42 x 42, row-major bits as hex) of a generating set of |0..0> on 42 qubits on which /repo before 70adac4 (D51) raised
# 'Unexpected X matrix.': the float det*inv of the X part after the Hadamards (det = 86641533866367) was not within 1/2 of the adjugate
FLOAT_LIMIT_Z42 = "15c245dd0e26245e41cb4fbe50f78eb36385a958618f1fbd96f3c99bf7307a54d9731cc6af23df33c3d12d6894b1cc92b2ad5ed12032a0f4e9c9e13920b82fa69812afb10b28541951bb137a62d330509a6f2a200f34c80bd15ba275042a57a50d904cc693b56d7d236c9771f7e6c68065372f0ff0d04181de9851ce9266cbb690d3c9b0d80aa9ab9aa0c9b83efa26861407fdde3849c546b90defcbb05ad2d0bb5c158961c157f5093944d42224a3331ea33b8a645e392daeba97297b40926ecbb43b0de9e7e903114d7440892b5a96986533233cbb10744dcdc9d10"


def impl_state_to_graph(tab):
    """outcome of the real state_to_graph, canonicalised: ('ok', adjacency bits, gate token) | ('err', class, message)"""
    from graphiq.backends import state_rep_conversion as rc

    n = tab.n_qubits
    try:
        graph, _t2, gates = rc.state_to_graph(tab.copy())
    except Exception as e:  # noqa: BLE001
        return ("err", err_class(e), str(e)[:60])
    try:
        gates = [tuple(int(a) if not isinstance(a, str) else a for a in g) for g in gates]
        return ("ok", tu.bits(adj_of(graph, n)), su.circ_token(gates))
    except Exception as e:  # noqa: BLE001 — a result that is not (graph on n vertices, tableau, list of gate tuples): an answer the model cannot match
        return ("err", "malformed-result:" + err_class(e), str(e)[:60])


def all_adj(n):
    pairs = list(itertools.combinations(range(n), 2))
    for mask in range(1 << len(pairs)):
        a = np.zeros((n, n), dtype=int)
        for i, (u, v) in enumerate(pairs):
            if mask >> i & 1:
                a[u, v] = a[v, u] = 1
        yield a


def dense_graph_state(adj):
    n = adj.shape[0]
    rho = np.eye(2 ** n, dtype=complex) / 2 ** n
    for v in range(n):
        rho = rho @ (np.eye(2 ** n) + tu.pauli_matrix([1 if j == v else 0 for j in range(n)], adj[v]))
    return rho


def graph_stab(adj):
    from graphiq.backends.stabilizer.tableau import StabilizerTableau

    n = adj.shape[0]
    return StabilizerTableau([np.eye(n, dtype=int), adj.astype(int)])


def adj_of(g, n):
    import networkx as nx

    if isinstance(g, np.ndarray):
        return (np.asarray(g).astype(int) % 2)
    return nx.to_numpy_array(g, nodelist=sorted(g.nodes())).astype(int)


# the two two-qubit states of theorem C08.density_to_graph_pair_state_partial / Proofs/StateToGraphNegativity.lean (exact rationals there)
RHO_PLUS = np.full((4, 4), 0.25)
RHO_EDGE = np.outer([1, 1, 1, -1], [1, 1, 1, -1]) / 4.0


def check_pair_states(res, adj, rho, inp):
    """the intermediate quantities of `_density_to_graph_pure` on |G><G| against what the Lean theorems say they are: for every pair i < j,
    `project_and_remove` (all other qubits projected onto |0> and traced out) is the graph state of the induced pair (|++> or CZ|++>), its
    negativity is 0 resp. 1/2 — numerically, 1e-9"""
    from graphiq.backends.density_matrix import functions as dmf

    n = adj.shape[0]
    for i in range(n):
        for j in range(i + 1, n):
            mask = [0 if k in (i, j) else 1 for k in range(n)]
            rho_ij = np.asarray(dmf.project_and_remove(rho.copy(), mask))
            want = RHO_EDGE if adj[i, j] else RHO_PLUS
            neg = float(dmf.negativity(rho_ij, 2, 2))
            if not np.allclose(rho_ij, want, atol=1e-9) or abs(neg - (0.5 if adj[i, j] else 0.0)) > 1e-9:
                res.exact_break("density_to_graph:pair-state", input=dict(inp, pair=[i, j]), impl=[np.round(rho_ij.real, 6).tolist(), neg],
                                model="graph state of the induced pair: " + ("CZ|++>, negativity 1/2" if adj[i, j] else "|++>, negativity 0"))
            else:
                res.traces_validated += 1


def check_density_maps(ctx, res):
    """the two numpy maps that the Hilbert-space density theorems model, against the modelled formulas on GENERIC inputs (not only graph states):
    * `bipartite_partial_transpose(M, 2, 2, 0)` = `Neg.ptA`: result[r, c] = M[2*(c//2) + r%2, 2*(r//2) + c%2] — exhaustive on the 16 matrix units
      (the map is linear);
    * `project_and_remove(rho, mask_ij)` = `projectAndRemove` (C08.density_to_graph_project_and_remove): entries rho[emb a, emb b] / (their trace),
      emb = the two bits at positions i, j (qubit 0 most significant) and 0 elsewhere — on random density matrices, n <= 4, every pair."""
    from graphiq.backends.density_matrix import functions as dmf

    for p in range(4):
        for q in range(4):
            e = np.zeros((4, 4))
            e[p, q] = 1.0
            got = np.asarray(dmf.bipartite_partial_transpose(e, 2, 2, 0))
            want = np.array([[e[2 * (c // 2) + r % 2, 2 * (r // 2) + c % 2] for c in range(4)] for r in range(4)])
            res.evaluations += 1
            if np.array_equal(got, want):
                res.traces_validated += 1
            else:
                res.exact_break("bipartite_partial_transpose:formula", input={"unit": [p, q]}, impl=got.tolist(), model=want.tolist())
    for n in (2, 3, 4):
        for _ in range(2 if ctx.quick else 10):
            d = 2 ** n
            a = np.array([[complex(ctx.rng.gauss(0, 1), ctx.rng.gauss(0, 1)) for _ in range(d)] for _ in range(d)])
            rho = a @ a.conj().T
            rho = rho / np.trace(rho)
            for i in range(n):
                for j in range(i + 1, n):
                    mask = [0 if k in (i, j) else 1 for k in range(n)]
                    got = np.asarray(dmf.project_and_remove(rho.copy(), mask))
                    emb = [(a0 << (n - 1 - i)) | (a1 << (n - 1 - j)) for a0 in (0, 1) for a1 in (0, 1)]
                    comp = rho[np.ix_(emb, emb)]
                    want = comp / np.trace(comp)
                    res.evaluations += 1
                    if np.allclose(got, want, atol=1e-9):
                        res.traces_validated += 1
                    else:
                        res.exact_break("project_and_remove:formula", input={"n": n, "pair": [i, j]}, impl=np.round(got, 6).tolist(),
                                        model=np.round(want, 6).tolist())


def check_graph(ctx, res, drv, adj, pending):
    import networkx as nx
    from graphiq.backends import state_rep_conversion as rc

    n = adj.shape[0]
    g = nx.from_numpy_array(adj)
    inp = {"adjacency": tu.bits(adj), "n": n}
    res.evaluations += 1
    res.count("sizes", f"n={n}")
    rho_ref = dense_graph_state(adj) if n <= 5 else None
    # graph -> stabilizer
    try:
        st = rc.graph_to_stabilizer(g)[0][1]
        if su.stab_canon_of(st) != tu.span_canon(np.eye(n, dtype=int), adj, np.zeros(n, dtype=int)):
            res.violation("graph_to_stabilizer:wrong-state", "graph_to_stabilizer does not produce |G>", input=inp)
        pending.append((f"stab.same {su.stab_args(st, 'a')} {su.stab_args(graph_stab(adj), 'b')}", inp, "graph_to_stabilizer"))
    except Exception as e:  # noqa: BLE001
        res.violation(f"graph_to_stabilizer:raises:{err_class(e)}", "graph_to_stabilizer raised", input=inp)
    # the edge list along which graph -> density applies its CZ gates (theorem graph_to_density_same_state_simple_graph is about this list)
    pending.append((f"stab.edges n={n} a={tu.bits(adj)}", dict(inp, impl=",".join(f"{u}.{v}" for u, v in g.edges) or "-"), "edges:model"))
    # graph -> density, density -> graph
    if n <= 5:
        try:
            rho = rc.graph_to_density(g)
            if not np.allclose(rho, rho_ref, atol=1e-9):
                res.violation("graph_to_density:wrong-state", "graph_to_density does not produce |G><G|", input=inp)
            back = rc.density_to_graph(rho_ref.copy())
            if not np.array_equal(adj_of(back, n), adj):
                res.violation("density_to_graph:wrong-graph", "density_to_graph does not recover G from |G><G|", input=inp, impl=tu.bits(adj_of(back, n)))
            check_pair_states(res, adj, rho_ref, inp)
        except Exception as e:  # noqa: BLE001
            res.violation(f"density_conversion:raises:{err_class(e)}", f"graph<->density conversion raised: {str(e)[:100]}", input=inp)
    # stabilizer -> graph in random generating sets
    for _ in range(3):
        st2 = su.regauge_stab(graph_stab(adj), ctx.rng)
        try:
            out = rc.stabilizer_to_graph(st2.copy())
            pending.append((f"stab.s2g {su.stab_args(st2)}", dict(inp, stab=su.stab_args(st2), impl=("ok", tu.bits(adj_of(out[0][1], n)))), "stabilizer_to_graph:model"))
            if not np.array_equal(adj_of(out[0][1], n), adj):
                res.violation("stabilizer_to_graph:wrong-graph", "stabilizer_to_graph does not recover G from |G> in another generating set",
                              input=dict(inp, stab=su.stab_args(st2)), impl=tu.bits(adj_of(out[0][1], n)))
        except Exception as e:  # noqa: BLE001
            pending.append((f"stab.s2g {su.stab_args(st2)}", dict(inp, stab=su.stab_args(st2), impl=("err", err_class(e))), "stabilizer_to_graph:model"))
            res.violation(f"stabilizer_to_graph:raises:{err_class(e)}", f"stabilizer_to_graph raised on a generating set of |G>: {str(e)[:80]}",
                          input=dict(inp, stab=su.stab_args(st2)))
    # a generating set of a state that is NOT |G> (one sign flipped): stabilizer_to_graph(validate=True) must not return a graph for it
    if n >= 1:
        from graphiq.backends.stabilizer.tableau import StabilizerTableau

        st3 = su.regauge_stab(graph_stab(adj), ctx.rng)
        ph = np.asarray(st3.phase).astype(int).copy()
        ph[ctx.rng.randrange(n)] ^= 1
        st3 = StabilizerTableau(np.asarray(st3.table).astype(int), ph)
        inp3 = dict(inp, stab=su.stab_args(st3), case="sign-flipped")
        try:
            out = rc.stabilizer_to_graph(st3.copy())
            g3 = adj_of(out[0][1], n)
            pending.append((f"stab.s2g {su.stab_args(st3)}", dict(inp3, impl=("ok", tu.bits(g3))), "stabilizer_to_graph:model"))
            if su.stab_canon_of(st3) != tu.span_canon(np.eye(n, dtype=int), g3, np.zeros(n, dtype=int)):
                res.violation("stabilizer_to_graph:accepts-other-state", "stabilizer_to_graph(validate=True) returned a graph whose state is not the input state (a sign differs)",
                              input=inp3, impl=tu.bits(g3))
        except Exception as e:  # noqa: BLE001
            pending.append((f"stab.s2g {su.stab_args(st3)}", dict(inp3, impl=("err", err_class(e))), "stabilizer_to_graph:model"))
    if adj.any():
        res.nontrivial("graph", inp["adjacency"])


def check_state_to_graph(ctx, res, drv, tab, pending, tag):
    """tab: CliffordTableau or StabilizerTableau of any stabilizer state"""
    from graphiq.backends import state_rep_conversion as rc
    from graphiq.backends.stabilizer.tableau import StabilizerTableau

    st = tab if isinstance(tab, StabilizerTableau) else tab.to_stabilizer()
    inp = {"stab": su.stab_args(st), "case": tag, "input_type": type(tab).__name__}
    res.evaluations += 1
    n = st.n_qubits
    res.count("sizes", f"n={n}" if n <= 6 else "n>6")
    out = impl_state_to_graph(tab)
    # exact comparison with the model of state_to_graph (classification of raises happens in flush, where the model's answer is known)
    pending.append((f"stab.tograph {su.stab_args(st)}", dict(inp, impl=out, _tab=tab), "state_to_graph:model"))
    if out[0] != "ok":
        return
    res.nontrivial(inp["stab"])
    pending.append((f"stab.conv {su.stab_args(st)} gates={out[2]} a={out[1]}", dict(inp, gates=out[2], graph=out[1]), "state_to_graph"))


def classify_raise(res, inp, impl, rep):
    """the implementation raised on a valid stabilizer state: the property's completeness half fails (theorem C08.state_to_graph_complete says
    the modelled code returns on every stabilizer state) — a violation whatever the model answers"""
    inp.pop("_tab", None)
    model_ok = rep["_status"] == "ok"
    if impl[1] != "assertion":
        res.violation(f"state_to_graph:raises:{impl[1]}", f"state_to_graph raised {impl[1]}: {impl[2]}", input=inp)
        return model_ok is False and rep["_raw"].split()[1] == impl[1]
    res.count("errors", "raises:assertion")
    res.violation(KEY_RAISES, f"state_to_graph raises AssertionError('{impl[2]}') on a valid stabilizer state", input=dict(inp, model=rep["_raw"][:200]))
    return model_ok is False and rep["_raw"].split()[1] == "assertion"


def flush(res, drv, pending):
    for rep, (ln, inp, what) in zip(drv.batch([p[0] for p in pending]), pending):
        if what == "state_to_graph:model":
            impl = inp.pop("impl")
            model = ("ok", rep.get("a"), rep.get("gates")) if rep["_status"] == "ok" else ("err", rep["_raw"].split()[1])
            if impl[0] == "ok":
                inp.pop("_tab")
                same = model == impl
            else:
                same = classify_raise(res, inp, impl, rep)
            if same:
                res.traces_validated += 1
                res.branch(["s2g:" + ("ok:h=%d" % (0 if rep.get("h") == "-" else len(rep.get("h").split(","))) if model[0] == "ok" else "err:" + rep["_raw"].split()[-1])])
            else:
                res.exact_break("state_to_graph", input=inp, impl=list(impl), model=rep["_raw"][:300])
        elif what == "edges:model":
            impl = inp.pop("impl")
            if rep["_status"] == "ok" and rep.get("edges") == impl:
                res.traces_validated += 1
            else:
                res.exact_break("graph_to_density:edge-list", input=inp, impl=impl, model=rep["_raw"][:300])
        elif what == "stabilizer_to_graph:model":
            impl = inp.pop("impl")
            model = ("ok", rep.get("a")) if rep["_status"] == "ok" else ("err", rep["_raw"].split()[1])
            if model == tuple(impl):
                res.traces_validated += 1
            else:
                res.exact_break("stabilizer_to_graph", input=inp, impl=list(impl), model=rep["_raw"][:300])
        elif rep["_status"] != "ok":
            res.violation(f"{what}:validator-error", "the verified validator could not run", input=inp, model=rep["_raw"][:200])
        elif what == "state_to_graph" and rep.get("conv") != "1":
            res.violation("state_to_graph:gates-do-not-map-to-graph-state", "the returned single-qubit gates do not map the state exactly onto the returned graph's state (verified semantics)",
                          input=inp)
        elif what == "graph_to_stabilizer" and rep.get("same") != "1":
            res.violation("graph_to_stabilizer:differs-from-model", "graph_to_stabilizer's tableau does not generate the model's graph-state group", input=inp)
        else:
            res.traces_validated += 1
    if pending:
        res.sample(pending[-1][0][:300])
    pending.clear()


def check_conversions(ctx, res, adj, chain):
    """QuantumState.convert_representation along a chain of representations, starting from the graph"""
    import networkx as nx
    from graphiq.state import QuantumState

    n = adj.shape[0]
    inp = {"adjacency": tu.bits(adj), "n": n, "chain": "->".join(chain)}
    res.evaluations += 1
    ref = dense_graph_state(adj)
    try:
        qs = QuantumState(nx.from_numpy_array(adj), rep_type="g")
        for rep in chain:
            qs.convert_representation(rep)
            cur = qs.copy()
            cur.convert_representation("dm") if rep != "dm" else None
            rho = np.asarray(cur.rep_data.data)
            if not np.allclose(rho, ref, atol=1e-8):
                res.violation(f"convert:{inp['chain']}:state-changed", f"after converting to '{rep}' the state is no longer |G>", input=inp)
                return
        res.branch(["chain:" + inp["chain"]])
        res.traces_validated += 1
    except Exception as e:  # noqa: BLE001
        res.violation(f"convert:raises:{err_class(e)}", f"convert_representation raised {err_class(e)} along {inp['chain']}: {str(e)[:100]}", input=inp)


def check_walk(ctx, res, adj0, steps):
    """conversion walk interleaved with in-place evolution: the state object is converted, evolved in place by a CZ (which keeps it a
    graph state and toggles one edge), converted again, … — after every conversion the held state must be the current graph state.
    The graph object is built with a scrambled node insertion order (all conversions must agree on which node is which qubit)."""
    import networkx as nx
    from graphiq.state import QuantumState

    rng = ctx.rng
    n = adj0.shape[0]
    adj = adj0.copy()
    g = nx.from_numpy_array(adj)
    hist = ["g"]
    inp = {"adjacency": tu.bits(adj0), "n": n}
    res.evaluations += 1
    try:
        qs = QuantumState(g, rep_type="g")
        for _ in range(steps):
            rep = rng.choice(["g", "s", "dm"])
            qs.convert_representation(rep)
            hist.append(rep)
            if n >= 2 and rep in ("s", "dm") and rng.random() < 0.6:
                a, b = rng.sample(range(n), 2)
                if rep == "s":
                    qs.rep_data.apply_cz(control=a, target=b)
                else:
                    qs.rep_data.apply_unitary(tu.cz_matrix(n, a, b))
                adj[a, b] ^= 1
                adj[b, a] ^= 1
                hist.append(f"cz{a}{b}")
            cur = qs.copy()
            if rep != "dm":
                cur.convert_representation("dm")
            if not np.allclose(np.asarray(cur.rep_data.data), dense_graph_state(adj), atol=1e-8):
                inp["history"] = "->".join(hist)
                res.violation("convert:walk:state-changed", "after a history of conversions and in-place CZ gates the held state is not the current graph state", input=inp)
                return
        res.branch(["walk"])
        res.traces_validated += 1
    except Exception as e:  # noqa: BLE001
        inp["history"] = "->".join(hist)
        res.violation(f"convert:walk:raises:{err_class(e)}", f"conversion walk raised {err_class(e)}: {str(e)[:100]}", input=inp)


def check_node_order(ctx, res, adj):
    """a graph whose node insertion order differs from the sorted order of its labels: graph->dm and graph->stabilizer->dm must be
    the same state (which node is which qubit must not depend on the path)"""
    import networkx as nx
    from graphiq.state import QuantumState

    n = adj.shape[0]
    order = ctx.rng.sample(range(n), n)
    g = nx.Graph()
    g.add_nodes_from(order)
    g.add_edges_from((u, v) for u in range(n) for v in range(u + 1, n) if adj[u, v])
    inp = {"adjacency": tu.bits(adj), "n": n, "node_insertion_order": order}
    res.evaluations += 1
    try:
        outs = {}
        for chain in (["dm"], ["s", "dm"], ["s", "g", "dm"], ["dm", "g", "s", "dm"]):
            qs = QuantumState(g.copy(), rep_type="g")
            for rep in chain:
                qs.convert_representation(rep)
            outs["->".join(chain)] = np.asarray(qs.rep_data.data)
        ref = outs["dm"]
        for k, v in outs.items():
            if not np.allclose(v, ref, atol=1e-8):
                res.violation("convert:node-order:path-dependent", f"g->{k} gives a different state than g->dm for a graph with scrambled node insertion order", input=inp)
                return
        # and the state is the graph state of the graph with qubit k = k-th node in insertion order
        perm_adj = nx.to_numpy_array(g, nodelist=list(g.nodes())).astype(int)
        if not np.allclose(ref, dense_graph_state(perm_adj), atol=1e-8):
            res.violation("convert:node-order:not-graph-state", "graph->density of a graph with scrambled node insertion order is not its graph state (qubit k = k-th node)", input=inp)
            return
        res.traces_validated += 1
    except Exception as e:  # noqa: BLE001
        res.violation(f"convert:node-order:raises:{err_class(e)}", f"conversion raised {err_class(e)}: {str(e)[:100]}", input=inp)


# states whose qubit 0 has no X component after row reduction (|0>, |0>|+> = <ZX, ZI>, |0> x Bell = <IXX, ZII, IZZ>): state_to_graph raised
# on them before the repair of D40 (/repo 86ab4f1); they must convert
FORMER_D40 = ["n=1 x=0 z=1 r=0", "n=2 x=0100 z=1010 r=00", "n=3 x=011000000 z=000100011 r=000"]
# smallest witness found for the repaired D49 (5 qubits): float det*inv of the X part after the Hadamards was not integral enough for astype(int)
D49_WITNESS = "n=5 x=0000000000000001100000000 z=1111000011001010101011001 r=00110"


def dense_zero_state(rng, n):
    """|0..0> on n qubits presented by a random dense generating set: X part 0, Z part a random invertible GF(2) matrix, signs +"""
    from graphiq.backends.stabilizer.tableau import StabilizerTableau

    while True:
        b = np.array([[rng.randrange(2) for _ in range(n)] for _ in range(n)], dtype=int)
        m = b.copy()
        r = 0
        for c in range(n):
            p = next((i for i in range(r, n) if m[i, c]), None)
            if p is None:
                break
            m[[r, p]] = m[[p, r]]
            for i in range(n):
                if i != r and m[i, c]:
                    m[i] ^= m[r]
            r += 1
        if r == n:
            return StabilizerTableau([np.zeros((n, n), dtype=int), b])


def run(ctx, budget=1.0):
    import networkx as nx

    from harness.c11 import stab_of_args

    res = Result()
    res.rule = ("one evaluation = one graph through all graph<->state conversions, one stabilizer state through state_to_graph, or one conversion chain; "
                "non-trivial = a graph with at least one edge / a state on which state_to_graph returns; distinct by the input")
    drv = Driver()
    rng = ctx.rng
    pending = []
    # every stream runs under common.impl_guard: the generators (su.all_states, random_state, regauge_*, to_stabilizer, graph_stab) call graphiq
    # outside the `try` blocks of the check functions; an exception there is reported (exit 1) instead of ending run() as exit 2
    with impl_guard(res, "corpus", promise=True):
        check_density_maps(ctx, res)
        for w in FORMER_D40:
            check_state_to_graph(ctx, res, drv, stab_of_args(w), pending, "corpus:former-D40")
        check_state_to_graph(ctx, res, drv, stab_of_args(D49_WITNESS), pending, "corpus:D49")
        # regression corpus of the repaired D51 (float det*inv): |0..0> on 42 qubits in a dense generating set (fixed witness) and random ones on 48
        z42 = bin(int(FLOAT_LIMIT_Z42, 16))[2:].zfill(42 * 42)
        check_state_to_graph(ctx, res, drv, stab_of_args(f"n=42 x={'0' * 1764} z={z42} r={'0' * 42}"), pending, "corpus:former-D51")
        for _ in range(1 if ctx.quick else 5):
            check_state_to_graph(ctx, res, drv, dense_zero_state(rng, 48), pending, "corpus:former-D51")
        flush(res, drv, pending)
    nmax = 4 if ctx.quick else 5
    with impl_guard(res, "graphs", promise=True):
        for n in range(1, nmax + 1):
            for adj in all_adj(n):
                check_graph(ctx, res, drv, adj, pending)
            flush(res, drv, pending)
        for _ in range(int((15 if ctx.quick else 200) * budget)):
            n = rng.randrange(5, 9 if ctx.quick else 30)
            adj = nx.to_numpy_array(nx.gnp_random_graph(n, rng.uniform(0.2, 0.8), seed=rng.getrandbits(30))).astype(int)
            check_graph(ctx, res, drv, adj, pending)
        flush(res, drv, pending)
    with impl_guard(res, "state_to_graph", promise=True):
        # state_to_graph on all states n<=2 (quick) / n<=3 (thorough) and random states, as Stabilizer- and CliffordTableau
        for n in range(1, (2 if ctx.quick else 3) + 1):
            pool = su.all_states(n)
            if len(pool) != {1: 6, 2: 60, 3: 1080}[n] or not all(tu.is_valid(t) for t in pool):
                # enumerated with graphiq's own gate functions: a changed gate would silently shrink the "all states" stream
                res.exact_break(f"coverage collapsed: all_states({n})", input={"n": n}, impl=f"{len(pool)} states enumerated through hadamard_gate / phase_gate / cnot_gate",
                                model=f"{ {1: 6, 2: 60, 3: 1080}[n]} stabilizer states, all symplectic")
            for t in pool:
                for k in range(2):
                    tab = su.regauge_clifford(t, rng)
                    check_state_to_graph(ctx, res, drv, tab if k else tab.to_stabilizer(), pending, f"all-states-n{n}")
            flush(res, drv, pending)
        for _ in range(int((150 if ctx.quick else 2000) * budget)):
            n = rng.randrange(3, 9)
            tab = su.random_state(rng, n)
            check_state_to_graph(ctx, res, drv, tab if rng.random() < 0.5 else tab.to_stabilizer(), pending, "random")
        # gauge independence (theorem C08.state_to_graph_depends_only_on_state): another generating set of the same state gets the same graph and gates
        for _ in range(int((40 if ctx.quick else 400) * budget)):
            n = rng.randrange(1, 8)
            st = su.random_state(rng, n).to_stabilizer()
            st2 = su.regauge_stab(st, rng)
            res.evaluations += 1
            o1, o2 = impl_state_to_graph(st), impl_state_to_graph(st2)
            if o1[0] == "ok" and o2[0] == "ok" and o1 != o2:
                res.exact_break("state_to_graph:gauge-independence", input={"stab": su.stab_args(st), "regauged": su.stab_args(st2)}, impl=[list(o1), list(o2)],
                                model="same graph and gate list for both generating sets (C08.state_to_graph_depends_only_on_state)")
            else:
                res.traces_validated += 1
            check_state_to_graph(ctx, res, drv, st2, pending, "random-regauged")
    with impl_guard(res, "state_to_graph:scale", promise=True):
        # scale: the completeness theorem holds for every n; D51 lived beyond the sizes that used to be generated (>= 42 qubits).  Random states,
        # dense generating sets of |0..0> (all the weight on the inverted block) and re-gauged graph states at 16..64 qubits.
        for n in ((32,) if ctx.quick else (16, 24, 32, 40, 48, 56, 64)):
            for _ in range(1 if ctx.quick else 3):
                check_state_to_graph(ctx, res, drv, su.random_state(rng, n).to_stabilizer(), pending, "scale:random")
                check_state_to_graph(ctx, res, drv, dense_zero_state(rng, n), pending, "scale:dense-zero")
                adj = nx.to_numpy_array(nx.gnp_random_graph(n, rng.uniform(0.1, 0.6), seed=rng.getrandbits(30))).astype(int)
                check_state_to_graph(ctx, res, drv, su.regauge_stab(graph_stab(adj), rng), pending, "scale:graph-state-regauged")
            flush(res, drv, pending)
        # graph states in other gauges always convert (they are the states the solvers feed in)
        for _ in range(int((40 if ctx.quick else 400) * budget)):
            n = rng.randrange(2, 9)
            adj = nx.to_numpy_array(nx.gnp_random_graph(n, rng.uniform(0.2, 0.9), seed=rng.getrandbits(30))).astype(int)
            check_state_to_graph(ctx, res, drv, su.regauge_stab(graph_stab(adj), rng), pending, "graph-state-regauged")
        flush(res, drv, pending)
    with impl_guard(res, "conversions", promise=True):
        # conversions: all 9 ordered pairs and chains
        reps = ["g", "s", "dm"]
        chains = [[a, b] for a in reps for b in reps] + [list(c) for c in itertools.product(reps, repeat=3)]
        graphs = [a for n in (2, 3) for a in all_adj(n)] + [a for a in all_adj(4)][:: (8 if ctx.quick else 1)]
        for adj in graphs:
            for chain in (chains if adj.shape[0] <= 3 else rng.sample(chains, 6)):
                check_conversions(ctx, res, adj, chain)
        for adj in graphs:
            if adj.shape[0] >= 2:
                check_walk(ctx, res, adj, 6)
                check_node_order(ctx, res, adj)
        for _ in range(int((30 if ctx.quick else 300) * budget)):
            n = rng.randrange(3, 6)
            adj = nx.to_numpy_array(nx.gnp_random_graph(n, rng.uniform(0.2, 0.8), seed=rng.getrandbits(30))).astype(int)
            check_walk(ctx, res, adj, 10)
            check_node_order(ctx, res, adj)
    res.exhaustive = not res.extra.get("streams_aborted")
    res.notes.append(f"exhaustive over all graphs on <= {nmax} vertices; all 9 ordered representation pairs and all length-3 chains on all graphs n<=3")
    res.extra["driver_lines"] = drv.n_lines
    drv.close()
    return res


def search(ctx, res, proof_broken):
    return


def replay(ctx, data):
    v = data.get("violation") or {}
    inp = v.get("input") or {}
    print("replay input:", inp)
    return None
