"""
C16 — relabelling, isomorph search and LC-orbit walks stay in the equivalence class.

Correspondence (exact up to the order of Python `set` iteration): `relabel`/`_perm2matrix`, `automorph_check`,
`get_relabel_map`, `iso_finder` (with `_label_finder`/`_add_labels`; the generator results of `np.random.default_rng` are
recorded and handed to the model), `lc_orbit_finder` (all option sets; `np.random.randint`/`shuffle` recorded),
`rgs_orbit_finder`, `linear_partial_orbit` (+ `_partial_orbit`), `depth_first_orbit` against the Lean model
(`graph.relabel`, `graph.automorph`, `graph.isofinder`, `orb.*`).

Direct oracle (independent of graphiq):
  * `relabel(A, p)[p[u], p[v]] == A[u, v]` for all u, v; a reported relabel map is a bijection preserving adjacency;
  * `iso_finder`: pairwise distinct, each isomorphic to the input (driver backtracking search), at most `n_iso`, the input
    first (demanded only for `sort_emit=False`, DESIGN §5 D38); every label map is an isomorphism input -> entry;
  * explorers: every returned graph lies in the LC orbit of the input (orbit table / BFS over the verified `localComp`,
    n <= 8); the de-duplicating modes return pairwise different (resp. pairwise non-isomorphic) graphs.
networkx `is_isomorphic`, `vf2pp_is_isomorphic`, `GraphMatcher` are parameters: their recorded specification ("decides
isomorphism" / "returns an isomorphism") is checked on observed results by the driver's own search.
"""
import itertools

import numpy as np

from harness import graphutil as gu
from harness.common import Driver, Result, err_class, impl_guard

LEVEL = "proof"
TRUSTED_BASE = [
    "Lean 4.33 kernel",
    "hand-written model GraphiqModel/Model/GraphOps.lean tied to relabel_module.py / lc_equivalence_check.local_comp_graph by this correspondence run",
    "networkx is_isomorphic / vf2pp_is_isomorphic / GraphMatcher.mapping (specification checked on observed results only)",
    "numpy Generator.choice / permutation / np.random.randint / shuffle (recorded, replayed into the model)",
    "IEEE double arithmetic of Lean `Float` equals Python's for the ratios of iso_finder",
    "distinctness of the scripted repeater / linear sequences is a combinatorial claim of the docstrings: checked on the explored sizes, not proved",
    "harness, line protocol, driver BFS orbit enumeration over the verified localComp, driver backtracking isomorphism search",
]
ASSUMPTIONS = [
    "graphs are simple with nodes 0..n-1 in order (nx.from_numpy_array); new_labels are lists over 0..n-1",
    "iso_finder: n_iso >= 1, 0 < rel_inc_thresh < 1; n_iso > n! is a rejected input (AssertionError), not a violation (D38)",
    "lc_orbit_finder with rep_allowed=True is only called with a size threshold or a depth (it does not terminate otherwise)",
    "the order in which Python iterates a set of tuples is unspecified: compared as sets",
]

FUEL = 100000


def viol(res, key, clause, **kw):
    gu.viol(res, key, clause, **kw)


# ---------------------------------------------------------------------------------------------------- relabel
def check_relabel(res, drv, cases, label):
    """cases: list of (A, p, wellformed)"""
    from graphiq.utils.relabel_module import relabel

    lines, meta = [], []
    for A, p, well in cases:
        n = len(A)
        inp = {"adj": gu.adj_args(A), "p": list(map(int, p))}
        try:
            out = np.asarray(relabel(np.array(A), np.array(p, dtype=int) if len(p) else np.array([], dtype=int)))
            err = None
        except Exception as e:  # noqa: BLE001
            out, err = None, err_class(e)
        res.evaluations += 1
        res.count("sizes", f"relabel:n={n}" if n <= 6 else "relabel:n>6")
        if well:
            if err is not None:
                viol(res, f"relabel:raises:{err}", "relabel raised on a permutation of the vertices", input=inp)
                continue
            if not np.array_equal(out, gu.permute(A, p)):
                viol(res, "relabel:wrong-matrix", "the relabelled graph must have edge (p(u),p(v)) exactly when the original has (u,v)", input=inp, impl=out.astype(int).tolist())
                continue
            if A.any() and list(p) != list(range(n)):
                res.nontrivial("relabel", gu.bits(A), tuple(p))
        else:
            res.count("errors", f"relabel:{err}")
        lines.append(f"graph.relabel {gu.adj_args(A)} p={gu.seq_str(p)}")
        meta.append((inp, out, err))
    reps = drv.batch(lines)
    for rep, (inp, out, err) in zip(reps, meta):
        want = f"err {err}" if err is not None else "ok m=" + (",".join(str(int(v)) for v in out.ravel()) if out.size else "-")
        if rep["_raw"] != want:
            res.exact_break("graph.relabel", input=inp, impl=want[:300], model=rep["_raw"][:300])
        else:
            res.traces_validated += 1
    if lines:
        res.sample(f"[{label}] {lines[len(lines) // 2][:160]} -> {reps[len(lines) // 2]['_raw'][:100]}")


def check_relabel_map(res, drv, rng, count, nmax):
    from graphiq.utils.relabel_module import get_relabel_map

    for _ in range(count):
        n = rng.randrange(1, nmax + 1)
        A = gu.structured_graph(rng, n)
        w = rng.random()
        p = gu.random_perm(rng, n) if w < 0.8 else list(range(n))
        B = gu.permute(A, p) if w < 0.92 else gu.structured_graph(rng, n)
        as_graph = rng.random() < 0.5
        inp = {"a": gu.adj_args(A), "b": gu.adj_args(B, "b", with_n=False), "as_graph": as_graph}
        iso_rep = drv.ask(f"graph.iso {inp['a']} {inp['b']}")
        iso = iso_rep.get("iso") == "1"
        try:
            m = get_relabel_map(gu.to_graph(A), gu.to_graph(B)) if as_graph else get_relabel_map(np.array(A), np.array(B))
            err = None
        except Exception as e:  # noqa: BLE001
            m, err = None, err_class(e)
        res.evaluations += 1
        res.count("sizes", f"map:n={n}")
        if not iso:
            res.count("errors", f"map:{err}")
            if err != "assertion":
                res.exact_break("get_relabel_map:non-isomorphic", input=inp, impl=str(m)[:200], model="err assertion (GraphMatcher.is_isomorphic is false)")
            continue
        if err is not None:
            viol(res, f"get_relabel_map:raises:{err}", "no relabel map reported for two isomorphic graphs", input=inp)
            continue
        try:
            mm = {k: v for k, v in m.items() if k != -1}
        except Exception:  # noqa: BLE001 — not a dictionary: certainly not an isomorphism
            mm = None
        if mm is None or not gu.is_iso_map(A, B, mm):
            viol(res, "get_relabel_map:not-an-isomorphism", "the reported relabel map must be an isomorphism between the two graphs", input=inp, impl=str(m)[:300])
            continue
        rep = drv.ask(f"graph.isomap {inp['a']} {inp['b']} map={gu.seq_str([mm[u] for u in range(n)])}")
        if rep.get("valid") != "1":
            res.exact_break("graph.isomap", input=inp, impl=str(mm), model=rep["_raw"][:100])
        else:
            res.traces_validated += 1
            res.nontrivial("map", inp["a"], inp["b"])
            res.branch(["map:self" if -1 in m else "map:matcher"])


def check_relabel_map_named(res, drv, rng, count, nmax):
    """`get_relabel_map` on networkx graphs whose node *names* are not 0..n-1 and whose insertion order is not the sorted order
    (user targets named 1..n, scrambled construction order, names exchanged between positions): the reported map, read as a map
    between the names, must still be an isomorphism.  Half of the cases have equal adjacency matrices *in their own node order*
    (the early-return branch of the code) although the names at equal positions differ."""
    import networkx as nx
    from graphiq.utils.relabel_module import get_relabel_map

    def named_graph(A, names, order):
        g = nx.Graph()
        g.add_nodes_from(names[i] for i in order)
        n = len(A)
        g.add_edges_from((names[i], names[j]) for i in range(n) for j in range(i + 1, n) if A[i][j])
        return g

    for _ in range(count):
        n = rng.randrange(2, nmax + 1)
        A = gu.structured_graph(rng, n)
        off = rng.choice([0, 1, 1, 5])
        names1 = [i + off for i in range(n)]
        ord1 = gu.random_perm(rng, n) if rng.random() < 0.7 else list(range(n))
        if rng.random() < 0.5:
            # same matrix in own order: position k of g2 carries another name than position k of g1
            p = gu.random_perm(rng, n)
            B = gu.permute(A, p)          # B[p[i]][p[j]] = A[i][j]: index i of A is index p[i] of B
            off2 = rng.choice([0, 0, 1])
            names2 = [i + off2 for i in range(n)]
            ord2 = [p[i] for i in ord1]   # position k of g2 = image of position k of g1
            kind = "same-matrix"
        else:
            p = gu.random_perm(rng, n)
            B = gu.permute(A, p)
            off2 = rng.choice([0, 1])
            names2 = [i + off2 for i in range(n)]
            ord2 = gu.random_perm(rng, n)
            kind = "scrambled"
        g1, g2 = named_graph(A, names1, ord1), named_graph(B, names2, ord2)
        inp = {"a": gu.adj_args(A), "b": gu.adj_args(B, "b", with_n=False), "names1": names1, "order1": ord1, "names2": names2, "order2": ord2, "kind": kind}
        res.evaluations += 1
        res.count("sizes", f"map-named:n={n}")
        try:
            m = get_relabel_map(g1, g2)
        except Exception as e:  # noqa: BLE001
            viol(res, f"get_relabel_map:raises:{err_class(e)}", "no relabel map reported for two isomorphic graphs (named nodes)", input=inp)
            continue
        idx2 = {nm: i for i, nm in enumerate(names2)}
        try:
            mm = {k: v for k, v in m.items() if k != -1}
            mi = {i: idx2[mm[names1[i]]] for i in range(n)}
            ok = gu.is_iso_map(A, B, mi)
        except (KeyError, AttributeError, TypeError):  # not a dictionary / not total on the names: not an isomorphism
            ok = False
        if not ok:
            viol(res, "get_relabel_map:not-an-isomorphism", "the reported relabel map must be an isomorphism between the two graphs (node names other than 0..n-1 / scrambled insertion order)",
                 input=inp, impl=str(m)[:300])
            continue
        rep = drv.ask(f"graph.isomap {inp['a']} {inp['b']} map={gu.seq_str([mi[u] for u in range(n)])}")
        if rep.get("valid") != "1":
            res.exact_break("graph.isomap", input=inp, impl=str(mi), model=rep["_raw"][:100])
        else:
            res.traces_validated += 1
            res.nontrivial("map-named", inp["a"], inp["b"], tuple(ord1), tuple(ord2))
            res.branch(["map-named:self" if -1 in m else "map-named:matcher"])


# ---------------------------------------------------------------------------------------------------- automorph_check / iso_finder
class RecordingRng:
    """proxy around a numpy Generator recording the results of choice / permutation"""

    def __init__(self, real, log):
        self.real = real
        self.log = log
        self.calls = []
        log.append(self.calls)

    # the proxies accept and forward whatever the caller passes (positional `replace` / `axis`, new keywords): a refactored call of
    # the generator must not raise inside the recorder
    def choice(self, a, *args, **k):
        out = self.real.choice(a, *args, **k)
        for row in np.asarray(out).reshape(-1, np.asarray(out).shape[-1]) if np.asarray(out).ndim >= 2 else []:
            self.calls.append([int(v) for v in row])
        return out

    def permutation(self, x, *args, **k):
        out = self.real.permutation(x, *args, **k)
        self.calls.append([int(v) for v in out])
        return out

    def __getattr__(self, name):
        return getattr(self.real, name)


def adjs_of(arr):
    return [np.asarray(a).astype(int) for a in arr]


def check_automorph(res, drv, rng, count, nmax):
    from graphiq.utils.relabel_module import automorph_check

    for _ in range(count):
        n = rng.randrange(2, nmax + 1)
        A = gu.structured_graph(rng, n)
        labels = [gu.random_perm(rng, n) if rng.random() < 0.85 else list(range(n)) for _ in range(rng.randrange(0, 9))]
        if labels and rng.random() < 0.3:
            labels.append(list(labels[0]))
        inp = {"adj": gu.adj_args(A), "labels": labels}
        try:
            out = adjs_of(automorph_check(np.array(A), np.array(labels, dtype=int).reshape(len(labels), n)))
        except Exception as e:  # noqa: BLE001
            viol(res, f"automorph_check:raises:{err_class(e)}", "automorph_check raised on permutations", input=inp)
            continue
        res.evaluations += 1
        res.count("sizes", f"automorph:n={n}")
        want = {gu.bits(gu.permute(A, p)) for p in labels} | {gu.bits(A)}
        got = [gu.bits(a) for a in out]
        if got[0] != gu.bits(A) or len(set(got)) != len(got) or set(got) != want:
            viol(res, "automorph_check:wrong-set", "automorph_check must return the input first, then every distinct relabelled matrix exactly once", input=inp, impl=got)
            continue
        rep = drv.ask(f"graph.automorph {gu.adj_args(A)} labels={gu.lists_str(labels)}")
        mod = rep.get("adjs", "").split(";")
        if rep["_status"] != "ok" or mod[0] != got[0] or sorted(mod) != sorted(got):
            res.exact_break("graph.automorph", input=inp, impl=got, model=rep["_raw"][:300])
        else:
            res.traces_validated += 1
            if labels:
                res.nontrivial("automorph", inp["adj"], str(labels))


RITS = [(1, 10), (1, 5), (1, 2), (9, 10)]


def one_iso_finder(res, drv, rng, A, cfg):
    import numpy.random as npr

    from graphiq.utils import relabel_module as rm

    n = len(A)
    n_iso, rit, exh, sort_emit, label_map, thresh, seed = cfg
    inp = {"adj": gu.adj_args(A), "n_iso": n_iso, "rel_inc_thresh": f"{rit[0]}/{rit[1]}", "allow_exhaustive": exh, "sort_emit": sort_emit,
           "label_map": label_map, "thresh": thresh, "seed": seed}
    log = []
    real = npr.default_rng
    np.random.default_rng = lambda *a, **k: RecordingRng(real(*a, **k), log)
    try:
        with gu.time_limit(300):
            out = rm.iso_finder(np.array(A), n_iso, rel_inc_thresh=rit[0] / rit[1], allow_exhaustive=exh, sort_emit=sort_emit,
                                label_map=label_map, thresh=thresh, seed=seed)
        err = None
    except gu.Timeout:
        out, err = None, "runtime"
    except Exception as e:  # noqa: BLE001
        out, err = None, err_class(e)
    finally:
        np.random.default_rng = real
    res.evaluations += 1
    res.count("sizes", f"iso_finder:n={n}" if n <= 7 else "iso_finder:n>=8")
    draws = "|".join(gu.lists_str(c) for c in log) if log else "-"
    line = (f"graph.isofinder {gu.adj_args(A)} niso={n_iso} rit={rit[0]}/{rit[1]} exh={int(exh)} sort={int(sort_emit)} map={int(label_map)} "
            f"thresh={'-' if thresh is None else thresh} draws={draws}")
    rep = drv.ask(line)
    import math

    rejected = n_iso > math.factorial(n) or n_iso < 1
    if err is not None:
        res.count("errors", f"iso_finder:{err}")
        if not rejected:
            viol(res, f"iso_finder:raises:{err}", "iso_finder raised on a well-formed request", input=inp)
        if rep["_status"] != "err" or rep.get("_err") != err:
            res.exact_break("graph.isofinder:error-class", input=inp, impl=f"err {err}", model=rep["_raw"][:200])
        return
    mapping = None
    try:
        if isinstance(out, tuple):
            out, mapping = out
        adjs = adjs_of(out)
        got = [gu.bits(a) for a in adjs]
        if mapping is not None:
            mapping = [dict(m) for m in mapping]
    except Exception as e:  # noqa: BLE001 — the result is not (a list of matrices[, a list of label maps])
        viol(res, "iso_finder:malformed-result", f"iso_finder must return adjacency matrices (and label maps when asked): {err_class(e)}", input=inp, impl=str(type(out)))
        return
    # ---- direct oracle
    bad = None
    if len(got) > n_iso:
        bad = ("iso_finder:more-than-requested", "never more matrices than requested")
    elif len(set(got)) != len(got):
        bad = ("iso_finder:duplicates", "the returned adjacency matrices must be pairwise distinct")
    elif len(got) == 0 or (not (sort_emit and rep.get("path") == "loop-exit") and got[0] != gu.bits(A)):
        bad = ("iso_finder:input-not-first", "the input must be the first returned matrix (sort_emit=False)")
    elif gu.bits(A) not in got:
        bad = ("iso_finder:input-missing", "the input must be among the returned matrices")
    else:
        for a in adjs:
            if not (np.array_equal(a, a.T) and not a.diagonal().any()):
                bad = ("iso_finder:not-a-graph", "every returned matrix must be a simple graph")
                break
            r = drv.ask(f"graph.iso {gu.adj_args(A)} b={gu.bits(a)}")
            if r.get("iso") != "1":
                bad = ("iso_finder:not-isomorphic", "every returned matrix must be isomorphic to the input")
                break
    if bad is None and mapping is not None:
        # the maps are built for the whole de-duplicated list *before* the final [:n_iso]; the property does not say the two
        # lists have equal length, so only "at least one map per returned matrix, in order" is demanded (noted in the evidence)
        if len(mapping) < len(adjs):
            bad = ("iso_finder:label-map-length", "at least one label map per returned matrix")
        else:
            if len(mapping) > len(adjs):
                res.count("branches", "iso_finder:label-map-longer-than-result")
            for a, m in zip(adjs, mapping):
                if not gu.is_iso_map(A, a, {k: v for k, v in m.items() if k != -1}):
                    bad = ("iso_finder:label-map-wrong", "every label map must be an isomorphism from the input to the returned matrix")
                    break
    if bad is not None:
        viol(res, bad[0], bad[1], input=inp, impl=got[:12])
        return
    res.nontrivial("iso_finder", inp["adj"], str(cfg))
    # ---- model
    if rep["_status"] != "ok":
        res.exact_break("graph.isofinder", input=inp, impl=f"ok {len(got)} matrices", model=rep["_raw"][:200])
        return
    res.branch([f"iso_finder:{rep.get('path')}"])
    full = rep.get("full", "").split(";")
    consumed = [int(t) for t in rep.get("consumed", "").split(",") if t not in ("", "-")]
    ok = int(rep.get("nout", -1)) == len(got) and set(got) <= set(full) and full[0] == gu.bits(A)
    ok = ok and consumed == [len(c) for c in log][: len(consumed)] and len(consumed) == len(log)
    ok = ok and (rep.get("withmap") == "1") == (mapping is not None)
    if not ok:
        res.exact_break("graph.isofinder", input=inp, impl={"n": len(got), "draws_per_call": [len(c) for c in log], "map": mapping is not None},
                        model=rep["_raw"][:300])
        return
    if rep.get("sorted") == "1":
        from graphiq.backends.stabilizer.functions.height import height_max

        try:
            hs = [height_max(graph=gu.to_graph(a)) for a in adjs]
        except Exception as e:  # noqa: BLE001 — height_max (property C03) on a graph: reported, not a harness crash
            res.exact_break(f"graph.isofinder:sort_emit:height_max:raises:{err_class(e)}", input=inp, impl=repr(e)[:200], model="emitter numbers of the returned graphs")
            return
        if hs != sorted(hs):
            res.exact_break("graph.isofinder:sort_emit", input=inp, impl=hs, model="non-decreasing emitter numbers")
            return
    res.traces_validated += 1
    if res.evaluations % 23 == 0:
        res.sample(f"{line[:220]} -> {rep['_raw'][:120]}")


def check_iso_finder(res, drv, rng, count, nmax, big):
    import math

    for k in range(count):
        n = rng.randrange(2, nmax + 1) if rng.random() < 0.97 else 1
        A = gu.structured_graph(rng, n) if n > 1 else np.zeros((1, 1), dtype=int)
        nmaxp = math.factorial(n)
        w = rng.random()
        if w < 0.06:
            n_iso = nmaxp + rng.randrange(1, 3)
        elif w < 0.2:
            n_iso = nmaxp
        else:
            n_iso = rng.randrange(1, min(nmaxp, 40) + 1)
        cfg = (n_iso, rng.choice(RITS), rng.random() < 0.6, rng.random() < 0.25, rng.random() < 0.3,
               rng.choice([None, None, 1, 3, 10, 50, 200]), rng.choice([None, 0, 1, 7, 12345]))
        one_iso_finder(res, drv, rng, A, cfg)
    for k in range(big):
        n = rng.randrange(8, 10)
        A = gu.structured_graph(rng, n)
        cfg = (rng.randrange(1, 60), rng.choice(RITS), rng.random() < 0.15, rng.random() < 0.2, rng.random() < 0.3,
               rng.choice([None, None, 3, 10, 50, 400]), rng.choice([None, 0, 5]))
        one_iso_finder(res, drv, rng, A, cfg)


# ---------------------------------------------------------------------------------------------------- explorers
class NpRandomRecorder:
    def __init__(self):
        self.real_randint = np.random.randint
        self.real_shuffle = np.random.shuffle
        self.draws = []
        self.shuffles = []

    def randint(self, *a, **k):
        v = self.real_randint(*a, **k)
        self.draws.extend(int(x) for x in np.ravel(v))  # scalar or array draw: recorded value by value
        return v

    def shuffle(self, x, *a, **k):
        self.real_shuffle(x, *a, **k)
        self.shuffles.append([int(v) for v in x])

    def __enter__(self):
        np.random.randint = self.randint
        np.random.shuffle = self.shuffle
        return self

    def __exit__(self, *a):
        np.random.randint = self.real_randint
        np.random.shuffle = self.real_shuffle
        return False


class IsoSpy:
    """records a sample of the observed results of networkx's isomorphism tests (checked against the driver's search)"""

    def __init__(self, cap=12):
        import networkx as nx

        self.nx = nx
        self.real = (nx.is_isomorphic, nx.vf2pp_is_isomorphic)
        self.obs = []
        self.cap = cap

    def _wrap(self, f):
        def g(*a, **k):
            # arguments are forwarded exactly as given (positional or G1= / G2= keywords)
            r = f(*a, **k)
            g1 = a[0] if len(a) > 0 else k.get("G1")
            g2 = a[1] if len(a) > 1 else k.get("G2")
            if len(self.obs) < self.cap and g1 is not None and g2 is not None:
                self.obs.append((gu.to_adj(g1), gu.to_adj(g2), bool(r)))
            return r

        return g

    def __enter__(self):
        self.nx.is_isomorphic = self._wrap(self.real[0])
        self.nx.vf2pp_is_isomorphic = self._wrap(self.real[1])
        return self

    def __exit__(self, *a):
        self.nx.is_isomorphic, self.nx.vf2pp_is_isomorphic = self.real
        return False


def orbit_membership(res, drv, orb, A, outs, key, inp, cache):
    n = len(A)
    if n > 8:
        return True
    if n <= 6:
        t = orb.table(n)
        ra = t[gu.mask_of(A)]
        bad = [g for g in outs if t[gu.mask_of(g)] != ra]
    else:
        k = gu.bits(A)
        if k not in cache:
            cache[k] = orb.orbit_masks(A)
        bad = [g for g in outs if gu.mask_of(g) not in cache[k]]
    if bad:
        viol(res, f"{key}:outside-orbit", "every graph returned by an LC-orbit explorer must lie in the local-complementation orbit of the input",
             input=inp, impl=gu.bits(bad[0]))
        return False
    return True


def check_iso_spec(res, drv, spy):
    for g1, g2, r in spy.obs:
        if len(g1) != len(g2) or len(g1) > 8:
            continue
        rep = drv.ask(f"graph.iso {gu.adj_args(g1)} b={gu.bits(g2)}")
        if (rep.get("iso") == "1") != r:
            res.exact_break("networkx:is_isomorphic:spec", input={"a": gu.bits(g1), "b": gu.bits(g2)}, impl=r, model=rep["_raw"][:100])


OPTION_SETS = [  # (with_iso, rand, rep_allowed) as AlternateTargetSolver uses them, plus the remaining combinations
    (False, False, False), (True, False, False), (False, True, False), (True, True, False), (True, True, True), (False, False, True), (False, True, True),
]


def one_lc_orbit(res, drv, orb, rng, A, opts, depth, thresh, cache):
    from graphiq.utils.relabel_module import lc_orbit_finder

    with_iso, rand, rep_allowed = opts
    n = len(A)
    inp = {"adj": gu.adj_args(A), "comp_depth": depth, "orbit_size_thresh": thresh, "with_iso": with_iso, "rand": rand, "rep_allowed": rep_allowed}
    np.random.seed(rng.randrange(2 ** 31))
    with NpRandomRecorder() as rec, IsoSpy() as spy:
        try:
            with gu.time_limit(300):
                outs = [gu.to_adj(g) for g in lc_orbit_finder(gu.to_graph(A), comp_depth=depth, orbit_size_thresh=thresh, with_iso=with_iso, rand=rand, rep_allowed=rep_allowed)]
            err = None
        except gu.Timeout:
            outs, err = None, "runtime"
        except Exception as e:  # noqa: BLE001
            outs, err = None, err_class(e)
    res.evaluations += 1
    res.count("sizes", f"lc_orbit_finder:n={n}" if n <= 6 else "lc_orbit_finder:n>6")
    res.branch([f"lc_orbit_finder:iso={int(with_iso)},rand={int(rand)},rep={int(rep_allowed)}"])
    if err is not None:
        viol(res, f"lc_orbit_finder:raises:{err}", "the orbit explorer raised / did not terminate on a bounded request", input=inp)
        return
    ok = orbit_membership(res, drv, orb, A, outs, "lc_orbit_finder", inp, cache)
    if ok and not rep_allowed:
        got = [gu.bits(g) for g in outs]
        if len(set(got)) != len(got):
            viol(res, "lc_orbit_finder:duplicates", "an explorer asked for distinct graphs must return pairwise different ones", input=inp, impl=got[:10])
            ok = False
        elif not with_iso and n <= 8:
            for g1, g2 in itertools.combinations(outs, 2):
                if drv.ask(f"graph.iso {gu.adj_args(g1)} b={gu.bits(g2)}").get("iso") == "1":
                    viol(res, "lc_orbit_finder:isomorphic-pair", "without with_iso the returned graphs must be pairwise non-isomorphic", input=inp, impl=[gu.bits(g1), gu.bits(g2)])
                    ok = False
                    break
    if ok and thresh is not None and len(outs) > thresh:
        viol(res, "lc_orbit_finder:more-than-threshold", "never more graphs than orbit_size_thresh", input=inp)
        ok = False
    if not ok:
        return
    check_iso_spec(res, drv, spy)
    if A.any():
        res.nontrivial("lc_orbit_finder", inp["adj"], str(opts), depth, thresh, tuple(rec.draws), str(rec.shuffles))
    line = (f"orb.lc {gu.adj_args(A)} depth={'-' if depth is None else depth} thresh={'-' if thresh is None else thresh} iso={int(with_iso)} "
            f"rand={int(rand)} rep={int(rep_allowed)} fuel={FUEL} draws={gu.seq_str(rec.draws)} shuffles={gu.lists_str(rec.shuffles)}")
    rep = drv.ask(line)
    want = ";".join(gu.bits(g) for g in outs) if outs else "-"
    if rep["_status"] != "ok" or rep.get("graphs") != want:
        res.exact_break("orb.lc", input=inp, impl=want[:300], model=rep["_raw"][:300], draws=rec.draws, shuffles=rec.shuffles)
    else:
        res.traces_validated += 1
        if res.evaluations % 31 == 0:
            res.sample(f"{line[:200]} -> {rep['_raw'][:100]}")


def check_lc_orbit(res, drv, orb, rng, graphs, per_graph, cache):
    for A in graphs:
        for _ in range(per_graph):
            opts = rng.choice(OPTION_SETS)
            depth = rng.choice([None, 1, 2, 3])
            thresh = rng.choice([None, 1, 2, 4, 7, 12])
            if opts[2] and thresh is None:
                thresh = rng.choice([2, 5, 9])  # rep_allowed without a threshold does not terminate (DESIGN §4 C16)
            if depth is None and thresh is None and len(A) > 6:
                depth = 2
            one_lc_orbit(res, drv, orb, rng, A, opts, depth, thresh, cache)


def check_scripted(res, drv, orb, rng, quick, cache):
    """rgs_orbit_finder, linear_partial_orbit, depth_first_orbit"""
    from graphiq.benchmarks.graph_states import repeater_graph_states
    from graphiq.utils import relabel_module as rm

    jobs = []
    for m in range(2, 5 if quick else 7):
        R = gu.to_adj(repeater_graph_states(m))
        jobs.append(("rgs", R, True, True))
        jobs.append(("rgs", gu.repeater_graph(m), True, True))
        jobs.append(("rgs", gu.permute(R, gu.random_perm(rng, 2 * m)), True, False))
    for n in range(3, 11 if quick else 13):
        jobs.append(("linear", gu.path_graph(n), True, True))
        if n <= 9:
            jobs.append(("linear", gu.permute(gu.path_graph(n), gu.random_perm(rng, n)), True, False))
    for _ in range(10 if quick else 60):
        n = rng.randrange(1, 8)
        jobs.append((rng.choice(["rgs", "linear"]), gu.structured_graph(rng, n), False, False))
    for n in range(1, 6 if quick else 7):
        jobs.append(("dfs", gu.path_graph(n), True, True))
        jobs.append(("dfs", gu.structured_graph(rng, n), True, True))
        jobs.append(("dfs", gu.structured_graph(rng, n), True, True))
    if not quick:
        for _ in range(40):
            jobs.append(("dfs", gu.structured_graph(rng, rng.randrange(2, 7)), True, True))
    # the scripted LC sequence itself
    for n in range(0, 15 if quick else 21):
        res.evaluations += 1
        try:
            seq = rm._partial_orbit(n)
            flat = seq[-1] if seq else []
        except Exception as e:  # noqa: BLE001 — total in the model for every n >= 0
            res.exact_break(f"orb.partialseq:raises:{err_class(e)}", input={"n": n}, impl=repr(e)[:200], model=drv.ask(f"orb.partialseq n={n}")["_raw"][:200])
            continue
        rep = drv.ask(f"orb.partialseq n={n}")
        if rep.get("seq") != gu.seq_str(flat) or [list(s) for s in seq] != [flat[: i + 1] for i in range(len(flat))]:
            res.exact_break("orb.partialseq", input={"n": n}, impl=flat, model=rep["_raw"][:200])
        else:
            res.traces_validated += 1
    for kind, A, expect_ok, expect_distinct in jobs:
        n = len(A)
        inp = {"adj": gu.adj_args(A), "explorer": kind}
        f = {"rgs": rm.rgs_orbit_finder, "linear": rm.linear_partial_orbit, "dfs": rm.depth_first_orbit}[kind]
        with IsoSpy() as spy:
            try:
                with gu.time_limit(1200):
                    outs = [gu.to_adj(g) for g in f(gu.to_graph(A))]
                err = None
            except gu.Timeout:
                outs, err = None, "runtime"
            except Exception as e:  # noqa: BLE001
                outs, err = None, err_class(e)
        res.evaluations += 1
        res.count("sizes", f"{kind}:n={n}" if n <= 8 else f"{kind}:n>8")
        cmd = {"rgs": "orb.rgs", "linear": "orb.linear", "dfs": "orb.dfs"}[kind]
        rep = drv.ask(f"{cmd} {gu.adj_args(A)} fuel={FUEL}")
        if err is not None:
            res.count("errors", f"{kind}:{err}")
            if kind == "dfs" or (expect_ok and err != "assertion"):
                viol(res, f"{kind}:raises:{err}", "the explorer raised on a valid input", input=inp)
            if rep["_status"] != "err" or rep.get("_err") != err:
                res.exact_break(f"{cmd}:error-class", input=inp, impl=f"err {err}", model=rep["_raw"][:200])
            continue
        ok = orbit_membership(res, drv, orb, A, outs, {"rgs": "rgs_orbit_finder", "linear": "linear_partial_orbit", "dfs": "depth_first_orbit"}[kind], inp, cache)
        got = [gu.bits(g) for g in outs]
        if ok and len(set(got)) != len(got):
            if expect_distinct:
                # canonical labelling of the family the docstring speaks about (or the de-duplicating depth-first explorer)
                viol(res, f"{kind}:duplicates", "the explorer's docstring promises distinct graphs", input=inp, impl=got[:10])
                ok = False
            else:
                res.count("branches", f"{kind}:duplicates-on-relabelled-or-degenerate-input(observation)")
        if ok and kind == "dfs" and n <= 8:
            for g1, g2 in itertools.combinations(outs, 2):
                if drv.ask(f"graph.iso {gu.adj_args(g1)} b={gu.bits(g2)}").get("iso") == "1":
                    viol(res, "dfs:isomorphic-pair", "depth_first_orbit de-duplicates up to isomorphism", input=inp, impl=[gu.bits(g1), gu.bits(g2)])
                    ok = False
                    break
        if not ok:
            continue
        check_iso_spec(res, drv, spy)
        if A.any():
            res.nontrivial(kind, inp["adj"])
        want = ";".join(got) if got else "-"
        same = rep["_status"] == "ok" and (rep.get("graphs") == want if kind != "dfs" else sorted(rep.get("graphs", "").split(";")) == sorted(got))
        if not same:
            res.exact_break(cmd, input=inp, impl=want[:300], model=rep["_raw"][:300])
        else:
            res.traces_validated += 1
            res.branch([f"{kind}:ok"])


def check_preprocessing(res, drv, orb, rng, count, cache):
    """utils/preprocessing.py: the metric-guided LC walks `get_lc_graph_by_max_edge` / `get_lc_graph_by_max_neighbor_edge`
    (direct oracle only: every candidate they return lies in the LC orbit of the input, never more than requested)"""
    from graphiq.utils import preprocessing as pp

    metrics = [("edges", lambda g: g.number_of_edges()), ("neg-edges", lambda g: -g.number_of_edges()),
               ("max-degree", lambda g: max([d for _, d in g.degree()] or [0]))]
    for _ in range(count):
        n = rng.randrange(2, 7)
        A = gu.structured_graph(rng, n)
        fname = rng.choice(["get_lc_graph_by_max_edge", "get_lc_graph_by_max_neighbor_edge"])
        mname, metric = rng.choice(metrics)
        limit, trials = rng.randrange(1, 5), rng.randrange(1, 4)
        inp = {"adj": gu.adj_args(A), "function": fname, "metric": mname, "n_graphs": limit, "n_trial": trials}
        arg = gu.to_graph(A) if rng.random() < 0.5 else np.array(A, dtype=float)
        try:
            with gu.time_limit(300):
                out = getattr(pp, fname)(arg, limit, metric, n_trial=trials)
            outs = [gu.to_adj(g) for _, g in out]
        except Exception as e:  # noqa: BLE001
            viol(res, f"{fname}:raises:{err_class(e)}", "the metric-guided LC walk raised on a graph", input=inp)
            continue
        res.evaluations += 1
        res.count("sizes", f"preprocessing:n={n}")
        if len(outs) > limit:
            viol(res, f"{fname}:more-than-requested", "never more candidate graphs than requested", input=inp)
            continue
        if not orbit_membership(res, drv, orb, A, outs, fname, inp, cache):
            continue
        if A.any():
            res.nontrivial(fname, inp["adj"], mname, limit, trials)
        rep = drv.ask(f"orb.walk {gu.adj_args(A)} kind={'nbedge' if 'neighbor' in fname else 'edge'} metric={mname} limit={limit} trials={trials}")
        want = ";".join(gu.bits(g) for g in outs) if outs else "-"
        if rep["_status"] != "ok" or rep.get("graphs") != want:
            res.exact_break("orb.walk", input=inp, impl=want[:300], model=rep["_raw"][:300])
        else:
            res.traces_validated += 1


# ---------------------------------------------------------------------------------------------------- run
def relabel_cases(rng, quick):
    cases = []
    for n in range(0, 5):
        perms = list(itertools.permutations(range(n)))
        for m in range(gu.n_graphs(n)):
            A = gu.graph_of_mask(n, m)
            for p in perms:
                cases.append((A, list(p), True))
    if not quick:
        perms = list(itertools.permutations(range(5)))
        for m in range(0, 1024):
            A = gu.graph_of_mask(5, m)
            for p in perms[:: 5]:
                cases.append((A, list(p), True))
    for _ in range(150 if quick else 1500):
        n = rng.randrange(5, 10)
        cases.append((gu.structured_graph(rng, n), gu.random_perm(rng, n), True))
    # malformed stream: wrong length, label out of range, repeated label
    for _ in range(40 if quick else 200):
        n = rng.randrange(2, 7)
        A = gu.structured_graph(rng, n)
        p = gu.random_perm(rng, n)
        k = rng.randrange(4)
        if k == 0:
            p = p[:-1]
        elif k == 1:
            p = p + [rng.randrange(n)]
        elif k == 2:
            p[rng.randrange(n)] = n + rng.randrange(2)
        else:
            p[rng.randrange(n)] = p[rng.randrange(n)]
        cases.append((A, p, False))
    return cases


def run(ctx):
    res = Result()
    res.rule = ("one evaluation = one call of a relabel_module function on one input and configuration; non-trivial = the graph has an edge "
                "(and the permutation is not the identity / at least one label array is given); distinct by (function, adjacency matrix, all arguments, recorded random draws)")
    drv = gu.RDriver()
    orb = gu.OrbitOracle(drv)
    rng = ctx.rng
    cache = {}
    quick = ctx.quick
    cases = relabel_cases(rng, quick)
    # the streams run under common.impl_guard: an exception of graphiq that no call site handles is reported, not a harness crash
    with impl_guard(res, "relabel", promise=True):
        for k in range(0, len(cases), 2000):
            check_relabel(res, drv, cases[k:k + 2000], "relabel")
        res.notes.append("exhaustive: relabel on every graph with n<=4 vertices x every permutation (64x24 + 8x6 + 2x2 + 1 + 1 cases)")
    with impl_guard(res, "get_relabel_map", promise=True):
        check_relabel_map(res, drv, rng, 150 if quick else 1500, 8)
        check_relabel_map_named(res, drv, rng, 120 if quick else 1200, 8)
    with impl_guard(res, "automorph_check", promise=True):
        check_automorph(res, drv, rng, 100 if quick else 1000, 7)
    with impl_guard(res, "iso_finder", promise=True):
        check_iso_finder(res, drv, rng, 220 if quick else 2500, 6 if quick else 7, 25 if quick else 250)
    # orbit explorers: all graphs n<=4 (quick) / n<=5 (thorough), random up to 7
    small = [gu.graph_of_mask(n, m) for n in range(1, 5) for m in range(gu.n_graphs(n))]
    with impl_guard(res, "lc_orbit_finder", promise=True):
        check_lc_orbit(res, drv, orb, rng, small, 2 if quick else 7, cache)
        if not quick:
            check_lc_orbit(res, drv, orb, rng, [gu.graph_of_mask(5, m) for m in range(1024)], 2, cache)
        check_lc_orbit(res, drv, orb, rng, [gu.structured_graph(rng, rng.randrange(5, 8)) for _ in range(40 if quick else 400)], 2, cache)
    with impl_guard(res, "scripted-explorers", promise=True):
        check_scripted(res, drv, orb, rng, quick, cache)
    with impl_guard(res, "preprocessing", promise=True):
        check_preprocessing(res, drv, orb, rng, 60 if quick else 600, cache)
    res.exhaustive = not res.extra.get("streams_aborted")
    res.extra["driver_lines"] = drv.n_lines
    drv.close()
    return res


def search(ctx, res, proof_broken):
    drv = gu.RDriver()
    orb = gu.OrbitOracle(drv)
    cache = {}
    rng = ctx.rng
    check_iso_finder(res, drv, rng, 600, 6, 30)
    graphs = [gu.graph_of_mask(n, m) for n in range(2, 6) for m in range(0, gu.n_graphs(n), 1 if n < 5 else 5)]
    check_lc_orbit(res, drv, orb, rng, graphs, 3, cache)
    check_scripted(res, drv, orb, rng, False, cache)
    check_relabel_map(res, drv, rng, 500, 8)
    check_relabel_map_named(res, drv, rng, 500, 8)
    drv.close()


def replay(ctx, data):
    v = data.get("violation") or {}
    inp = v.get("input") or {}
    key = v.get("key", "")
    if "adj" not in inp:
        return None
    kv = dict(t.split("=", 1) for t in inp["adj"].split())
    n = int(kv["n"])
    A = gu.adj_from_bits(kv["a"], n)
    res = Result()
    drv = gu.RDriver()
    orb = gu.OrbitOracle(drv)
    try:
        if key.startswith("relabel:"):
            check_relabel(res, drv, [(A, inp["p"], True)], "replay")
        elif key.startswith("iso_finder:"):
            a, b = inp["rel_inc_thresh"].split("/")
            for s in range(5):
                one_iso_finder(res, drv, ctx.rng, A, (inp["n_iso"], (int(a), int(b)), inp["allow_exhaustive"], inp["sort_emit"], inp["label_map"], inp["thresh"], inp["seed"]))
        elif key.startswith("lc_orbit_finder:"):
            for s in range(20):
                one_lc_orbit(res, drv, orb, ctx.rng, A, (inp["with_iso"], inp["rand"], inp["rep_allowed"]), inp["comp_depth"], inp["orbit_size_thresh"], {})
        else:
            return None
    finally:
        drv.close()
    for w in res.violations:
        print("replay violation:", w["key"], "-", w["clause"])
    return not [w for w in res.violations if w["key"] == key]
